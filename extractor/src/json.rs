//! Minimal JSON value + writer (no external crates available for a rustc_private driver).
use std::fmt::Write;

#[derive(Clone, Debug)]
pub enum J {
    Null,
    Bool(bool),
    Int(i128),
    Str(String),
    Arr(Vec<J>),
    Obj(Vec<(String, J)>),
}

impl J {
    pub fn obj() -> J {
        J::Obj(Vec::new())
    }
    pub fn set(&mut self, k: &str, v: J) -> &mut J {
        if let J::Obj(items) = self {
            items.push((k.to_string(), v));
        }
        self
    }
    pub fn with(mut self, k: &str, v: J) -> J {
        self.set(k, v);
        self
    }
    pub fn s<S: Into<String>>(s: S) -> J {
        J::Str(s.into())
    }
    pub fn i<I: Into<i128>>(i: I) -> J {
        J::Int(i.into())
    }
    pub fn u(i: usize) -> J {
        J::Int(i as i128)
    }
    pub fn opt_s(s: Option<String>) -> J {
        match s {
            Some(s) => J::Str(s),
            None => J::Null,
        }
    }
    pub fn write(&self, out: &mut String) {
        match self {
            J::Null => out.push_str("null"),
            J::Bool(b) => out.push_str(if *b { "true" } else { "false" }),
            J::Int(i) => {
                let _ = write!(out, "{}", i);
            }
            J::Str(s) => write_str(s, out),
            J::Arr(a) => {
                out.push('[');
                for (n, x) in a.iter().enumerate() {
                    if n > 0 {
                        out.push(',');
                    }
                    x.write(out);
                }
                out.push(']');
            }
            J::Obj(o) => {
                out.push('{');
                for (n, (k, v)) in o.iter().enumerate() {
                    if n > 0 {
                        out.push(',');
                    }
                    write_str(k, out);
                    out.push(':');
                    v.write(out);
                }
                out.push('}');
            }
        }
    }
}

fn write_str(s: &str, out: &mut String) {
    out.push('"');
    for c in s.chars() {
        match c {
            '"' => out.push_str("\\\""),
            '\\' => out.push_str("\\\\"),
            '\n' => out.push_str("\\n"),
            '\r' => out.push_str("\\r"),
            '\t' => out.push_str("\\t"),
            c if (c as u32) < 0x20 => {
                let _ = write!(out, "\\u{:04x}", c as u32);
            }
            c => out.push(c),
        }
    }
    out.push('"');
}
