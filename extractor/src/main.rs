//! pfx — fact extractor for the preflate-rs static checkers.
//!
//! Used as RUSTC_WORKSPACE_WRAPPER under `cargo +nightly check`: argv[1] is the real rustc
//! path (dropped), the rest are rustc's arguments.  For the workspace member crates it dumps,
//! after analysis, one JSON document (bodies as MIR, items, monomorphic call graph) into
//! $PFX_OUT/<crate>-<kind>.json and lets compilation continue.
#![feature(rustc_private)]
#![feature(box_patterns)]
#![allow(rustc::internal)]

extern crate rustc_abi;
extern crate rustc_data_structures;
extern crate rustc_driver;
extern crate rustc_hir;
extern crate rustc_interface;
extern crate rustc_middle;
extern crate rustc_session;
extern crate rustc_span;

mod json;
use json::J;

use rustc_driver::Compilation;
use rustc_hir::def::DefKind;
use rustc_hir::def_id::{DefId, LocalDefId};
use rustc_hir::LangItem;
use rustc_middle::mir::interpret::{AllocId, GlobalAlloc, Scalar};
use rustc_middle::mir::{self, ConstValue};
use rustc_middle::ty::adjustment::PointerCoercion;
use rustc_middle::ty::print::{with_no_trimmed_paths, with_resolve_crate_name};
use rustc_middle::ty::{
    self, EarlyBinder, Instance, InstanceKind, Ty, TyCtxt, TypeVisitableExt, TypingEnv, VtblEntry,
};
use rustc_span::Span;
use std::collections::{BTreeMap, BTreeSet, HashMap};

struct Pfx;

impl rustc_driver::Callbacks for Pfx {
    fn after_analysis<'tcx>(
        &mut self,
        _compiler: &rustc_interface::interface::Compiler,
        tcx: TyCtxt<'tcx>,
    ) -> Compilation {
        let out_dir = match std::env::var("PFX_OUT") {
            Ok(d) => d,
            Err(_) => return Compilation::Continue,
        };
        let crate_name = tcx.crate_name(rustc_hir::def_id::LOCAL_CRATE).to_string();
        let kinds: Vec<String> =
            tcx.crate_types().iter().map(|c| format!("{:?}", c).to_lowercase()).collect();
        let is_bin = kinds.iter().any(|k| k.contains("executable"));
        let doc = with_resolve_crate_name!(with_no_trimmed_paths!(extract(tcx, &crate_name, is_bin)));
        let mut s = String::with_capacity(8 << 20);
        doc.write(&mut s);
        let path = format!("{}/{}-{}.json", out_dir, crate_name, if is_bin { "bin" } else { "lib" });
        let tmp = format!("{}.tmp{}", path, std::process::id());
        std::fs::write(&tmp, s).expect("pfx: cannot write facts");
        std::fs::rename(&tmp, &path).expect("pfx: cannot rename facts");
        Compilation::Continue
    }
}

fn main() {
    let mut args: Vec<String> = std::env::args().collect();
    // RUSTC_WORKSPACE_WRAPPER calling convention: pfx <rustc> <args...>
    if args.len() > 1 && (args[1].ends_with("rustc") || args[1].contains("/rustc")) {
        args.remove(1);
    }
    let mut cb = Pfx;
    rustc_driver::run_compiler(&args, &mut cb);
}

// ---------------------------------------------------------------------------------------------

fn span_info<'tcx>(tcx: TyCtxt<'tcx>, span: Span) -> (String, i128, Vec<String>) {
    let mut macros = Vec::new();
    if span.from_expansion() {
        for ed in span.macro_backtrace() {
            if let rustc_span::ExpnKind::Macro(_, name) = ed.kind {
                macros.push(name.to_string());
            } else {
                macros.push(format!("{:?}", ed.kind));
            }
        }
    }
    let cs = span.source_callsite();
    let sm = tcx.sess.source_map();
    if cs.is_dummy() {
        return ("?".to_string(), 0, macros);
    }
    let loc = sm.lookup_char_pos(cs.lo());
    let file = match &loc.file.name {
        rustc_span::FileName::Real(r) => match r.local_path() {
            Some(p) => p.to_string_lossy().to_string(),
            None => format!("{:?}", loc.file.name),
        },
        other => format!("{:?}", other),
    };
    (file, loc.line as i128, macros)
}

fn defp<'tcx>(tcx: TyCtxt<'tcx>, d: DefId) -> String {
    tcx.def_path_str(d)
}

fn ty_s<'tcx>(t: Ty<'tcx>) -> String {
    format!("{}", t)
}

fn int_of_scalar<'tcx>(tcx: TyCtxt<'tcx>, s: ty::ScalarInt, t: Ty<'tcx>) -> J {
    let size = s.size();
    let bits = s.to_bits(size);
    let _ = tcx;
    match t.kind() {
        ty::Int(_) => {
            let nb = size.bits();
            let v = if nb == 128 {
                bits as i128
            } else if bits >> (nb - 1) & 1 == 1 {
                (bits as i128) - (1i128 << nb)
            } else {
                bits as i128
            };
            J::Int(v)
        }
        ty::Bool => J::Int(bits as i128),
        _ => {
            if bits > i128::MAX as u128 {
                J::Str(format!("{}", bits))
            } else {
                J::Int(bits as i128)
            }
        }
    }
}

fn hex(bytes: &[u8]) -> String {
    let mut s = String::with_capacity(bytes.len() * 2);
    for b in bytes {
        s.push_str(&format!("{:02x}", b));
    }
    s
}

/// Bytes of a constant allocation (only when it carries no pointers), else a description.
fn alloc_json<'tcx>(tcx: TyCtxt<'tcx>, id: AllocId, depth: usize) -> J {
    match tcx.global_alloc(id) {
        GlobalAlloc::Static(d) => J::obj().with("static", J::s(defp(tcx, d))),
        GlobalAlloc::Function { instance, .. } => {
            J::obj().with("fn", J::s(format!("{}", instance)))
        }
        GlobalAlloc::VTable(t, _) => J::obj().with("vtable", J::s(ty_s(t))),
        GlobalAlloc::TypeId { .. } => J::obj().with("typeid", J::Null),
        GlobalAlloc::Memory(a) => {
            let a = a.inner();
            let len = a.len();
            let bytes = a.inspect_with_uninit_and_ptr_outside_interpreter(0..len.min(1 << 16));
            let mut o = J::obj().with("bytes", J::s(hex(bytes))).with("len", J::u(len));
            let ptrs = a.provenance().ptrs();
            if !ptrs.is_empty() && depth < 3 {
                let mut ps = Vec::new();
                for (off, prov) in ptrs.iter() {
                    ps.push(J::Arr(vec![
                        J::u(off.bytes() as usize),
                        alloc_json(tcx, prov.alloc_id(), depth + 1),
                    ]));
                }
                o.set("ptrs", J::Arr(ps));
            }
            o
        }
    }
}

fn const_value_json<'tcx>(tcx: TyCtxt<'tcx>, v: ConstValue, t: Ty<'tcx>) -> J {
    match v {
        ConstValue::Scalar(Scalar::Int(i)) => J::obj().with("int", int_of_scalar(tcx, i, t)),
        ConstValue::Scalar(Scalar::Ptr(p, _)) => {
            let (prov, off) = p.prov_and_relative_offset();
            J::obj()
                .with("ptr", alloc_json(tcx, prov.alloc_id(), 0))
                .with("off", J::u(off.bytes() as usize))
        }
        ConstValue::ZeroSized => J::obj().with("zst", J::Bool(true)),
        ConstValue::Slice { alloc_id, meta } => {
            J::obj().with("slice", alloc_json(tcx, alloc_id, 0)).with("meta", J::u(meta as usize))
        }
        ConstValue::Indirect { alloc_id, offset } => J::obj()
            .with("indirect", alloc_json(tcx, alloc_id, 0))
            .with("off", J::u(offset.bytes() as usize)),
    }
}

struct BodyCx<'a, 'tcx> {
    tcx: TyCtxt<'tcx>,
    body: &'a mir::Body<'tcx>,
    env: TypingEnv<'tcx>,
}

impl<'a, 'tcx> BodyCx<'a, 'tcx> {
    fn place(&self, p: &mir::Place<'tcx>) -> J {
        let mut proj = Vec::new();
        let mut pty = mir::PlaceTy::from_ty(self.body.local_decls[p.local].ty);
        for elem in p.projection.iter() {
            let e = match elem {
                mir::ProjectionElem::Deref => J::s("*"),
                mir::ProjectionElem::Field(f, _) => {
                    let mut o = J::obj().with("f", J::u(f.as_usize()));
                    // field name when the base is an ADT
                    if let ty::Adt(adt, _) = pty.ty.kind() {
                        let vi = pty.variant_index.unwrap_or(rustc_abi::FIRST_VARIANT);
                        if vi.as_usize() < adt.variants().len() {
                            let v = adt.variant(vi);
                            if f.as_usize() < v.fields.len() {
                                o.set("n", J::s(v.fields[f].name.to_string()));
                            }
                        }
                    }
                    o
                }
                mir::ProjectionElem::Index(l) => J::obj().with("i", J::u(l.as_usize())),
                mir::ProjectionElem::ConstantIndex { offset, min_length, from_end } => J::obj()
                    .with("ci", J::u(offset as usize))
                    .with("min", J::u(min_length as usize))
                    .with("fe", J::Bool(from_end)),
                mir::ProjectionElem::Subslice { from, to, from_end } => J::obj()
                    .with("sub", J::Arr(vec![J::u(from as usize), J::u(to as usize)]))
                    .with("fe", J::Bool(from_end)),
                mir::ProjectionElem::Downcast(name, vi) => J::obj()
                    .with("dc", J::u(vi.as_usize()))
                    .with("n", J::opt_s(name.map(|s| s.to_string()))),
                mir::ProjectionElem::OpaqueCast(_) => J::s("opaque"),
                mir::ProjectionElem::UnwrapUnsafeBinder(_) => J::s("unwrapbinder"),
            };
            proj.push(e);
            pty = pty.projection_ty(self.tcx, elem);
        }
        J::obj().with("l", J::u(p.local.as_usize())).with("p", J::Arr(proj))
    }

    fn constant(&self, c: &mir::ConstOperand<'tcx>) -> J {
        let t = c.const_.ty();
        let mut o = J::obj().with("ty", J::s(ty_s(t)));
        if let ty::FnDef(d, args) = t.kind() {
            o.set("fn", J::s(defp(self.tcx, *d)));
            o.set("args", J::s(format!("{:?}", args)));
            return o;
        }
        if c.const_.has_non_region_param() {
            o.set("generic", J::Bool(true));
            o.set("s", J::s(format!("{}", c.const_)));
            return o;
        }
        match c.const_.eval(self.tcx, self.env, c.span) {
            Ok(v) => {
                o.set("v", const_value_json(self.tcx, v, t));
            }
            Err(_) => {
                o.set("s", J::s(format!("{}", c.const_)));
            }
        }
        if let mir::Const::Unevaluated(u, _) = c.const_ {
            o.set("from", J::s(defp(self.tcx, u.def)));
            if let Some(pi) = u.promoted {
                o.set("promoted", J::Bool(true));
                o.set("pidx", J::u(pi.as_usize()));
            }
        }
        o
    }

    fn operand(&self, op: &mir::Operand<'tcx>) -> J {
        match op {
            mir::Operand::Copy(p) => J::obj().with("c", self.place(p)),
            mir::Operand::Move(p) => J::obj().with("m", self.place(p)),
            mir::Operand::Constant(c) => J::obj().with("k", self.constant(c)),
            other => J::obj().with("rt", J::s(format!("{:?}", other))),
        }
    }

    fn rvalue(&self, r: &mir::Rvalue<'tcx>) -> J {
        match r {
            mir::Rvalue::Use(op, _) => J::obj().with("k", J::s("use")).with("op", self.operand(op)),
            mir::Rvalue::Repeat(op, n) => J::obj()
                .with("k", J::s("repeat"))
                .with("op", self.operand(op))
                .with(
                    "n",
                    match n.try_to_target_usize(self.tcx) {
                        Some(n) => J::Int(n as i128),
                        None => J::Null,
                    },
                ),
            mir::Rvalue::Ref(_, bk, p) => J::obj()
                .with("k", J::s("ref"))
                .with("mut", J::Bool(matches!(bk, mir::BorrowKind::Mut { .. })))
                .with("place", self.place(p)),
            mir::Rvalue::ThreadLocalRef(d) => {
                J::obj().with("k", J::s("tlsref")).with("def", J::s(defp(self.tcx, *d)))
            }
            mir::Rvalue::RawPtr(k, p) => J::obj()
                .with("k", J::s("rawptr"))
                .with("mut", J::Bool(matches!(k, mir::RawPtrKind::Mut)))
                .with("place", self.place(p)),
            mir::Rvalue::Cast(ck, op, t) => {
                let cks = match ck {
                    mir::CastKind::PointerCoercion(pc, _) => format!("PointerCoercion({:?})", pc),
                    other => format!("{:?}", other),
                };
                J::obj()
                    .with("k", J::s("cast"))
                    .with("ck", J::s(cks))
                    .with("op", self.operand(op))
                    .with("from", J::s(ty_s(op.ty(self.body, self.tcx))))
                    .with("ty", J::s(ty_s(*t)))
            }
            mir::Rvalue::BinaryOp(op, box (a, b)) => J::obj()
                .with("k", J::s("binop"))
                .with("op", J::s(format!("{:?}", op)))
                .with("l", self.operand(a))
                .with("r", self.operand(b)),
            mir::Rvalue::UnaryOp(op, a) => J::obj()
                .with("k", J::s("unop"))
                .with("op", J::s(format!("{:?}", op)))
                .with("a", self.operand(a)),
            mir::Rvalue::Discriminant(p) => {
                J::obj().with("k", J::s("discr")).with("place", self.place(p))
            }
            mir::Rvalue::Aggregate(box ak, ops) => {
                let mut o = J::obj().with("k", J::s("agg"));
                match ak {
                    mir::AggregateKind::Array(t) => {
                        o.set("ak", J::s("array"));
                        o.set("ety", J::s(ty_s(*t)));
                    }
                    mir::AggregateKind::Tuple => {
                        o.set("ak", J::s("tuple"));
                    }
                    mir::AggregateKind::Adt(d, vi, _, _, active) => {
                        o.set("ak", J::s("adt"));
                        o.set("adt", J::s(defp(self.tcx, *d)));
                        o.set("variant", J::u(vi.as_usize()));
                        let adt = self.tcx.adt_def(*d);
                        let v = adt.variant(*vi);
                        o.set("vname", J::s(v.name.to_string()));
                        if adt.is_enum() {
                            let dv = adt.discriminant_for_variant(self.tcx, *vi).val;
                            o.set("discr", J::Int(dv as i128));
                        }
                        let names: Vec<J> = match active {
                            Some(f) => vec![J::s(v.fields[*f].name.to_string())],
                            None => v.fields.iter().map(|f| J::s(f.name.to_string())).collect(),
                        };
                        o.set("fields", J::Arr(names));
                    }
                    mir::AggregateKind::Closure(d, _) => {
                        o.set("ak", J::s("closure"));
                        o.set("def", J::s(defp(self.tcx, *d)));
                    }
                    mir::AggregateKind::Coroutine(d, _)
                    | mir::AggregateKind::CoroutineClosure(d, _) => {
                        o.set("ak", J::s("coroutine"));
                        o.set("def", J::s(defp(self.tcx, *d)));
                    }
                    mir::AggregateKind::RawPtr(t, _) => {
                        o.set("ak", J::s("rawptr"));
                        o.set("ety", J::s(ty_s(*t)));
                    }
                }
                o.set("ops", J::Arr(ops.iter().map(|x| self.operand(x)).collect()));
                o
            }
            mir::Rvalue::CopyForDeref(p) => {
                J::obj().with("k", J::s("use")).with("op", J::obj().with("c", self.place(p)))
            }
            mir::Rvalue::WrapUnsafeBinder(op, _) => {
                J::obj().with("k", J::s("use")).with("op", self.operand(op))
            }
        }
    }

    fn src(&self, span: Span) -> (J, J) {
        let (_, line, macros) = span_info(self.tcx, span);
        let m = if macros.is_empty() {
            J::Null
        } else {
            J::Arr(macros.into_iter().map(J::Str).collect())
        };
        (J::Int(line), m)
    }

    fn stmt(&self, s: &mir::Statement<'tcx>) -> Option<J> {
        let (line, exp) = self.src(s.source_info.span);
        let mut o = match &s.kind {
            mir::StatementKind::Assign(box (p, r)) => J::obj()
                .with("k", J::s("assign"))
                .with("p", self.place(p))
                .with("r", self.rvalue(r)),
            mir::StatementKind::SetDiscriminant { place, variant_index } => J::obj()
                .with("k", J::s("setdiscr"))
                .with("p", self.place(place))
                .with("variant", J::u(variant_index.as_usize())),
            mir::StatementKind::Intrinsic(i) => {
                J::obj().with("k", J::s("intrinsic")).with("s", J::s(format!("{:?}", i)))
            }
            _ => return None,
        };
        o.set("line", line);
        if !matches!(exp, J::Null) {
            o.set("exp", exp);
        }
        Some(o)
    }

    fn callee_json(&self, func: &mir::Operand<'tcx>) -> J {
        let fty = func.ty(self.body, self.tcx);
        let mut o = J::obj();
        match fty.kind() {
            ty::FnDef(d, args) => {
                o.set("def", J::s(defp(self.tcx, *d)));
                o.set("args", J::s(format!("{:?}", args)));
                o.set("local", J::Bool(d.is_local()));
                if let Some(tr) = self.tcx.trait_of_assoc(*d) {
                    o.set("trait", J::s(defp(self.tcx, tr)));
                }
                let args2 = self.tcx.erase_and_anonymize_regions(*args);
                if let Ok(Some(inst)) = Instance::try_resolve(self.tcx, self.env, *d, args2) {
                    o.set("resolved", J::s(defp(self.tcx, inst.def_id())));
                    o.set("rkind", J::s(instance_kind_name(&inst.def)));
                    o.set("rlocal", J::Bool(inst.def_id().is_local()));
                    o.set("inst", J::s(format!("{}", inst)));
                }
            }
            ty::FnPtr(..) => {
                o.set("indirect", J::s(ty_s(fty)));
                o.set("op", self.operand(func));
            }
            _ => {
                o.set("other", J::s(ty_s(fty)));
            }
        }
        o
    }

    fn term(&self, t: &mir::Terminator<'tcx>) -> J {
        let (line, exp) = self.src(t.source_info.span);
        let bb = |b: mir::BasicBlock| J::u(b.as_usize());
        let unwind = |u: &mir::UnwindAction| match u {
            mir::UnwindAction::Cleanup(b) => J::u(b.as_usize()),
            _ => J::Null,
        };
        let mut o = match &t.kind {
            mir::TerminatorKind::Goto { target } => {
                J::obj().with("k", J::s("goto")).with("t", bb(*target))
            }
            mir::TerminatorKind::SwitchInt { discr, targets } => {
                let dty = discr.ty(self.body, self.tcx);
                let mut ts = Vec::new();
                for (v, b) in targets.iter() {
                    ts.push(J::Arr(vec![
                        if v > i128::MAX as u128 { J::Str(format!("{}", v)) } else { J::Int(v as i128) },
                        bb(b),
                    ]));
                }
                J::obj()
                    .with("k", J::s("switch"))
                    .with("d", self.operand(discr))
                    .with("dty", J::s(ty_s(dty)))
                    .with("targets", J::Arr(ts))
                    .with("otherwise", bb(targets.otherwise()))
            }
            mir::TerminatorKind::UnwindResume => J::obj().with("k", J::s("resume")),
            mir::TerminatorKind::UnwindTerminate(_) => J::obj().with("k", J::s("terminate")),
            mir::TerminatorKind::Return => J::obj().with("k", J::s("return")),
            mir::TerminatorKind::Unreachable => J::obj().with("k", J::s("unreachable")),
            mir::TerminatorKind::Drop { place, target, unwind: u, .. } => J::obj()
                .with("k", J::s("drop"))
                .with("place", self.place(place))
                .with("pty", J::s(ty_s(place.ty(self.body, self.tcx).ty)))
                .with("t", bb(*target))
                .with("unwind", unwind(u)),
            mir::TerminatorKind::Call { func, args, destination, target, unwind: u, .. } => {
                J::obj()
                    .with("k", J::s("call"))
                    .with("callee", self.callee_json(func))
                    .with("args", J::Arr(args.iter().map(|a| self.operand(&a.node)).collect()))
                    .with("dest", self.place(destination))
                    .with("t", target.map(bb).unwrap_or(J::Null))
                    .with("unwind", unwind(u))
            }
            mir::TerminatorKind::TailCall { func, args, .. } => J::obj()
                .with("k", J::s("tailcall"))
                .with("callee", self.callee_json(func))
                .with("args", J::Arr(args.iter().map(|a| self.operand(&a.node)).collect())),
            mir::TerminatorKind::Assert { cond, expected, msg, target, unwind: u } => {
                let (kind, ops): (&str, Vec<J>) = match &**msg {
                    mir::AssertKind::BoundsCheck { len, index } => {
                        ("BoundsCheck", vec![self.operand(len), self.operand(index)])
                    }
                    mir::AssertKind::Overflow(op, a, b) => (
                        "Overflow",
                        vec![J::s(format!("{:?}", op)), self.operand(a), self.operand(b)],
                    ),
                    mir::AssertKind::OverflowNeg(a) => ("OverflowNeg", vec![self.operand(a)]),
                    mir::AssertKind::DivisionByZero(a) => ("DivisionByZero", vec![self.operand(a)]),
                    mir::AssertKind::RemainderByZero(a) => {
                        ("RemainderByZero", vec![self.operand(a)])
                    }
                    mir::AssertKind::MisalignedPointerDereference { .. } => ("Misaligned", vec![]),
                    mir::AssertKind::NullPointerDereference => ("NullDeref", vec![]),
                    mir::AssertKind::InvalidEnumConstruction(_) => ("InvalidEnum", vec![]),
                    _ => ("Other", vec![]),
                };
                J::obj()
                    .with("k", J::s("assert"))
                    .with("cond", self.operand(cond))
                    .with("expected", J::Bool(*expected))
                    .with("msg", J::s(kind))
                    .with("ops", J::Arr(ops))
                    .with("t", bb(*target))
                    .with("unwind", unwind(u))
            }
            mir::TerminatorKind::FalseEdge { real_target, .. } => {
                J::obj().with("k", J::s("goto")).with("t", bb(*real_target))
            }
            mir::TerminatorKind::FalseUnwind { real_target, .. } => {
                J::obj().with("k", J::s("goto")).with("t", bb(*real_target))
            }
            mir::TerminatorKind::InlineAsm { .. } => J::obj().with("k", J::s("asm")),
            other => J::obj().with("k", J::s("other")).with("s", J::s(format!("{:?}", other))),
        };
        o.set("line", line);
        if !matches!(exp, J::Null) {
            o.set("exp", exp);
        }
        o
    }
}

fn instance_kind_name(k: &InstanceKind<'_>) -> &'static str {
    match k {
        InstanceKind::Item(_) => "item",
        InstanceKind::Intrinsic(_) => "intrinsic",
        InstanceKind::VTableShim(_) => "vtableshim",
        InstanceKind::ReifyShim(..) => "reifyshim",
        InstanceKind::FnPtrShim(..) => "fnptrshim",
        InstanceKind::Virtual(..) => "virtual",
        InstanceKind::ClosureOnceShim { .. } => "closureonceshim",
        InstanceKind::DropGlue(..) => "dropglue",
        InstanceKind::CloneShim(..) => "cloneshim",
        InstanceKind::ThreadLocalShim(..) => "tlsshim",
        InstanceKind::FnPtrAddrShim(..) => "fnptraddrshim",
        _ => "othershim",
    }
}

fn body_json<'tcx>(tcx: TyCtxt<'tcx>, def: LocalDefId, body: &mir::Body<'tcx>) -> J {
    let env = TypingEnv::post_analysis(tcx, def.to_def_id());
    let cx = BodyCx { tcx, body, env };
    let mut names: HashMap<usize, String> = HashMap::new();
    for vdi in body.var_debug_info.iter() {
        if let mir::VarDebugInfoContents::Place(p) = &vdi.value {
            if p.projection.is_empty() {
                names.entry(p.local.as_usize()).or_insert(vdi.name.to_string());
            }
        }
    }
    let locals: Vec<J> = body
        .local_decls
        .iter_enumerated()
        .map(|(l, d)| {
            let mut o = J::obj().with("ty", J::s(ty_s(d.ty)));
            if let Some(n) = names.get(&l.as_usize()) {
                o.set("name", J::s(n.clone()));
            }
            if d.mutability.is_mut() {
                o.set("mut", J::Bool(true));
            }
            o
        })
        .collect();
    let mut captures = Vec::new();
    for vdi in body.var_debug_info.iter() {
        if let mir::VarDebugInfoContents::Place(p) = &vdi.value {
            if !p.projection.is_empty() {
                captures.push(
                    J::obj().with("name", J::s(vdi.name.to_string())).with("place", cx.place(p)),
                );
            }
        }
    }
    let blocks: Vec<J> = body
        .basic_blocks
        .iter()
        .map(|bd| {
            let stmts: Vec<J> = bd.statements.iter().filter_map(|s| cx.stmt(s)).collect();
            let mut o = J::obj().with("s", J::Arr(stmts)).with("t", cx.term(bd.terminator()));
            if bd.is_cleanup {
                o.set("cleanup", J::Bool(true));
            }
            o
        })
        .collect();
    let (file, line, _) = span_info(tcx, body.span);
    J::obj()
        .with("file", J::s(file))
        .with("line", J::Int(line))
        .with("argc", J::u(body.arg_count))
        .with("locals", J::Arr(locals))
        .with("captures", J::Arr(captures))
        .with("blocks", J::Arr(blocks))
}

// ---------------------------------------------------------------------------------------------
// monomorphic call graph

struct Mono<'tcx> {
    tcx: TyCtxt<'tcx>,
    ids: HashMap<Instance<'tcx>, usize>,
    list: Vec<Instance<'tcx>>,
    out: Vec<J>,
    unresolved: usize,
    ext_statics: BTreeMap<String, J>,
}

impl<'tcx> Mono<'tcx> {
    fn id(&mut self, i: Instance<'tcx>) -> usize {
        if let Some(&n) = self.ids.get(&i) {
            return n;
        }
        let n = self.list.len();
        self.ids.insert(i, n);
        self.list.push(i);
        n
    }

    fn has_body(&self, i: &Instance<'tcx>) -> bool {
        let tcx = self.tcx;
        match i.def {
            InstanceKind::Item(d) => {
                if tcx.is_foreign_item(d) {
                    return false;
                }
                if tcx.intrinsic(d).is_some() {
                    return false;
                }
                match tcx.def_kind(d) {
                    DefKind::Fn | DefKind::AssocFn | DefKind::Closure | DefKind::Ctor(..) => {}
                    _ => return false,
                }
                tcx.is_mir_available(d)
            }
            InstanceKind::Intrinsic(_) | InstanceKind::Virtual(..) => false,
            InstanceKind::DropGlue(_, None) => false,
            _ => true,
        }
    }

    fn collect_alloc(&mut self, id: AllocId, statics: &mut BTreeSet<String>, fns: &mut Vec<usize>, seen: &mut BTreeSet<AllocId>) {
        if !seen.insert(id) {
            return;
        }
        let tcx = self.tcx;
        match tcx.global_alloc(id) {
            GlobalAlloc::Static(d) => {
                statics.insert(defp(tcx, d));
                if !self.ext_statics.contains_key(&defp(tcx, d)) {
                    let t = tcx.type_of(d).instantiate_identity().skip_norm_wip();
                    let mutable = matches!(tcx.def_kind(d), DefKind::Static { mutability, .. } if mutability.is_mut());
                    let o = J::obj()
                        .with("ty", J::s(ty_s(t)))
                        .with("mut", J::Bool(mutable))
                        .with("foreign", J::Bool(tcx.is_foreign_item(d)))
                        .with("thread_local", J::Bool(tcx.is_thread_local_static(d)))
                        .with("freeze", J::Bool(t.is_freeze(tcx, TypingEnv::fully_monomorphized())))
                        .with("crate", J::s(tcx.crate_name(d.krate).to_string()));
                    self.ext_statics.insert(defp(tcx, d), o);
                }
                if !tcx.is_foreign_item(d) {
                    if let Ok(a) = tcx.eval_static_initializer(d) {
                        let ptrs: Vec<AllocId> =
                            a.inner().provenance().ptrs().values().map(|p| p.alloc_id()).collect();
                        for p in ptrs {
                            self.collect_alloc(p, statics, fns, seen);
                        }
                    }
                }
            }
            GlobalAlloc::Memory(a) => {
                let ptrs: Vec<AllocId> =
                    a.inner().provenance().ptrs().values().map(|p| p.alloc_id()).collect();
                for p in ptrs {
                    self.collect_alloc(p, statics, fns, seen);
                }
            }
            GlobalAlloc::Function { instance, .. } => {
                let n = self.id(instance);
                fns.push(n);
            }
            GlobalAlloc::VTable(t, dyn_ty) => {
                let aid = tcx.vtable_allocation((
                    t,
                    dyn_ty.principal().map(|p| tcx.instantiate_bound_regions_with_erased(p)),
                ));
                self.collect_alloc(aid, statics, fns, seen);
            }
            GlobalAlloc::TypeId { .. } => {}
        }
    }

    fn tails(&self, s: Ty<'tcx>, t: Ty<'tcx>, depth: usize) -> Option<(Ty<'tcx>, Ty<'tcx>)> {
        let tcx = self.tcx;
        let env = TypingEnv::fully_monomorphized();
        if depth > 6 {
            return None;
        }
        match (s.kind(), t.kind()) {
            (&ty::Ref(_, a, _), &ty::Ref(_, b, _))
            | (&ty::Ref(_, a, _), &ty::RawPtr(b, _))
            | (&ty::RawPtr(a, _), &ty::RawPtr(b, _)) => {
                Some(tcx.struct_lockstep_tails_for_codegen(a, b, env))
            }
            _ => {
                if let (Some(a), Some(b)) = (s.boxed_ty(), t.boxed_ty()) {
                    return Some(tcx.struct_lockstep_tails_for_codegen(a, b, env));
                }
                if let (&ty::Adt(sa, sargs), &ty::Adt(ta, targs)) = (s.kind(), t.kind()) {
                    if sa == ta && sa.is_struct() {
                        for f in sa.non_enum_variant().fields.iter() {
                            let fs = tcx.normalize_erasing_regions(
                                env,
                                ty::Unnormalized::new_wip(f.ty(tcx, sargs)),
                            );
                            let ft = tcx.normalize_erasing_regions(
                                env,
                                ty::Unnormalized::new_wip(f.ty(tcx, targs)),
                            );
                            if fs != ft {
                                return self.tails(fs, ft, depth + 1);
                            }
                        }
                    }
                }
                None
            }
        }
    }

    fn walk(&mut self, n: usize) {
        let tcx = self.tcx;
        let inst = self.list[n];
        let env = TypingEnv::fully_monomorphized();
        let def = inst.def_id();
        let mut o = J::obj()
            .with("id", J::u(n))
            .with("name", J::s(format!("{}", inst)))
            .with("def", J::s(defp(tcx, def)))
            .with("kind", J::s(instance_kind_name(&inst.def)))
            .with("local", J::Bool(def.is_local()))
            .with("crate", J::s(tcx.crate_name(def.krate).to_string()));
        if let InstanceKind::Item(d) = inst.def {
            if tcx.is_foreign_item(d) {
                o.set("foreign", J::Bool(true));
            }
        }
        if let InstanceKind::Virtual(d, _) = inst.def {
            if let Some(tr) = tcx.trait_of_assoc(d) {
                o.set("trait", J::s(defp(tcx, tr)));
            }
        }
        if !self.has_body(&inst) {
            o.set("has_mir", J::Bool(false));
            self.out.push(o);
            return;
        }
        o.set("has_mir", J::Bool(true));
        let body = tcx.instance_mir(inst.def);
        let mut calls = Vec::new();
        let mut edges: BTreeSet<usize> = BTreeSet::new();
        let mut statics: BTreeSet<String> = BTreeSet::new();
        let mut flags: BTreeMap<&'static str, i128> = BTreeMap::new();
        let mut seen_alloc = BTreeSet::new();
        let mono = |v: Ty<'tcx>| -> Option<Ty<'tcx>> {
            inst.try_instantiate_mir_and_normalize_erasing_regions(tcx, env, EarlyBinder::bind(v)).ok()
        };
        for (bbi, bd) in body.basic_blocks.iter_enumerated() {
            for st in bd.statements.iter() {
                if let mir::StatementKind::Assign(box (_, rv)) = &st.kind {
                    match rv {
                        mir::Rvalue::Cast(
                            mir::CastKind::PointerCoercion(PointerCoercion::Unsize, _),
                            op,
                            tt,
                        ) => {
                            let st_ = op.ty(body, tcx);
                            if let (Some(s), Some(t)) = (mono(st_), mono(*tt)) {
                                if let Some((s, t)) = self.tails(s, t, 0) {
                                    if t.is_trait() && !s.is_trait() {
                                        if let ty::Dynamic(preds, ..) = t.kind() {
                                            if let Some(principal) = preds.principal() {
                                                let tr = tcx.instantiate_bound_regions_with_erased(
                                                    principal.with_self_ty(tcx, s),
                                                );
                                                for e in tcx.vtable_entries(tr) {
                                                    if let VtblEntry::Method(mi) = e {
                                                        let id = self.id(*mi);
                                                        edges.insert(id);
                                                    }
                                                }
                                            }
                                        }
                                        if s.needs_drop(tcx, env) {
                                            let di = Instance::resolve_drop_in_place(tcx, s);
                                            let id = self.id(di);
                                            edges.insert(id);
                                        }
                                    }
                                }
                            }
                        }
                        mir::Rvalue::Cast(
                            mir::CastKind::PointerCoercion(PointerCoercion::ReifyFnPointer(_), _),
                            op,
                            _,
                        ) => {
                            if let Some(ft) = mono(op.ty(body, tcx)) {
                                if let ty::FnDef(d, a) = *ft.kind() {
                                    if let Some(i) = Instance::resolve_for_fn_ptr(tcx, env, d, a) {
                                        let id = self.id(i);
                                        edges.insert(id);
                                    }
                                }
                            }
                        }
                        mir::Rvalue::Cast(
                            mir::CastKind::PointerCoercion(PointerCoercion::ClosureFnPointer(_), _),
                            op,
                            _,
                        ) => {
                            if let Some(ct) = mono(op.ty(body, tcx)) {
                                if let ty::Closure(d, a) = *ct.kind() {
                                    let i = Instance::resolve_closure(tcx, d, a, ty::ClosureKind::FnOnce);
                                    let id = self.id(i);
                                    edges.insert(id);
                                }
                            }
                        }
                        mir::Rvalue::Cast(mir::CastKind::PointerExposeProvenance, ..) => {
                            *flags.entry("ptr_to_int").or_insert(0) += 1;
                        }
                        mir::Rvalue::Cast(mir::CastKind::Transmute, op, tt) => {
                            // pointer -> integer through transmute
                            let from = op.ty(body, tcx);
                            if (from.is_raw_ptr() || from.is_ref() || from.is_fn_ptr()) && tt.is_integral() {
                                *flags.entry("ptr_to_int").or_insert(0) += 1;
                            }
                            *flags.entry("transmute").or_insert(0) += 1;
                        }
                        mir::Rvalue::ThreadLocalRef(d) => {
                            statics.insert(format!("thread_local:{}", defp(tcx, *d)));
                        }
                        _ => {}
                    }
                    // constants inside the rvalue
                    self.rvalue_consts(&inst, body, rv, &mut statics, &mut edges, &mut seen_alloc);
                }
            }
            let term = bd.terminator();
            match &term.kind {
                mir::TerminatorKind::Call { func, args, .. }
                | mir::TerminatorKind::TailCall { func, args, .. } => {
                    for a in args.iter() {
                        self.operand_consts(&inst, &a.node, &mut statics, &mut edges, &mut seen_alloc);
                    }
                    let fty = func.ty(body, tcx);
                    match mono(fty) {
                        Some(ft) => match *ft.kind() {
                            ty::FnDef(d, a) => match Instance::try_resolve(tcx, env, d, a) {
                                Ok(Some(ci)) => {
                                    let id = self.id(ci);
                                    calls.push(J::Arr(vec![J::u(bbi.as_usize()), J::u(id)]));
                                }
                                _ => {
                                    self.unresolved += 1;
                                    calls.push(J::Arr(vec![
                                        J::u(bbi.as_usize()),
                                        J::s(format!("unresolved:{}", defp(tcx, d))),
                                    ]));
                                }
                            },
                            ty::FnPtr(..) => {
                                calls.push(J::Arr(vec![J::u(bbi.as_usize()), J::s("indirect")]));
                                self.operand_consts(&inst, func, &mut statics, &mut edges, &mut seen_alloc);
                            }
                            _ => {
                                calls.push(J::Arr(vec![J::u(bbi.as_usize()), J::s("other")]));
                            }
                        },
                        None => {
                            self.unresolved += 1;
                            calls.push(J::Arr(vec![J::u(bbi.as_usize()), J::s("unresolved:normalize")]));
                        }
                    }
                }
                mir::TerminatorKind::Drop { place, .. } => {
                    let pt = place.ty(body, tcx).ty;
                    if let Some(t) = mono(pt) {
                        let di = Instance::resolve_drop_in_place(tcx, t);
                        if !matches!(di.def, InstanceKind::DropGlue(_, None)) {
                            let id = self.id(di);
                            calls.push(J::Arr(vec![J::u(bbi.as_usize()), J::u(id)]));
                        }
                    }
                }
                mir::TerminatorKind::SwitchInt { discr, .. } => {
                    self.operand_consts(&inst, discr, &mut statics, &mut edges, &mut seen_alloc);
                }
                mir::TerminatorKind::Assert { msg, .. } => {
                    let li = match &**msg {
                        mir::AssertKind::BoundsCheck { .. } => LangItem::PanicBoundsCheck,
                        mir::AssertKind::MisalignedPointerDereference { .. } => {
                            LangItem::PanicMisalignedPointerDereference
                        }
                        mir::AssertKind::NullPointerDereference => LangItem::PanicNullPointerDereference,
                        mir::AssertKind::InvalidEnumConstruction(_) => LangItem::PanicInvalidEnumConstruction,
                        other => other.panic_function(),
                    };
                    if let Some(d) = tcx.lang_items().get(li) {
                        let pi = Instance::mono(tcx, d);
                        let id = self.id(pi);
                        calls.push(J::Arr(vec![J::u(bbi.as_usize()), J::u(id)]));
                    }
                }
                mir::TerminatorKind::InlineAsm { .. } => {
                    *flags.entry("asm").or_insert(0) += 1;
                }
                _ => {}
            }
        }
        o.set("calls", J::Arr(calls));
        o.set("edges", J::Arr(edges.into_iter().map(J::u).collect()));
        o.set("statics", J::Arr(statics.into_iter().map(J::Str).collect()));
        let mut fo = J::obj();
        for (k, v) in flags {
            fo.set(k, J::Int(v));
        }
        o.set("flags", fo);
        self.out.push(o);
    }

    fn rvalue_consts(
        &mut self,
        inst: &Instance<'tcx>,
        _body: &mir::Body<'tcx>,
        rv: &mir::Rvalue<'tcx>,
        statics: &mut BTreeSet<String>,
        edges: &mut BTreeSet<usize>,
        seen: &mut BTreeSet<AllocId>,
    ) {
        let mut ops: Vec<&mir::Operand<'tcx>> = Vec::new();
        match rv {
            mir::Rvalue::Use(op, _)
            | mir::Rvalue::Repeat(op, _)
            | mir::Rvalue::Cast(_, op, _)
            | mir::Rvalue::UnaryOp(_, op)
            | mir::Rvalue::WrapUnsafeBinder(op, _) => ops.push(op),
            mir::Rvalue::BinaryOp(_, box (a, b)) => {
                ops.push(a);
                ops.push(b);
            }
            mir::Rvalue::Aggregate(_, fields) => {
                for f in fields.iter() {
                    ops.push(f);
                }
            }
            _ => {}
        }
        for op in ops {
            self.operand_consts(inst, op, statics, edges, seen);
        }
    }

    fn operand_consts(
        &mut self,
        inst: &Instance<'tcx>,
        op: &mir::Operand<'tcx>,
        statics: &mut BTreeSet<String>,
        edges: &mut BTreeSet<usize>,
        seen: &mut BTreeSet<AllocId>,
    ) {
        let tcx = self.tcx;
        let env = TypingEnv::fully_monomorphized();
        if let mir::Operand::Constant(c) = op {
            let t = c.const_.ty();
            if t.is_primitive() || matches!(t.kind(), ty::FnDef(..)) {
                return;
            }
            let Ok(k) = inst.try_instantiate_mir_and_normalize_erasing_regions(
                tcx,
                env,
                EarlyBinder::bind(c.const_),
            ) else {
                return;
            };
            if k.has_non_region_param() {
                return;
            }
            let v = match k.eval(tcx, env, c.span) {
                Ok(v) => v,
                Err(_) => return,
            };
            let aid = match v {
                ConstValue::Scalar(Scalar::Ptr(p, _)) => Some(p.provenance.alloc_id()),
                ConstValue::Indirect { alloc_id, .. } | ConstValue::Slice { alloc_id, .. } => {
                    Some(alloc_id)
                }
                _ => None,
            };
            if let Some(a) = aid {
                let mut fns = Vec::new();
                self.collect_alloc(a, statics, &mut fns, seen);
                for f in fns {
                    edges.insert(f);
                }
            }
        }
    }
}

// ---------------------------------------------------------------------------------------------

fn extract<'tcx>(tcx: TyCtxt<'tcx>, crate_name: &str, is_bin: bool) -> J {
    let mut doc = J::obj()
        .with("crate", J::s(crate_name))
        .with("bin", J::Bool(is_bin))
        .with("debug_assertions", J::Bool(tcx.sess.opts.debug_assertions))
        .with("overflow_checks", J::Bool(tcx.sess.overflow_checks()))
        .with("panic_strategy", J::s(format!("{:?}", tcx.sess.panic_strategy())))
        .with("rustc", J::s(rustc_interface::util::rustc_version_str().unwrap_or("?")));

    // ---- bodies
    let mut bodies = J::obj();
    let mut const_bodies = J::obj();
    let mut roots: Vec<Instance<'tcx>> = Vec::new();
    let mut nbodies = 0usize;
    for def in tcx.hir_body_owners() {
        let did = def.to_def_id();
        let kind = tcx.def_kind(did);
        let kname = match kind {
            DefKind::Fn => "fn",
            DefKind::AssocFn => "assocfn",
            DefKind::Closure => "closure",
            DefKind::Const { .. } | DefKind::AssocConst { .. } | DefKind::Static { .. } => "const",
            _ => continue,
        };
        if kname == "const" {
            // initializer bodies of consts/statics: only their aggregates matter (field-bound inference)
            if tcx.generics_of(did).requires_monomorphization(tcx) {
                continue;
            }
            let body = tcx.mir_for_ctfe(did);
            let mut b = body_json(tcx, def, body);
            b.set("kind", J::s("const"));
            b.set("generic", J::Bool(false));
            b.set("exp", J::Arr(vec![]));
            const_bodies.set(&defp(tcx, did), b);
            continue;
        }
        let body = tcx.optimized_mir(did);
        let mut b = body_json(tcx, def, body);
        b.set("kind", J::s(kname));
        {
            let proms = tcx.promoted_mir(did);
            let mut pj = Vec::new();
            for pb in proms.iter() {
                pj.push(body_json(tcx, def, pb));
            }
            b.set("promoted", J::Arr(pj));
        }
        {
            let (_, _, m) = span_info(tcx, tcx.def_span(did));
            b.set("exp", J::Arr(m.into_iter().map(J::Str).collect()));
        }
        let generics = tcx.generics_of(did);
        let requires_mono = generics.requires_monomorphization(tcx);
        b.set("generic", J::Bool(requires_mono));
        if matches!(kind, DefKind::Fn | DefKind::AssocFn) {
            let sig = tcx.fn_sig(did).instantiate_identity().skip_norm_wip();
            b.set("sig", J::s(format!("{}", sig)));
            b.set("abi", J::s(format!("{:?}", sig.abi())));
            b.set("unsafe", J::Bool(!sig.safety().is_safe()));
            b.set("vis", J::s(format!("{:?}", tcx.visibility(did))));
            let attrs = tcx.codegen_fn_attrs(did);
            b.set(
                "no_mangle",
                J::Bool(attrs.flags.contains(rustc_middle::middle::codegen_fn_attrs::CodegenFnAttrFlags::NO_MANGLE)),
            );
            if let Some(tr) = tcx.trait_of_assoc(did) {
                b.set("trait", J::s(defp(tcx, tr)));
            }
            if let Some(imp) = tcx.impl_of_assoc(did) {
                if tcx.impl_is_of_trait(imp) {
                    let tr = tcx.impl_trait_ref(imp).instantiate_identity().skip_norm_wip();
                    b.set("impl_trait", J::s(defp(tcx, tr.def_id)));
                    b.set("impl_self", J::s(ty_s(tr.self_ty())));
                } else {
                    b.set("impl_self", J::s(ty_s(tcx.type_of(imp).instantiate_identity().skip_norm_wip())));
                }
            }
            if !requires_mono {
                roots.push(Instance::mono(tcx, did));
            }
        }
        bodies.set(&defp(tcx, did), b);
        nbodies += 1;
    }
    doc.set("nbodies", J::u(nbodies));
    doc.set("bodies", bodies);
    doc.set("const_bodies", const_bodies);

    // ---- items: statics, consts, adts
    let mut statics = J::obj();
    let mut consts = J::obj();
    let mut adts = J::obj();
    let env0 = TypingEnv::fully_monomorphized();
    for id in tcx.hir_crate_items(()).definitions() {
        let did = id.to_def_id();
        match tcx.def_kind(did) {
            DefKind::Static { mutability, nested, .. } => {
                let t = tcx.type_of(did).instantiate_identity().skip_norm_wip();
                let mut o = J::obj()
                    .with("ty", J::s(ty_s(t)))
                    .with("mut", J::Bool(mutability.is_mut()))
                    .with("nested", J::Bool(nested))
                    .with("thread_local", J::Bool(tcx.is_thread_local_static(did)))
                    .with("freeze", J::Bool(t.is_freeze(tcx, env0)));
                if let Ok(a) = tcx.eval_static_initializer(did) {
                    let a = a.inner();
                    let len = a.len();
                    if a.provenance().ptrs().is_empty() {
                        o.set("bytes", J::s(hex(a.inspect_with_uninit_and_ptr_outside_interpreter(0..len))));
                    }
                    o.set("len", J::u(len));
                }
                let (f, l, _) = span_info(tcx, tcx.def_span(did));
                o.set("file", J::s(f));
                o.set("line", J::Int(l));
                statics.set(&defp(tcx, did), o);
            }
            DefKind::Const { .. } | DefKind::AssocConst { .. } => {
                if tcx.generics_of(did).requires_monomorphization(tcx) {
                    continue;
                }
                let t = tcx.type_of(did).instantiate_identity().skip_norm_wip();
                if t.has_non_region_param() {
                    continue;
                }
                let mut o = J::obj().with("ty", J::s(ty_s(t)));
                if let Ok(v) = tcx.const_eval_poly(did) {
                    o.set("v", const_value_json(tcx, v, t));
                }
                let (f, l, _) = span_info(tcx, tcx.def_span(did));
                o.set("file", J::s(f));
                o.set("line", J::Int(l));
                consts.set(&defp(tcx, did), o);
            }
            DefKind::Struct | DefKind::Enum | DefKind::Union => {
                let adt = tcx.adt_def(did);
                let mut vs = Vec::new();
                for (vi, v) in adt.variants().iter_enumerated() {
                    let mut vo = J::obj().with("name", J::s(v.name.to_string()));
                    if adt.is_enum() {
                        vo.set("discr", J::Int(adt.discriminant_for_variant(tcx, vi).val as i128));
                    }
                    let fs: Vec<J> = v
                        .fields
                        .iter()
                        .map(|f| {
                            J::obj().with("name", J::s(f.name.to_string())).with(
                                "ty",
                                J::s(ty_s(tcx.type_of(f.did).instantiate_identity().skip_norm_wip())),
                            )
                        })
                        .collect();
                    vo.set("fields", J::Arr(fs));
                    vs.push(vo);
                }
                let o = J::obj()
                    .with("kind", J::s(if adt.is_enum() { "enum" } else if adt.is_union() { "union" } else { "struct" }))
                    .with("repr", J::s(format!("{:?}", adt.repr())))
                    .with("variants", J::Arr(vs));
                adts.set(&defp(tcx, did), o);
            }
            _ => {}
        }
    }
    doc.set("statics", statics);
    doc.set("consts", consts);
    doc.set("adts", adts);

    // ---- unsafe blocks and unsafe impls (HIR)
    {
        use rustc_hir::intravisit::{self, Visitor};
        struct UV<'tcx> {
            tcx: TyCtxt<'tcx>,
            owner: String,
            out: Vec<J>,
        }
        impl<'tcx> Visitor<'tcx> for UV<'tcx> {
            fn visit_block(&mut self, b: &'tcx rustc_hir::Block<'tcx>) {
                if let rustc_hir::BlockCheckMode::UnsafeBlock(src) = b.rules {
                    let (f, l, m) = span_info(self.tcx, b.span);
                    self.out.push(
                        J::obj()
                            .with("owner", J::s(self.owner.clone()))
                            .with("file", J::s(f))
                            .with("line", J::Int(l))
                            .with("user", J::Bool(matches!(src, rustc_hir::UnsafeSource::UserProvided)))
                            .with("exp", J::Arr(m.into_iter().map(J::Str).collect())),
                    );
                }
                intravisit::walk_block(self, b);
            }
        }
        let mut uv = UV { tcx, owner: String::new(), out: Vec::new() };
        for def in tcx.hir_body_owners() {
            uv.owner = defp(tcx, def.to_def_id());
            let body = tcx.hir_body_owned_by(def);
            uv.visit_body(body);
        }
        doc.set("unsafe_blocks", J::Arr(uv.out));
        let mut uimpls = Vec::new();
        for id in tcx.hir_crate_items(()).definitions() {
            let did = id.to_def_id();
            if let DefKind::Impl { of_trait: true } = tcx.def_kind(did) {
                let tr = tcx.impl_trait_ref(did).instantiate_identity().skip_norm_wip();
                let hdr = tcx.impl_trait_header(did);
                let (f, l, m) = span_info(tcx, tcx.def_span(did));
                uimpls.push(
                    J::obj()
                        .with("trait", J::s(defp(tcx, tr.def_id)))
                        .with("self", J::s(ty_s(tr.self_ty())))
                        .with("unsafe", J::Bool(!hdr.safety.is_safe()))
                        .with("file", J::s(f))
                        .with("line", J::Int(l))
                        .with("exp", J::Arr(m.into_iter().map(J::Str).collect())),
                );
            }
        }
        doc.set("trait_impls", J::Arr(uimpls));
    }

    // ---- mono graph
    let mut mono = Mono { tcx, ids: HashMap::new(), list: Vec::new(), out: Vec::new(), unresolved: 0, ext_statics: BTreeMap::new() };
    let mut root_ids = Vec::new();
    for r in roots {
        let id = mono.id(r);
        root_ids.push(J::u(id));
    }
    let mut next = 0usize;
    while next < mono.list.len() {
        mono.walk(next);
        next += 1;
    }
    doc.set("mono_roots", J::Arr(root_ids));
    doc.set("mono_unresolved", J::u(mono.unresolved));
    doc.set("instances", J::Arr(mono.out));
    let mut es = J::obj();
    for (k, v) in mono.ext_statics {
        es.set(&k, v);
    }
    doc.set("reached_statics", es);
    doc
}
