"""ERR engine: how is the Result produced by a call consumed?"""
import re
from . import flow
from .facts import op_place, callee_def
from .common import strip_generics

PROPAGATE = "propagate"      # `?` (Try::branch) or returned as the function's own result
WRAP = "wrap"                # map_err / context / with_context / map / and_then -> classified recursively
MATCH = "match"              # inspected by a match / if let
FORBIDDEN = "forbidden"      # unwrap, expect, ok(), unwrap_or*, is_ok/is_err only, discarded

_FORBID = re.compile(r"::(unwrap|expect|unwrap_or|unwrap_or_default|unwrap_or_else|unwrap_unchecked|ok|err|is_ok|is_err|"
                     r"is_ok_and|is_err_and|unwrap_err|expect_err|iter|into_iter|map_or|map_or_else)$")
_WRAP = re.compile(r"::(map_err|map|and_then|or_else|context|with_context|inspect_err|inspect)$")


def is_result_ty(ty):
    return ty.startswith("std::result::Result<") or ty.startswith("core::result::Result<") or ty.startswith("std::io::Result<")


def result_calls(body):
    """(bb, term) of calls in normal flow whose destination is a Result."""
    out = []
    for bb, t in body.calls():
        d = t["dest"]
        if d["p"]:
            continue
        if is_result_ty(body.local_ty(d["l"])):
            name = strip_generics(callee_def(t))
            # the desugaring of `?` itself and Result adaptors are consumers, not producers
            if name.endswith("::from_residual") or name.endswith("Try::branch"):
                continue
            out.append((bb, t))
    return out


def classify(body, local, depth=0):
    """Returns list of (kind, detail, bb) describing every consumer of the Result in `local`."""
    res = []
    if depth > 6:
        return [("unknown", "adaptor chain too deep", -1)]
    aliases, sinks = flow.track(body, {local}, casts=())
    if not sinks:
        return [(FORBIDDEN, "discarded (value is never used)", -1)]
    for s in sinks:
        kind = s[0]
        if kind == "return":
            res.append((PROPAGATE, "returned", -1))
        elif kind == "call":
            _, bb, ai, t = s
            name = strip_generics(t["callee"].get("def", ""))
            if name.endswith("Try::branch"):
                res.append((PROPAGATE, "?", bb))
            elif _FORBID.search(name):
                res.append((FORBIDDEN, name.split("::")[-1] + "()", bb))
            elif _WRAP.search(name):
                d = t["dest"]
                if not d["p"] and is_result_ty(body.local_ty(d["l"])):
                    for k, det, b2 in classify(body, d["l"], depth + 1):
                        res.append((k, name.split("::")[-1] + " -> " + det, b2))
                else:
                    res.append(("unknown", "adaptor %s with non-Result output" % name, bb))
            elif name.endswith("::drop") or name.endswith("mem::drop"):
                res.append((FORBIDDEN, "dropped explicitly", bb))
            else:
                res.append(("passed", "passed to %s" % name, bb))
        elif kind == "expr":
            _, bb, idx, st = s
            r = st["r"]
            if r["k"] == "discr":
                res.append((MATCH, "match on the Result", bb))
            elif r["k"] == "use":
                # moving a payload out (`as Ok.0`) after a match
                continue
            else:
                res.append(("unknown", "used in %s" % r["k"], bb))
        elif kind == "wrap":
            continue
        elif kind == "store":
            res.append(("unknown", "stored through a pointer", s[1]))
        elif kind == "drop":
            continue
        elif kind == "switch":
            res.append((MATCH, "switch", s[1]))
        else:
            res.append(("unknown", kind, s[1]))
    if not res:
        return [(FORBIDDEN, "discarded (only dropped)", -1)]
    return res


def always_err(F, fn, depth=0):
    """A local function every result of which is an Err (e.g. the crate's err_exit_code helper)."""
    b = F.bodies.get(fn) if F is not None else None
    if b is None or depth > 3:
        return False
    seen = False
    for bb in sorted(b.normal_blocks()):
        for s in b.stmts(bb):
            if s.get("k") == "assign" and s["p"]["l"] == 0 and not s["p"]["p"]:
                r = s["r"]
                if not (r.get("k") == "agg" and r.get("adt") == "std::result::Result" and r.get("vname") == "Err"):
                    return False
                seen = True
        t = b.term(bb)
        if t["k"] == "call" and t.get("dest") and t["dest"]["l"] == 0 and not t["dest"]["p"]:
            c = t["callee"]
            lc = c.get("resolved") if c.get("rlocal") else (c.get("def") if c.get("local") else None)
            if not (lc and always_err(F, lc, depth + 1)):
                return False
            seen = True
    return seen


def result_producers(body, F=None):
    """Blocks in which the function's Result is produced other than by propagating/constructing an error:
    `_0 = Ok(..)`, `_0 = <moved value>` or `_0 = call(..)` (anything but from_residual / Err(..) / an always-Err helper)."""
    out = []
    for bb in sorted(body.normal_blocks()):
        for s in body.stmts(bb):
            if s.get("k") == "assign" and s["p"]["l"] == 0 and not s["p"]["p"]:
                r = s["r"]
                if r.get("k") == "agg" and r.get("adt") == "std::result::Result" and r.get("vname") == "Err":
                    continue
                out.append((bb, "Ok(..)" if r.get("k") == "agg" else "value"))
        t = body.term(bb)
        if t["k"] == "call" and t.get("dest") and t["dest"]["l"] == 0 and not t["dest"]["p"]:
            cn = strip_generics(t["callee"].get("def", ""))
            c = t["callee"]
            lc = c.get("resolved") if c.get("rlocal") else (c.get("def") if c.get("local") else None)
            if not cn.endswith("FromResidual::from_residual") and not (lc and always_err(F, lc)):
                out.append((bb, "call " + cn.split("::")[-1]))
    return out


def try_info(body, res_local):
    """For `res?`: returns {'continue_edges': [(bb, succ)], 'payload': set(locals holding the Ok payload)} or None."""
    aliases, sinks = flow.track(body, {res_local}, casts=())
    out = {"continue_edges": [], "payload": set(), "branch_bbs": []}
    for s in sinks:
        if s[0] != "call" or not strip_generics(s[3]["callee"].get("def", "")).endswith("Try::branch"):
            continue
        cf = s[3]["dest"]["l"]
        out["branch_bbs"].append(s[1])
        # the switch on discr(cf)
        for bb in body.normal_blocks():
            t = body.term(bb)
            if t["k"] == "switch":
                p = op_place(t["d"])
                if p is None:
                    continue
                d = body.single_def(p["l"])
                if d and d[2] == "assign" and d[3]["k"] == "discr" and d[3]["place"]["l"] == cf and not d[3]["place"]["p"]:
                    for v, tgt in t["targets"]:
                        if v == 0:
                            out["continue_edges"].append((bb, tgt))
        for bb in range(body.n):
            for st in body.stmts(bb):
                if st["k"] == "assign" and st["r"]["k"] == "use":
                    p = op_place(st["r"]["op"])
                    if p and p["l"] == cf and any(isinstance(e, dict) and e.get("dc") == 0 for e in p["p"]):
                        a2, _ = flow.track(body, {st["p"]["l"]})
                        out["payload"] |= a2
    if not out["branch_bbs"]:
        return None
    return out


def error_constructions(F, body):
    """Every place where `body` (helpers spliced into it included) makes an error value: a call of a local function all of
    whose results are Err, or an `Err(..)` aggregate — wherever the value goes next."""
    out = []
    for bb in sorted(body.normal_blocks()):
        for s in body.stmts(bb):
            r = s.get("r") or {}
            if s.get("k") == "assign" and r.get("k") == "agg" and r.get("adt") == "std::result::Result" and r.get("vname") == "Err":
                out.append(body.where(bb))
        t = body.term(bb)
        if t["k"] == "call":
            c = t["callee"]
            lc = c.get("resolved") if c.get("rlocal") else (c.get("def") if c.get("local") else None)
            if lc and always_err(F, lc):
                out.append(body.where(bb))
    return out


def rejection_edges(F, body):
    """The decisions of `body` that refuse: (block, successor) pairs where the block ends in a conditional branch, every
    normal path from the successor makes an error value (error_constructions) and the block itself can still avoid one.
    A match guard or an `&&` added in front of an existing `Err` arm adds an edge without adding a construction."""
    E = set()
    for bb in sorted(body.normal_blocks()):
        for s in body.stmts(bb):
            r = s.get("r") or {}
            if s.get("k") == "assign" and r.get("k") == "agg" and r.get("adt") == "std::result::Result" and r.get("vname") == "Err":
                E.add(bb)
        t = body.term(bb)
        if t["k"] == "call":
            c = t["callee"]
            lc = c.get("resolved") if c.get("rlocal") else (c.get("def") if c.get("local") else None)
            if lc and always_err(F, lc):
                E.add(bb)
    must = set(E)
    changed = True
    while changed:
        changed = False
        for bb in body.normal_blocks():
            if bb not in must:
                ss = body.succ(bb)
                if ss and all(x in must for x in ss):
                    must.add(bb); changed = True
    out = []
    for bb in sorted(body.normal_blocks()):
        if bb in must or body.term(bb)["k"] != "switch":
            continue
        for x in sorted(set(body.succ(bb))):
            if x in must:
                out.append((body.where(bb), bb, x))
    return out


def own_errors(F, body):
    """Places where `body` itself makes an error its result: an `Err(..)` aggregate assigned to the return place, or a call
    into the return place of a local function all of whose results are Err (err_exit_code and friends).  Errors arriving
    through `?` (from_residual) are propagated, not own."""
    own = []
    for bb in sorted(body.normal_blocks()):
        for s in body.stmts(bb):
            r = s.get("r") or {}
            if s.get("k") == "assign" and s["p"]["l"] == 0 and not s["p"]["p"] and r.get("k") == "agg" and r.get("adt") == "std::result::Result" and r.get("vname") == "Err":
                own.append(body.where(bb))
        t = body.term(bb)
        if t["k"] == "call" and t.get("dest") and t["dest"]["l"] == 0 and not t["dest"]["p"]:
            c = t["callee"]
            lc = c.get("resolved") if c.get("rlocal") else (c.get("def") if c.get("local") else None)
            if lc and always_err(F, lc):
                own.append(body.where(bb))
    return own
