"""pfcheck: run the static rules of one property against /repo's current working tree."""
import argparse, importlib, json, os, sys, traceback

from . import extract, facts, core


class Ctx:
    def __init__(self, tier, repo):
        self.tier = tier
        self.repo = repo
        self._facts = {}
        self.meta = {}

    def facts(self, config="dev", which="lib"):
        k = (config, which)
        if k not in self._facts:
            d, meta = extract.facts(config, self.repo)
            self.meta[config] = meta
            self._facts[k] = facts.Facts(d, which)
        return self._facts[k]

    @property
    def lib(self):
        return self.facts("dev", "lib")

    @property
    def thorough(self):
        return self.tier == "thorough"


LEVELS = {"C14": "proof", "C12": "proof"}


def main(argv=None):
    ap = argparse.ArgumentParser()
    ap.add_argument("prop")
    ap.add_argument("--tier", default=os.environ.get("VERIF_TIER", "quick"), choices=["quick", "thorough"])
    ap.add_argument("--repo", default=os.environ.get("PFA_REPO", "/repo"))
    ap.add_argument("--explain", default=None)
    a = ap.parse_args(argv)
    prop = a.prop.upper()
    if a.explain:
        d = json.load(open(a.explain))
        for v in d.get("violations", []):
            print("%s\n   at %s\n   %s" % (v["key"], v["where"], v["detail"]))
        print("re-running the check on the current tree:")
    extract.REPO = a.repo
    rep = core.Report(prop, a.tier, LEVELS.get(prop, "other"))
    ctx = Ctx(a.tier, a.repo)
    try:
        mod = importlib.import_module("pfa.rules." + prop.lower())
    except ImportError as e:
        print("no rules for %s: %s" % (prop, e))
        return 2
    try:
        ctx.lib  # extract first: infrastructure failures are not violations
    except extract.ExtractError as e:
        print("INFRASTRUCTURE: %s" % e)
        return 2
    try:
        mod.run(ctx, rep)
    except facts.AnchorMissing as e:
        rep.missing("ANCHOR", str(e))
    except extract.ExtractError as e:
        print("INFRASTRUCTURE: %s" % e)
        return 2
    except Exception:
        # a checker crash on a changed tree must not pass silently: fail closed, say why
        tb = traceback.format_exc()
        rep.add("CHECKER", "UNRECOGNISED-IDIOM:checker-exception", False, "", tb[-1500:])
    rep.stats["facts_tree_hash"] = ctx.meta.get("dev", {}).get("tree_hash")
    rep.stats["configs"] = sorted(ctx.meta.keys())
    rep.stats["functions_analysed"] = len(ctx.lib.bodies)
    rep.assumptions = ["MIR of nightly rustc 1.97 at opt-level 0 is taken as the program; the tests build with stable 1.95 (same source)",
                       "facts are extracted from /repo's working tree at check time (tree hash recorded)"]
    return rep.finish()


if __name__ == "__main__":
    sys.exit(main())
