"""pfcheck: run the static rules of one property against /repo's current working tree."""
import argparse, importlib, json, os, sys, traceback

from . import extract, facts, core


class Ctx:
    def __init__(self, tier, repo):
        self.tier = tier
        self.repo = repo
        self._facts = {}
        self.meta = {}

    def facts(self, config="dev", which="lib"):
        k = (config, which)
        if k not in self._facts:
            d, meta = extract.facts(config, self.repo)
            self.meta[config] = meta
            self._facts[k] = facts.Facts(d, which)
        return self._facts[k]

    @property
    def lib(self):
        return self.facts("dev", "lib")

    @property
    def thorough(self):
        return self.tier == "thorough"


LEVELS = {"C14": "proof", "C12": "proof"}
# rule sets whose patterns do not depend on debug-assertion / overflow-check instrumentation: re-run on release-shape MIR
REL_SAFE = {"C14", "C12", "C13", "C11", "C10", "C02", "C08"}
WITNESS = {"C12", "C14"}


class RelCtx:
    def __init__(self, base):
        self.base = base
        self.tier = base.tier
        self.repo = base.repo
        self.thorough = True

    @property
    def lib(self):
        return self.base.facts("rel", "lib")

    def facts(self, config="rel", which="lib"):
        return self.base.facts(config, which)


def thorough(ctx, rep, prop, mod):
    """Extra depth of the thorough tier: release-shape MIR, the binary target, the witness crate, the checker self-test."""
    import subprocess, glob
    here = os.path.dirname(os.path.dirname(os.path.abspath(__file__)))
    # 1. release-shape MIR (debug assertions and overflow checks off)
    if prop in REL_SAFE:
        sub = core.Report(prop, "thorough")
        try:
            mod.run(RelCtx(ctx), sub)
        except Exception as e:
            sub.add("CHECKER", "UNRECOGNISED-IDIOM:release-config", False, "", "%s: %s" % (type(e).__name__, e))
        for o in sub.obs:
            o.instance = o.instance + "@release"
            rep.obs.append(o)
        rep.stats["release_config_obligations"] = len(sub.obs)
    # 2. the binary target: facts are extracted (the tree must type-check as a whole); its size is recorded
    try:
        B = ctx.facts("dev", "bin")
        rep.stats["bin_instances"] = len(B.instances)
    except Exception as e:
        rep.note("binary target facts unavailable: %s" % e)
    # 3. witness crate
    if prop in WITNESS:
        wdir = os.path.join(here, "witness")
        try:
            import shutil
            shutil.copy(os.path.join(ctx.repo, "Cargo.lock"), os.path.join(wdir, "Cargo.lock"))
        except Exception:
            pass
        env = dict(os.environ, CARGO_TARGET_DIR=os.path.join(wdir, "target"), CARGO_NET_OFFLINE="true")
        man = open(os.path.join(wdir, "Cargo.toml")).read()
        if ctx.repo != "/repo":
            # witness against the tree under test
            tmpw = os.path.join(wdir, "target", "alt")
            os.makedirs(tmpw, exist_ok=True)
            shutil.copytree(os.path.join(wdir, "src"), os.path.join(tmpw, "src"), dirs_exist_ok=True)
            open(os.path.join(tmpw, "Cargo.toml"), "w").write(man.replace('path = "/repo"', 'path = "%s"' % ctx.repo))
            wdir_run = tmpw
        else:
            wdir_run = wdir
        p = subprocess.run(["cargo", "+nightly", "test", "--doc", "--offline"], cwd=wdir_run, env=env, stdout=subprocess.PIPE, stderr=subprocess.STDOUT, text=True)
        lines = [l for l in p.stdout.splitlines() if l.startswith("test ")]
        want = "FfiSignature" if prop == "C12" else ("SendSync", "SharedBorrows")
        n = 0
        for l in lines:
            if any(w in l for w in ([want] if isinstance(want, str) else want)):
                n += 1
                key = l.split(" - ", 1)[-1].split(" ... ")[0]
                key = __import__("re").sub(r"\(line \d+\)", "", key).strip()
                rep.add("WIT", "witness:%s#%d" % (key, n), l.rstrip().endswith("ok"), "witness/src/lib.rs", l.strip())
        rep.floor("WIT", "witness-doctests", n, 3)
        if p.returncode != 0 and not lines:
            rep.add("WIT", "witness-crate-builds", False, "", p.stdout[-600:])
    # 4. checker self-test: every recorded mutant / seeded change of this property is still caught, negatives stay silent
    if os.environ.get("PFA_NO_SELFTEST") != "1" and ctx.repo == "/repo":
        dirs = []
        for base in ("selftest/mutants", "seeded"):
            for m in sorted(glob.glob(os.path.join(here, base, "*", "meta.json"))):
                try:
                    meta = json.load(open(m))
                except Exception:
                    continue
                if prop in meta.get("check", [meta.get("property")]) and os.path.exists(os.path.join(os.path.dirname(m), "patch.diff")):
                    dirs.append(os.path.dirname(m))
        env = dict(os.environ, PFA_NO_SELFTEST="1")
        from concurrent.futures import ThreadPoolExecutor

        def one(d):
            meta = json.load(open(os.path.join(d, "meta.json")))
            p = subprocess.run([os.path.join(here, "bin", "mutant"), "run", os.path.join(d, "patch.diff"), prop], env=env, stdout=subprocess.PIPE, stderr=subprocess.STDOUT, text=True)
            return d, meta, p.returncode, p.stdout
        with ThreadPoolExecutor(6) as ex:
            for d, meta, rc, out in ex.map(one, dirs):
                name = os.path.basename(d)
                if "patch does not apply" in out:
                    rep.note("selftest %s skipped: patch no longer applies" % name)
                    continue
                if meta.get("expect_pass"):
                    rep.add("SELF", "stays-silent:" + name, rc == 0, d, "negative control (behaviour-preserving edit) must not be reported; rc=%d" % rc)
                elif meta.get("missed_by_design"):
                    rep.add("SELF", "documented-miss:" + name, True, d, "outside the reach of this family (see DESIGN.md); rc=%d" % rc)
                else:
                    rep.add("SELF", "fires-on:" + name, rc == 1, d, "seeded change must be reported; rc=%d" % rc)
        rep.stats["selftest_mutants"] = len(dirs)



def main(argv=None):
    ap = argparse.ArgumentParser()
    ap.add_argument("prop")
    ap.add_argument("--tier", default=os.environ.get("VERIF_TIER", "quick"), choices=["quick", "thorough"])
    ap.add_argument("--repo", default=os.environ.get("PFA_REPO", "/repo"))
    ap.add_argument("--explain", default=None)
    a = ap.parse_args(argv)
    prop = a.prop.upper()
    if a.explain:
        d = json.load(open(a.explain))
        for v in d.get("violations", []):
            print("%s\n   at %s\n   %s" % (v["key"], v["where"], v["detail"]))
        print("re-running the check on the current tree:")
    extract.REPO = a.repo
    rep = core.Report(prop, a.tier, LEVELS.get(prop, "other"))
    ctx = Ctx(a.tier, a.repo)
    try:
        mod = importlib.import_module("pfa.rules." + prop.lower())
    except ImportError as e:
        print("no rules for %s: %s" % (prop, e))
        return 2
    try:
        ctx.lib  # extract first: infrastructure failures are not violations
    except extract.ExtractError as e:
        print("INFRASTRUCTURE: %s" % e)
        return 2
    try:
        mod.run(ctx, rep)
        if a.tier == "thorough":
            thorough(ctx, rep, prop, mod)
    except facts.AnchorMissing as e:
        rep.missing("ANCHOR", str(e))
    except extract.ExtractError as e:
        print("INFRASTRUCTURE: %s" % e)
        return 2
    except Exception:
        # a checker crash on a changed tree must not pass silently: fail closed, say why
        tb = traceback.format_exc()
        rep.add("CHECKER", "UNRECOGNISED-IDIOM:checker-exception", False, "", tb[-1500:])
    rep.stats["facts_tree_hash"] = ctx.meta.get("dev", {}).get("tree_hash")
    rep.stats["configs"] = sorted(ctx.meta.keys())
    rep.stats["functions_analysed"] = len(ctx.lib.bodies)
    rep.assumptions = ["MIR of nightly rustc 1.97 at opt-level 0 is taken as the program; the tests build with stable 1.95 (same source)",
                       "facts are extracted from /repo's working tree at check time (tree hash recorded)"]
    return rep.finish()


if __name__ == "__main__":
    sys.exit(main())
