"""Alphabets for the PROTO engine."""
from .proto import Alphabet
from .facts import op_const, const_bytes, callee_def
from . import flow
from .common import strip_generics

ENC = "preflate_rs::statistical_codec::PredictionEncoder"
DEC = "preflate_rs::statistical_codec::PredictionDecoder"


class CorrectionStream(Alphabet):
    """Events = calls of the PredictionEncoder / PredictionDecoder trait methods.
    labels: ('corr', ctx) ('mis', ctx, bool|None) ('val', bits|None, value|None) ('vs', msg)"""

    def __init__(self, side):
        self.side = side
        self.trait = ENC if side == "w" else DEC

    def is_event_callee(self, t):
        c = t.get("callee", {})
        return c.get("trait") == self.trait

    def event(self, M, body, bb, t):
        c = t.get("callee", {})
        if c.get("trait") != self.trait:
            return None
        m = c["def"].split("::")[-1]
        a = t["args"]
        where = "%s:%s" % (body.file, t.get("line"))

        def ctx(op):
            v = flow.resolve_variant(body, op)
            if v is None:
                ci = flow.const_eval(body, op)
                if ci is not None:
                    return ("#", ci)
                M.unrecognised.append((where, "context argument of %s is not a constant enum variant" % m))
                return None
            return (v[1], v[2])

        def msg(op):
            k = op_const(op)
            b = const_bytes(k) if k else None
            if b is None:
                o = flow.origin(body, op)
                for kk in o.consts:
                    b = const_bytes(kk)
            return b.decode("utf8", "replace") if b is not None else None

        if self.side == "w":
            if m == "encode_correction":
                return (("corr", ctx(a[1])), False)
            if m == "encode_misprediction":
                v = flow.const_eval(body, a[2])
                return (("mis", ctx(a[1]), v), False)
            if m == "encode_value":
                return (("val", flow.const_eval(body, a[2]), flow.const_eval(body, a[1])), False)
            if m == "encode_verify_state":
                return (("vs", msg(a[1])), False)
            if m == "finish":
                return None
            M.unrecognised.append((where, "unknown encoder method " + m))
            return None
        else:
            if m == "decode_correction":
                return (("corr", ctx(a[1])), True)
            if m == "decode_misprediction":
                return (("mis", ctx(a[1]), None), True)
            if m == "decode_value":
                return (("val", flow.const_eval(body, a[1]), None), True)
            if m == "decode_verify_state":
                return (("vs", msg(a[1])), False)
            M.unrecognised.append((where, "unknown decoder method " + m))
            return None


def match_correction(wl, rl):
    """writer label vs reader label; returns (ok, value bound to the reader's decoded local)."""
    if wl[0] != rl[0]:
        return False, None
    k = wl[0]
    if k == "corr":
        return (wl[1] is not None and wl[1] == rl[1]), None
    if k == "mis":
        return (wl[1] is not None and wl[1] == rl[1]), wl[2]
    if k == "val":
        if wl[1] is None or rl[1] is None:
            return False, None      # widths must be constants on both sides (fail closed)
        return wl[1] == rl[1], wl[2]
    if k == "vs":
        return wl[1] == rl[1], None
    return False, None
