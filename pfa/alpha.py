"""Alphabets for the PROTO engine."""
import re
from .proto import Alphabet
from .facts import op_const, const_bytes, callee_def, op_place
from . import flow
from .common import strip_generics

ENC = "preflate_rs::statistical_codec::PredictionEncoder"
DEC = "preflate_rs::statistical_codec::PredictionDecoder"


class CorrectionStream(Alphabet):
    """Events = calls of the PredictionEncoder / PredictionDecoder trait methods.
    labels: ('corr', ctx) ('mis', ctx, bool|None) ('val', bits|None, value|None) ('vs', msg)"""

    STATE_SCOPE = ("preflate_rs::token_predictor::TokenPredictor::<'a>::predict_block",
                   "preflate_rs::token_predictor::TokenPredictor::<'a>::recreate_block")

    def __init__(self, side, state=False):
        self.side = side
        self.trait = ENC if side == "w" else DEC
        self.state = state      # also report mutations of the shared predictor state as events

    def state_event(self, body, t):
        """('st', method, integer-constant arguments) for a call that mutates (a part of) the predictor `self`."""
        if not self.state or body.name not in self.STATE_SCOPE or not t["args"]:
            return None
        p0 = op_place(t["args"][0])
        if p0 is None or not body.local_ty(p0["l"]).startswith("&mut"):
            return None
        o = flow.origin(body, t["args"][0])
        if o.args != {1} or o.calls or o.consts:
            return None
        name = strip_generics(t["callee"].get("def", "")).split("::")[-1]
        consts = tuple(flow.const_eval(body, a) for a in t["args"][1:] if op_place(a) is None or re.match(r"^(u8|u16|u32|u64|usize|i32|bool)$", body.local_ty(op_place(a)["l"])))
        return (("st", name, consts), None)

    def is_event_callee(self, t):
        c = t.get("callee", {})
        return c.get("trait") == self.trait

    def event(self, M, body, bb, t):
        c = t.get("callee", {})
        if c.get("trait") != self.trait:
            se = self.state_event(body, t)
            return [se] if se else None
        m = c["def"].split("::")[-1]
        a = t["args"]
        where = "%s:%s" % (body.file, t.get("line"))

        def ctx(op):
            v = flow.resolve_variant(body, op)
            if v is None:
                ci = flow.const_eval(body, op)
                if ci is not None:
                    return ("#", ci)
                # a context held in a variable whose value the interpreter knows on this path
                try:
                    ev = M.val(body, getattr(M, "cur_env", {}), op)
                except Exception:
                    ev = None
                if ev and ev is not True and isinstance(ev, tuple) and ev[0] == "i":
                    pl = op_place(op)
                    ty = body.local_ty(pl["l"]) if pl is not None else ""
                    adt = M.F.adts.get(re.sub(r"^&(mut )?", "", ty))
                    if adt:
                        for vv in adt["variants"]:
                            if vv.get("discr") == ev[1]:
                                return (vv["name"], ev[1])
                M.unrecognised.append((where, "context argument of %s is not a constant enum variant" % m))
                return None
            return (v[1], v[2])

        def msg(op):
            k = op_const(op)
            b = const_bytes(k) if k else None
            if b is None:
                o = flow.origin(body, op)
                for kk in o.consts:
                    b = const_bytes(kk)
            return b.decode("utf8", "replace") if b is not None else None

        if self.side == "w":
            if m == "encode_correction":
                return (("corr", ctx(a[1])), False)
            if m == "encode_misprediction":
                v = flow.const_eval(body, a[2])
                if v is None:
                    # a flag held in a variable: writing it is writing true on the paths where it is true and false on the
                    # others — split here so that a later `if flag { .. }` follows the same case
                    p = op_place(a[2])
                    locs = []
                    while p is not None and not p["p"] and body.local_ty(p["l"]) == "bool" and len(locs) < 6:
                        locs.append(p["l"])
                        dd = body.single_def(p["l"])
                        if dd and dd[2] == "assign" and dd[3]["k"] == "use":
                            p = op_place(dd[3]["op"])
                        else:
                            break
                    if locs and len(flow.uses(body, locs[-1])) > 1:
                        c = ctx(a[1])
                        return [(("mis", c, 1), None, {l: ("i", 1) for l in locs}), (("mis", c, 0), None, {l: ("i", 0) for l in locs})]
                return (("mis", ctx(a[1]), v), False)
            if m == "encode_value":
                return (("val", flow.const_eval(body, a[2]), flow.const_eval(body, a[1])), False)
            if m == "encode_verify_state":
                return (("vs", msg(a[1])), False)
            if m == "finish":
                return None
            M.unrecognised.append((where, "unknown encoder method " + m))
            return None
        else:
            if m == "decode_correction":
                return (("corr", ctx(a[1])), True)
            if m == "decode_misprediction":
                return (("mis", ctx(a[1]), None), True)
            if m == "decode_value":
                return (("val", flow.const_eval(body, a[1]), None), True)
            if m == "decode_verify_state":
                return (("vs", msg(a[1])), False)
            M.unrecognised.append((where, "unknown decoder method " + m))
            return None


def match_correction(wl, rl):
    """writer label vs reader label; returns (ok, value bound to the reader's decoded local)."""
    if wl[0] != rl[0]:
        return False, None
    k = wl[0]
    if k == "corr":
        return (wl[1] is not None and wl[1] == rl[1]), None
    if k == "mis":
        return (wl[1] is not None and wl[1] == rl[1]), wl[2]
    if k == "val":
        if wl[1] is None or rl[1] is None:
            return False, None      # widths must be constants on both sides (fail closed)
        return wl[1] == rl[1], wl[2]
    if k == "vs":
        return wl[1] == rl[1], None
    if k == "st":
        return wl[1:] == rl[1:], None
    return False, None


# ---------------------------------------------------------------------------------------------
import re
from .facts import op_place, const_int


def buffer_shape(body, op):
    """(length or None, constant first byte or None, root local or None) of the byte buffer an operand refers to."""
    from .facts import promoted_bytes
    seen = set()
    cur = op
    while True:
        p = op_place(cur) if ("c" in cur or "m" in cur) else (cur if "l" in cur else None)
        if p is None:
            k = op_const(cur) if isinstance(cur, dict) else None
            if k is not None and isinstance(k, dict):
                b = const_bytes(k)
                if b is None:
                    b = promoted_bytes(body, k)
                if b is not None:
                    return len(b), (b[0] if len(b) == 1 else None), None
            return None, None, None
        l = p["l"]
        if l in seen:
            return None, None, None
        seen.add(l)
        ty = body.local_ty(l)
        proj_fields = [e for e in p["p"] if isinstance(e, dict) and ("f" in e)]
        ranged = [e for e in p["p"] if isinstance(e, dict) and ("sub" in e or "i" in e)]
        if not proj_fields and not ranged:
            m = re.match(r"^\[u8; (\d+)\]$", ty)
            if m:
                n = int(m.group(1))
                v = None
                ds = body.defs(l)
                if len(ds) == 1 and ds[0][2] == "assign" and ds[0][3]["k"] == "agg" and ds[0][3].get("ak") == "array" and n == 1:
                    v = flow.const_eval(body, ds[0][3]["ops"][0])
                elif len(ds) == 1 and ds[0][2] == "assign" and ds[0][3]["k"] == "repeat" and n == 1:
                    v = None
                return n, v, l
        ds = body.defs(l)
        if len(ds) != 1:
            return None, None, l
        bb, idx, kind, payload = ds[0]
        if kind == "assign" and payload["k"] in ("use", "cast"):
            cur = payload["op"]
            continue
        if kind == "assign" and payload["k"] in ("ref", "rawptr"):
            pl = payload["place"]
            # &self.zlib_header : a field of array type
            fl = [e for e in pl["p"] if isinstance(e, dict) and "f" in e]
            if fl:
                # type of the field is not in the local table; use the ADT facts through the caller (None here)
                return ("field", fl[-1].get("n")), None, pl["l"]
            cur = pl
            continue
        if kind == "call":
            n = strip_generics(callee_def(payload))
            m = re.match(r"^\[u8; (\d+)\]$", ty)
            if m:
                return int(m.group(1)), None, l
            if re.search(r"(Deref::deref|DerefMut::deref_mut|as_slice|as_mut_slice|Index::index|IndexMut::index_mut|index|index_mut)$", n):
                a0 = payload["args"][0]
                n0, v0, r0 = buffer_shape(body, a0)
                if re.search(r"(Deref::deref|DerefMut::deref_mut|as_slice|as_mut_slice)$", n):
                    return n0, v0, r0
                return None, None, r0
            return None, None, l
        return None, None, l


class Container(Alphabet):
    """Byte-level container protocol.  labels: ('bytes', n|None, const|None)  ('varint', const|None)"""

    def __init__(self, side, scope, F):
        self.side = side
        self.scope = set(scope)
        self.F = F

    def _kind(self, t):
        c = t.get("callee", {})
        d = strip_generics(c.get("def", ""))
        tr = c.get("trait")
        if self.side == "w":
            if tr == "std::io::Write" and d.endswith("::write_all"):
                return "write_all"
            if d == "preflate_rs::preflate_container::write_varint":
                return "varint"
            if d == "std::vec::Vec::push":
                return "push"
            if d.endswith("box_assume_init_into_vec_unsafe") or d.endswith("slice::<impl [T]>::into_vec") or d.endswith("::into_vec"):
                return "vecmacro"
        else:
            if tr == "std::io::Read" and d.endswith("::read"):
                return "read"
            if tr == "std::io::Read" and d.endswith("::read_exact"):
                return "read_exact"
            if tr == "byteorder::ReadBytesExt" and d.endswith("::read_u8"):
                return "read_u8"
            if d == "preflate_rs::preflate_container::read_varint":
                return "varint"
        return None

    def is_event_callee(self, t):
        return self._kind(t) is not None

    def _field_len(self, body, shape_n):
        return shape_n

    def event(self, M, body, bb, t):
        if body.name not in self.scope:
            return None
        k = self._kind(t)
        if k is None:
            return None
        a = t["args"]
        d = t["dest"]
        dl = d["l"] if not d["p"] else None
        if self.side == "w":
            if k == "write_all":
                n, v, root = buffer_shape(body, a[1])
                if isinstance(n, tuple):
                    n = self._adt_field_len(body, a[1], n[1])
                return [(("bytes", n, v), None)]
            if k == "varint":
                return [(("varint", flow.const_eval(body, a[1])), None)]
            if k == "vecmacro":
                # `vec![CONST]` as the start of the output: the one-byte array the macro boxes
                if not t["dest"] or t["dest"]["p"] or not body.local_ty(t["dest"]["l"]).endswith("std::vec::Vec<u8>"):
                    return None
                arrs = [s0["r"] for x in body.normal_blocks() if body.dominates(x, bb) for s0 in body.stmts(x)
                        if s0["k"] == "assign" and s0["r"].get("k") == "agg" and s0["r"].get("ak") == "array" and len(s0["r"].get("ops", [])) == 1]
                vals = [flow.const_eval(body, r0["ops"][0]) for r0 in arrs]
                vals = [v for v in vals if v is not None]
                if len(vals) != 1:
                    return None
                return [(("bytes", 1, vals[0]), None)]
            if k == "push":
                v = flow.const_eval(body, a[1])
                if v is None:
                    return None
                # only pushes onto the destination of this protocol count: a u8 constant pushed onto a Vec<u8>
                if not body.local_ty(op_place(a[0])["l"]).endswith("std::vec::Vec<u8>"):
                    return None
                return [(("bytes", 1, v), None)]
        else:
            if k == "varint":
                return [(("varint", None), (lambda v, dl=dl: {dl: ("t", "Ok", ("i", v) if v is not None else None)} if dl is not None else {}))]
            if k == "read_u8":
                return [(("bytes", 1, None), (lambda v, dl=dl: {dl: ("t", "Ok", ("i", v) if v is not None else None)} if dl is not None else {}))]
            n, _, root = buffer_shape(body, a[1])
            if isinstance(n, tuple):
                n = self._adt_field_len(body, a[1], n[1])
            if k == "read_exact":
                def b1(v, dl=dl, root=root, n=n):
                    u = {}
                    if dl is not None:
                        u[dl] = ("t", "Ok", None)
                    if root is not None and n == 1 and v is not None:
                        u[root] = ("i", v)
                    return u
                return [(("bytes", n, None), b1)]
            if k == "read":
                def got(v, dl=dl, root=root, n=n):
                    u = {}
                    if dl is not None and n is not None:
                        u[dl] = ("t", "Ok", ("i", n))
                    if root is not None and n == 1 and v is not None:
                        u[root] = ("i", v)
                    return u

                def eof(v, dl=dl):
                    return {dl: ("t", "Ok", ("i", 0))} if dl is not None else {}
                return [(("bytes", n, None), got), (None, eof)]
        return None

    def _adt_field_len(self, body, op, fname):
        """Length of an array-typed ADT field referenced by `&self.field`."""
        for a in self.F.adts.values():
            for v in a["variants"]:
                for f in v["fields"]:
                    if f["name"] == fname:
                        m = re.match(r"^\[u8; (\d+)\]$", f["ty"])
                        if m:
                            return int(m.group(1))
        return None


def match_container(wl, rl):
    if wl[0] != rl[0]:
        return False, None
    if wl[0] == "varint":
        return True, wl[1]
    if wl[0] == "bytes":
        if wl[1] != rl[1]:
            return False, None
        return True, wl[2]
    return False, None


class Consume(Alphabet):
    """How many bytes a header-skipping routine consumes from a reader: ('fixed', n) / ('var',)."""

    def __init__(self, scope):
        self.scope = set(scope)
        self.side = "r"

    def _kind(self, t):
        c = t.get("callee", {})
        d = strip_generics(c.get("def", ""))
        tr = c.get("trait")
        if tr == "std::io::Read" and d.endswith("::read_exact"):
            return "read_exact"
        if tr == "byteorder::ReadBytesExt":
            m = d.split("::")[-1]
            return {"read_u8": 1, "read_i8": 1, "read_u16": 2, "read_i16": 2, "read_u24": 3, "read_u32": 4, "read_i32": 4, "read_u64": 8}.get(m)
        if tr == "std::io::Seek" or (tr == "std::io::Read" and d.endswith("::read")):
            return "other"
        return None

    def is_event_callee(self, t):
        return self._kind(t) is not None

    def event(self, M, body, bb, t):
        if body.name not in self.scope:
            return None
        k = self._kind(t)
        if k is None:
            return None
        if isinstance(k, int):
            return [(("fixed", k), None)]
        if k == "read_exact":
            n, _, _ = buffer_shape(body, t["args"][1])
            if isinstance(n, int):
                return [(("fixed", n), None)]
            return [(("var",), None)]
        return [(("other", strip_generics(t["callee"].get("def", "")).split("::")[-1]), None)]
