"""Reviewed rows of C05/X4: index / slice / unsigned-subtraction sites in the DEFLATE reader modules that the linear-guard
analysis (pfa/lin.py) cannot discharge from guards in the same function.  Every row names the invariant that makes the site
safe and the rule that looks after that invariant.  A site that is neither discharged nor listed here is reported: it is a
new way for arbitrary input to panic.  Keys use canonical variable names (reference/varnames.json)."""

ROWS = {
    ('bit_reader::BitReader::<R>::get', 'sub', 'var(cbit) - var(cbits_added)'):
        'loop invariant of BitReader::get: cbits_added < cbit inside the loop',
    ('deflate_reader::DeflateReader::<R>::decode_block', 'sub', 'var(lit_len) - K257'):
        'guarded by the literal / end-of-block tests just above (lit_len >= 257 on this path; C03/T2)',
    ('deflate_reader::DeflateReader::<R>::decode_block', 'sub', 'var(cur_pos) - var(dist)'):
        'C05/X2 dist-check: dist <= bytes produced so far is validated before the copy',
    ('deflate_reader::DeflateReader::<R>::write_reference', 'sub', 'len(var(self).plain_text) - var(dist)'):
        'C05/X2 dist-check in decode_block: dist <= plain_text.len(); the copy index stays below the growing length',
    ('deflate_reader::DeflateReader::<R>::write_reference', 'index', 'var(self).plain_text[Add(var(start), var(i)).0]'):
        'C05/X2 dist-check in decode_block: dist <= plain_text.len(); the copy index stays below the growing length',
    ('huffman_encoding::HuffmanOriginalEncoding::get_literal_distance_lengths', 'range', 'var(lengths)[K0..var(self).num_literals]'):
        'header counts as parsed: HLIT+257, HDIST+1, HCLEN+4 (C03/T4 offsets), so the subtraction cannot underflow and the split point lies inside the vector (C05/X2 codes-read)',
    ('huffman_encoding::HuffmanOriginalEncoding::read', 'index', 'const:preflate_constants::TREE_CODE_ORDER_TABLE[var(i)]'):
        'loop bound HCLEN+4 <= 19 = table length (4-bit field, C03/T4); table entries < 19',
    ('huffman_encoding::HuffmanOriginalEncoding::write', 'sub', 'var(self).num_literals - K257'):
        'header counts as parsed: HLIT+257, HDIST+1, HCLEN+4 (C03/T4 offsets), so the subtraction cannot underflow and the split point lies inside the vector (C05/X2 codes-read)',
    ('huffman_encoding::HuffmanOriginalEncoding::write', 'sub', 'var(self).num_dist - K1'):
        'header counts as parsed: HLIT+257, HDIST+1, HCLEN+4 (C03/T4 offsets), so the subtraction cannot underflow and the split point lies inside the vector (C05/X2 codes-read)',
    ('huffman_encoding::HuffmanOriginalEncoding::write', 'sub', 'var(self).num_code_lengths - K4'):
        'header counts as parsed: HLIT+257, HDIST+1, HCLEN+4 (C03/T4 offsets), so the subtraction cannot underflow and the split point lies inside the vector (C05/X2 codes-read)',
    ('huffman_encoding::HuffmanOriginalEncoding::write', 'index', 'const:preflate_constants::TREE_CODE_ORDER_TABLE[var(i)]'):
        'loop bound HCLEN+4 <= 19 = table length (4-bit field, C03/T4); table entries < 19',
    ('huffman_encoding::HuffmanOriginalEncoding::write', 'index', 'var(self).code_lengths[var(length)]'):
        'writer side of the dynamic header: values were produced by the parser of the same header (C07/W4)',
    ('huffman_encoding::HuffmanOriginalEncoding::write', 'sub', 'var(length) - var(sub)'):
        'writer side of the dynamic header: values were produced by the parser of the same header (C07/W4)',
    ('huffman_encoding::HuffmanWriter::write_distance', 'index', 'var(self).dist_code_lengths[var(dist)]'):
        'symbols come from tokens of the same parse; code tables sized by the header (C07/W2)',
    ('huffman_encoding::HuffmanWriter::write_literal', 'index', 'var(self).lit_code_lengths[var(lit)]'):
        'symbols come from tokens of the same parse; code tables sized by the header (C07/W2)',
    ('huffman_helper::calc_huffman_codes', 'index', 'var(bl_count)[var(cbit)]'):
        'loop invariant of BitReader::get: cbits_added < cbit inside the loop',
    ('huffman_helper::calc_huffman_codes', 'sub', 'var(bits) - K1'):
        'code lengths are validated <= 15 (is_valid_huffman_code_lengths, C07 summary); counters indexed by a length; completeness check bounds the node counts',
    ('huffman_helper::calc_huffman_codes', 'index', 'var(bl_count)[Sub(var(bits), K1).0]'):
        'code lengths are validated <= 15 (is_valid_huffman_code_lengths, C07 summary); counters indexed by a length; completeness check bounds the node counts',
    ('huffman_helper::calc_huffman_codes', 'index', '?[var(bits)]'):
        'code lengths are validated <= 15 (is_valid_huffman_code_lengths, C07 summary); counters indexed by a length; completeness check bounds the node counts',
    ('huffman_helper::calc_huffman_codes', 'index', 'var(next_code)[var(len)]'):
        'code lengths are validated <= 15 (is_valid_huffman_code_lengths, C07 summary); counters indexed by a length; completeness check bounds the node counts',
    ('huffman_helper::calculate_huffman_code_tree', 'sub', 'var(c_codes) - K1'):
        'code lengths are validated <= 15 (is_valid_huffman_code_lengths, C07 summary); counters indexed by a length; completeness check bounds the node counts',
    ('huffman_helper::calculate_huffman_code_tree', 'sub', 'K-1 - var(j)'):
        'code lengths are validated <= 15 (is_valid_huffman_code_lengths, C07 summary); counters indexed by a length; completeness check bounds the node counts',
    ('huffman_helper::decode_symbol', 'sub', 'len(var(huffman_tree)) - K2'):
        'trees come from calculate_huffman_code_tree only (C05/X2 tree rules): complete, >= 2 entries, links stay inside',
    ('huffman_helper::decode_symbol', 'index', 'var(huffman_tree)[Add(branch(get(var(bit_reader), K1)).0, var(i_node_cur)).0]'):
        'trees come from calculate_huffman_code_tree only (C05/X2 tree rules): complete, >= 2 entries, links stay inside',
    ('huffman_helper::is_valid_huffman_code_lengths', 'index', 'var(length_count)[var(length)]'):
        'code lengths are validated <= 15 (is_valid_huffman_code_lengths, C07 summary); counters indexed by a length; completeness check bounds the node counts',
    ('huffman_helper::is_valid_huffman_code_lengths', 'index', 'var(length_count)[var(i)]'):
        'code lengths are validated <= 15 (is_valid_huffman_code_lengths, C07 summary); counters indexed by a length; completeness check bounds the node counts',
    ('huffman_helper::is_valid_huffman_code_lengths', 'sub', 'var(internal_nodes) - var(length_count)[var(i)]'):
        'code lengths are validated <= 15 (is_valid_huffman_code_lengths, C07 summary); counters indexed by a length; completeness check bounds the node counts',
}
