"""Reviewed table of explicit failure constructs reachable from decompress_deflate_stream / the container API.

Key: (function definition path without the crate prefix, construct kind).  All sites of that kind in that
function share the row.  class:
  infallible-by-type   the Result cannot be Err for the instantiation used (obligation: instantiation check)
  dead-by-const        behind a constant-false branch (obligation: const-dead block check)
  unreachable-variant  the panicking arm needs an argument value no call site passes (obligation: arg check)
  guarded              a dominating check makes the construct unreachable (obligation: named GUARD rule)
  discharged-by        holds iff another rule set holds (named)
  ub                   upper-bound inference proves the condition (obligation: UB rule)
  invariant            rests on a value-level invariant stated in `why` (honest residue, no structural obligation)
  genuine              a real defect: listed in known_findings.json or fixed
"""

P = "preflate_rs::"

ROWS = {
    # ---- in-memory CABAC reader/writer ------------------------------------------------------------
    ("cabac_codec::PredictionCabacContext::<CTX>::write_bypass", "Result::unwrap"): ("infallible-by-type", "cabac-in-memory", "VP8Writer over &mut Vec<u8> cannot fail"),
    ("cabac_codec::PredictionCabacContext::<CTX>::write_exp_encoded", "Result::unwrap"): ("infallible-by-type", "cabac-in-memory", "VP8Writer over &mut Vec<u8> cannot fail"),
    ("cabac_codec::PredictionCabacContext::<CTX>::read_bypass", "Result::unwrap"): ("infallible-by-type", "cabac-in-memory", "VP8Reader over Cursor<&[u8]> yields zeros at EOF, never Err"),
    ("cabac_codec::PredictionCabacContext::<CTX>::read_exp_value", "Result::unwrap"): ("infallible-by-type", "cabac-in-memory", "VP8Reader over Cursor<&[u8]> yields zeros at EOF, never Err"),
    ("<cabac_codec::PredictionEncoderCabac<W, CTX> as statistical_codec::PredictionEncoder>::finish", "Result::unwrap"): ("infallible-by-type", "cabac-in-memory", "VP8Writer::finish over &mut Vec<u8> cannot fail"),
    ("preflate_container::decompress_deflate_stream", "Result::unwrap"): ("infallible-by-type", "vp8-ctor-in-memory", "VP8Writer::new(&mut Vec)/VP8Reader::new(Cursor<&[u8]>) only fail on I/O errors"),
    ("preflate_container::recompress_deflate_stream", "Result::unwrap"): ("infallible-by-type", "vp8-ctor-in-memory", "VP8Reader::new(Cursor<&[u8]>) only fails on I/O errors"),
    # ---- discharged by other rule sets -------------------------------------------------------------
    ("preflate_container::decompress_deflate_stream", "assert_eq!"): ("discharged-by", "C08:P1+P3+P5", "params == reread_params holds iff the header round-trips every field (P1, P3, P5)"),
    ("preflate_parameter_estimator::PreflateParameters::read", "assert_eq!"): ("discharged-by", "C04:V1", "on the analysis path the version was written from the same constant; on foreign data this is a panic on corrupt input (noted under C13)"),
    ("cabac_codec::PredictionCabacContext::<CTX>::decode_value", "assert_eq!"): ("discharged-by", "C02:M1+C10:B1", "default run is flushed before every value (B1) and the reader asks for a value only where the writer wrote one (M1)"),
    ("preflate_parameter_estimator::PreflateParameters::write", "Result::unwrap"): ("ub", "C08:P3", "u16::try_from(x) cannot fail when ub(x) <= 65535"),
    # ---- dead / unreachable ----------------------------------------------------------------------
    ("token_predictor::TokenPredictor::<'a>::checksum", "assert!"): ("dead-by-const", "checksum-dead", "VERIFY = false and every call is behind `if VERIFY`"),
    ("<hash_chain::HashChainNormalize<H> as hash_chain::HashChain>::iterate", "assert_eq!"): ("unreachable-variant", "iterate-offset", "offset is the literal 0 or the const generic OFFSET in {0,1}"),
    ("<hash_chain::HashChainNormalizeLibflate4 as hash_chain::HashChain>::iterate", "assert_eq!"): ("unreachable-variant", "iterate-offset", "offset is the literal 0 or the const generic OFFSET in {0,1}"),
    ("depth_estimator::new_depth_estimator", "panic!"): ("unreachable-variant", "depth-estimator-variants", "CandidateInfo::new is only called with one of the seven real hash algorithms"),
    ("huffman_encoding::HuffmanOriginalEncoding::get_tree_code_adjustment", "unreachable!"): ("unreachable-variant", "tree-code-not-Code", "callers handle TreeCodeType::Code in a separate arm"),
    ("<() as hash_chain_holder::HashChainHolder>::calculate_hops", "unimplemented!"): ("guarded", "none-holder-no-references", "HashAlgorithm::None is only estimated for Store/HuffOnly streams, which contain no reference tokens"),
    ("<() as hash_chain_holder::HashChainHolder>::hop_match", "unimplemented!"): ("guarded", "none-holder-no-references", "same; on the reconstruction side reachable only from hostile correction data (C05 scope is analysis)"),
    # ---- guarded ---------------------------------------------------------------------------------
    ("complevel_estimator::CompLevelEstimatorState::<'a>::recommend", "Option::unwrap"): ("guarded", "X2:candidates-nonempty", "min_by() on a non-empty vector is Some"),
    ("huffman_encoding::HuffmanWriter::start_fixed_huffman_table", "Result::unwrap"): ("guarded", "calc-huffman-codes-total", "calc_huffman_codes on the fixed length tables"),
    ("huffman_calc::calc_zlib::calc_bit_lengths", "Option::unwrap"): ("guarded", "heap-nonempty", "heap.len() <= 1 returns early; the loop runs while len > 1"),
    ("bit_reader::BitReader::<R>::read_byte", "assert!"): ("guarded", "read-byte-after-flush", "every call follows flush_buffer_to_byte_boundary"),
    ("tree_predictor::predict_ld_trees", "assert_eq!"): ("guarded", "X2:codes-read+sized", "the header reader accepts only when codes_read == hlit + hdist; both vectors are resized to num_literals/num_dist"),
    # ---- upper bounds ---------------------------------------------------------------------------
    ("<hash_chain::HashChainNormalize<H> as hash_chain::HashChain>::update_hash", "assert!"): ("ub", "update-length", "length is a token length (<= 258) or 1"),
    ("<hash_chain::HashChainNormalizeLibflate4 as hash_chain::HashChain>::update_hash", "assert!"): ("ub", "update-length", "length is a token length (<= 258) or 1"),
    ("<hash_chain_holder::HashChainHolderImpl<H> as hash_chain_holder::HashChainHolder>::update_hash", "debug_assert!"): ("ub", "update-length", "length is a token length (<= 258) or 1"),
    # ---- conversions that cannot fail by type -----------------------------------------------------
    ("<hash_algorithm::LibdeflateHash4 as hash_algorithm::HashImplementation>::get_hash", "Result::unwrap"): ("infallible-by-type", "slice4-to-array4", "b[..4].try_into::<[u8;4]>() (the slice index is the implicit-panic part)"),
    ("<hash_algorithm::LibdeflateHash4Fast as hash_algorithm::HashImplementation>::get_hash", "Result::unwrap"): ("infallible-by-type", "slice4-to-array4", "same"),
    ("<hash_algorithm::ZlibNGHash as hash_algorithm::HashImplementation>::get_hash", "Result::unwrap"): ("infallible-by-type", "slice4-to-array4", "same"),
    ("idat_parse::parse_idat", "Result::unwrap"): ("infallible-by-type", "slice4-to-array4", "a 4-byte tail slice converted to [u8;4] (the slice index is the implicit-panic part, see A5)"),
    # ---- value-level invariants (no structural obligation; the honest residue of C05) ---------------
    ("deflate_reader::DeflateReader::<R>::read_eof_padding", "Result::unwrap"): ("invariant", None, "asks the bit reader for exactly the bits it already buffered, so no read happens"),
    ("<hash_algorithm::Crc32cHash as hash_algorithm::HashImplementation>::get_hash", "assert!"): ("invariant", None, "4-byte hashes are only applied where >= 4 bytes remain (update_chain returns early near the end; match_token_offset checks max_len >= num_hash_bytes)"),
    ("process::predict_blocks", "assert!"): ("invariant", None, "token lengths and stored bytes were produced together with plain_text by the parser"),
    ("preflate_input::PreflateInput::<'a>::advance", "debug_assert!"): ("invariant", None, "same"),
    ("hash_chain::HashTable::update_chain", "debug_assert!"): ("invariant", None, "same"),
    ("depth_estimator::HashTableDepthEstimatorImpl::<H>::internal_update_hash", "debug_assert!"): ("invariant", None, "same"),
    ("depth_estimator::HashTableDepthEstimatorLibdeflate::internal_update_hash3", "debug_assert!"): ("invariant", None, "same"),
    ("depth_estimator::HashTableDepthEstimatorImpl::<H>::get_node_depth", "debug_assert_eq!"): ("invariant", None, "equal bytes => equal hash => same chain"),
    ("<depth_estimator::HashTableDepthEstimatorImpl<H> as depth_estimator::HashTableDepthEstimator>::match_depth", "debug_assert!"): ("invariant", None, "the reference lies inside the produced plaintext (dist <= produced bytes is validated by the reader)"),
    ("hash_chain::InternalPosition::from_absolute", "Result::unwrap"): ("guarded", "reshift-bound", "the re-base limit plus the largest update batch plus the lazy probe stays below 2^16 (positions advance only through update_hash)"),
    ("bit_writer::BitWriter::write", "assert!"): ("invariant", None, "codes are written with their own lengths; constant pairs are checked by C07/W2"),
    ("token_predictor::TokenPredictor::<'a>::predict_block", "Result::unwrap"): ("invariant", None, "u32::try_from(tokens.len()): needs >= 2^32 tokens in one block"),
    # ---- genuine ------------------------------------------------------------------------------------
    ("hash_chain_holder::prefix_compare", "assert!"): ("guarded", "prefix-compare-args", "every call passes best_len < max_len (D4: was violated by the chain walk when a 3-byte match filled max_len)"),
}
