"""Explicit LTS of a PROTO machine + determinisation, minimisation and canonical serialisation."""
import hashlib
from collections import deque


def explore(M, entry, relabel=lambda l: l, limit=200000):
    cache = {}
    s0 = M.initial(entry)
    ids = {s0: 0}
    trans = {}
    acc = set()
    dq = deque([s0])
    while dq:
        s = dq.popleft()
        if len(ids) > limit:
            raise RuntimeError("LTS too large")
        for it in M.frontier(s, cache):
            if it[0] == "exit":
                if it[1] != "Err":
                    acc.add(ids[s])
                continue
            _, label, where, binder, nxt = it
            if nxt not in ids:
                ids[nxt] = len(ids)
                dq.append(nxt)
            trans.setdefault(ids[s], []).append((relabel(label), ids[nxt]))
    return len(ids), trans, acc


def canonical_dfa(n, trans, acc):
    """Subset construction + Moore minimisation + BFS canonical numbering. Returns a list of rows."""
    labels = sorted({repr(l) for ts in trans.values() for l, _ in ts})
    start = frozenset([0])
    dstates = {start: 0}
    dtrans = {}
    dq = deque([start])
    while dq:
        S = dq.popleft()
        row = {}
        for s in S:
            for l, t in trans.get(s, []):
                row.setdefault(repr(l), set()).add(t)
        for l, T in row.items():
            T = frozenset(T)
            if T not in dstates:
                dstates[T] = len(dstates)
                dq.append(T)
            dtrans[(dstates[S], l)] = dstates[T]
    dacc = {i for S, i in dstates.items() if S & acc}
    N = len(dstates)
    # Moore partition refinement
    part = [1 if i in dacc else 0 for i in range(N)]
    while True:
        sig = {}
        newp = []
        for i in range(N):
            key = (part[i], tuple((l, part[dtrans[(i, l)]]) for l in labels if (i, l) in dtrans))
            if key not in sig:
                sig[key] = len(sig)
            newp.append(sig[key])
        if newp == part:
            break
        part = newp
    # quotient + canonical BFS order from the start class, labels sorted
    cls0 = part[0]
    order = {cls0: 0}
    rows = []
    dq = deque([cls0])
    rep = {}
    for i in range(N):
        rep.setdefault(part[i], i)
    while dq:
        c = dq.popleft()
        i = rep[c]
        out = []
        for l in labels:
            if (i, l) in dtrans:
                c2 = part[dtrans[(i, l)]]
                if c2 not in order:
                    order[c2] = len(order)
                    dq.append(c2)
                out.append((l, order[c2]))
        rows.append((order[c], i in dacc, out))
    return rows


def fingerprint(rows):
    h = hashlib.sha256(repr(rows).encode()).hexdigest()[:16]
    return h
