"""Shared tables: entry points, macro classification."""
import re

P = "preflate_rs::"
PC = P + "preflate_container::"

PUBLIC_ENTRIES = [
    PC + "expand_zlib_chunks",
    PC + "recreated_zlib_chunks",
    PC + "compress_zstd",
    PC + "decompress_zstd",
    PC + "decompress_deflate_stream",
    PC + "recompress_deflate_stream",
    P + "WrapperCompressZip",
    P + "WrapperDecompressZip",
]

STD_CRATES = {"core", "alloc", "std", "std_detect", "hashbrown", "compiler_builtins", "panic_unwind", "proc_macro"}

# macros whose expansion is std's own code, not the repository's choice of callee
STD_MACROS = {
    "vec", "format", "format_args", "print", "println", "eprint", "eprintln", "write", "writeln",
    "assert", "assert_eq", "assert_ne", "debug_assert", "debug_assert_eq", "debug_assert_ne",
    "panic", "unreachable", "unimplemented", "todo", "matches", "dbg",
}
DERIVES = {"Clone", "Copy", "Debug", "Default", "PartialEq", "Eq", "Hash", "PartialOrd", "Ord", "DefaultBoxed"}


def macro_names(exp):
    """User-visible macro names (outermost last) in an expansion trail, desugarings dropped."""
    if not exp:
        return []
    out = []
    for e in exp:
        if e.startswith("Desugaring(") or e.startswith("AstPass") or e == "Root":
            continue
        out.append(e.replace("$crate::", "").split("::")[-1])
    return out


def in_std_macro(exp):
    ms = macro_names(exp)
    return any(m in STD_MACROS for m in ms)


def in_derive(exp):
    ms = macro_names(exp)
    return any(m in DERIVES for m in ms)


def user_written(exp):
    return not macro_names(exp)


def _match(name, i):
    """index of the '>' matching the '<' at i (skipping '->')."""
    depth = 0
    j = i
    while j < len(name):
        c = name[j]
        if c == "<":
            depth += 1
        elif c == ">" and not (j > 0 and name[j - 1] == "-"):
            depth -= 1
            if depth == 0:
                return j
        j += 1
    return len(name) - 1


def strip_generics(name):
    """Remove generic-argument groups: 'std::vec::Vec::<u8>::new' -> 'std::vec::Vec::new';
    qualified-self groups are kept: '<Vec<u8> as WriteBuf>::f' -> '<Vec as WriteBuf>::f'."""
    out = []
    i = 0
    n = len(name)
    while i < n:
        c = name[i]
        if c == "<":
            j = _match(name, i)
            prev = name[i - 1] if i > 0 else ""
            if prev.isalnum() or prev == "_" or prev == ":":
                # generic arguments: drop (and the '::' of a turbofish)
                if len(out) >= 2 and out[-1] == ":" and out[-2] == ":":
                    out.pop()
                    out.pop()
            else:
                out.append("<" + strip_generics(name[i + 1:j]) + ">")
            i = j + 1
            continue
        out.append(c)
        i += 1
    return "".join(out)
