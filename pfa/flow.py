"""Def-use helpers on one MIR body: uses, forward taint, backward origin tracing."""
from .facts import op_place, op_const, const_int


def places_in(j):
    """Yield every place dict in a JSON subtree (operands, rvalues, terminators)."""
    if isinstance(j, dict):
        if "l" in j and "p" in j and isinstance(j["p"], list):
            yield j
            for e in j["p"]:
                if isinstance(e, dict) and "i" in e:
                    yield {"l": e["i"], "p": []}
            return
        for v in j.values():
            yield from places_in(v)
    elif isinstance(j, list):
        for v in j:
            yield from places_in(v)


def rvalue_reads(r):
    return {p["l"] for p in places_in(r)}


def stmt_reads(s):
    """Locals read by a statement (the assigned place's base is not a read unless projected through)."""
    out = set()
    if s["k"] == "assign":
        out |= rvalue_reads(s["r"])
        for e in s["p"]["p"]:
            if isinstance(e, dict) and "i" in e:
                out.add(e["i"])
        if "*" in s["p"]["p"]:
            out.add(s["p"]["l"])
    return out


def stmt_written(s):
    if s["k"] in ("assign", "setdiscr"):
        return s["p"]["l"]
    return None


def term_reads(t):
    k = t["k"]
    out = set()
    if k == "switch":
        out |= {p["l"] for p in places_in(t["d"])}
    elif k in ("call", "tailcall"):
        out |= {p["l"] for p in places_in(t["args"])}
        c = t.get("callee", {})
        if "op" in c:
            out |= {p["l"] for p in places_in(c["op"])}
    elif k == "assert":
        out |= {p["l"] for p in places_in(t["cond"])}
        out |= {p["l"] for p in places_in(t["ops"])}
    elif k == "drop":
        out.add(t["place"]["l"])
    return out


def uses(body, local):
    """List of ('stmt', bb, idx, stmt) / ('term', bb, term) reading `local`."""
    out = []
    for bb in range(body.n):
        for i, s in enumerate(body.stmts(bb)):
            if local in stmt_reads(s):
                out.append(("stmt", bb, i, s))
        t = body.term(bb)
        if local in term_reads(t):
            out.append(("term", bb, t))
    return out


def taint(body, seeds, call_filter=None, stop_at=None):
    """Flow-insensitive forward closure: locals whose value may depend on a seed local.

    A statement `x = f(..y..)` taints x when y is tainted; a call taints its destination when any
    argument is tainted, and also every argument passed by `&mut` (the callee may write through it).
    `call_filter(term)` may return False to cut propagation through that call (e.g. logging).
    `stop_at` is a set of locals that never become tainted (sanitised values).
    """
    t = set(seeds)
    stop = set(stop_at or ())
    changed = True
    while changed:
        changed = False
        for bb in range(body.n):
            for s in body.stmts(bb):
                if s["k"] != "assign":
                    continue
                w = s["p"]["l"]
                if w in t or w in stop:
                    continue
                if rvalue_reads(s["r"]) & t:
                    t.add(w)
                    changed = True
            term = body.term(bb)
            if term["k"] == "call":
                if call_filter is not None and call_filter(term) is False:
                    continue
                reads = {p["l"] for p in places_in(term["args"])}
                if reads & t:
                    w = term["dest"]["l"]
                    if w not in t and w not in stop:
                        t.add(w)
                        changed = True
                    # &mut arguments
                    for a in term["args"]:
                        p = op_place(a)
                        if p is None:
                            continue
                        ty = body.local_ty(p["l"])
                        if ty.startswith("&mut") and p["l"] not in t and p["l"] not in stop:
                            # the reference local itself and what it points to
                            t.add(p["l"])
                            changed = True
        # references: if r = &mut x and r tainted -> x tainted
        for bb in range(body.n):
            for s in body.stmts(bb):
                if s["k"] == "assign" and s["r"]["k"] in ("ref", "rawptr") and s["r"].get("mut"):
                    r = s["p"]["l"]
                    x = s["r"]["place"]["l"]
                    if r in t and x not in t and x not in stop:
                        t.add(x)
                        changed = True
    return t


class Origin:
    """Result of backward tracing: a set of leaves the value may come from."""

    def __init__(self):
        self.consts = []      # constant dicts
        self.args = set()     # argument locals
        self.calls = []       # (bb, terminator) whose result flows in
        self.exprs = []       # (bb, idx, rvalue) computed values (binop/agg/...)
        self.unknown = []     # partial defs etc.
        self.via_fields = set()  # field names traversed

    def only_const(self):
        return self.consts and not (self.args or self.calls or self.exprs or self.unknown)

    def const_values(self):
        return [const_int(k) for k in self.consts]


def origin(body, op, follow_casts=True, seen=None, out=None, through=("use", "cast", "ref", "rawptr")):
    """Trace an operand (or place) back through copies / casts / borrows to its leaves."""
    if out is None:
        out = Origin()
    if seen is None:
        seen = set()
    k = op_const(op) if isinstance(op, dict) and "k" in op and isinstance(op.get("k"), dict) and "ty" in op["k"] else None
    if k is not None:
        out.consts.append(k)
        return out
    place = op_place(op) if ("c" in op or "m" in op) else (op if "l" in op else None)
    if place is None:
        out.unknown.append(op)
        return out
    for e in place["p"]:
        if isinstance(e, dict) and "n" in e and "f" in e:
            out.via_fields.add(e["n"])
    l = place["l"]
    if l in seen:
        return out
    seen.add(l)
    ds = body.defs(l)
    if not ds:
        out.unknown.append(("nodef", l))
        return out
    for bb, idx, kind, payload in ds:
        if kind == "arg":
            out.args.add(l)
        elif kind == "call":
            out.calls.append((bb, payload))
        elif kind == "partial":
            out.unknown.append(("partial", bb, idx))
        else:
            r = payload
            rk = r["k"]
            if rk == "use" and "use" in through:
                origin(body, r["op"], follow_casts, seen, out, through)
            elif rk == "cast" and follow_casts and "cast" in through:
                origin(body, r["op"], follow_casts, seen, out, through)
            elif rk in ("ref", "rawptr") and rk in through:
                origin(body, r["place"], follow_casts, seen, out, through)
            else:
                out.exprs.append((bb, idx, r))
    return out


def resolve_const_int(body, op):
    """Integer value of an operand if it is (a copy of) a single constant, else None."""
    o = origin(body, op)
    if o.only_const():
        vals = {v for v in o.const_values()}
        if len(vals) == 1:
            return vals.pop()
    return None


def resolve_variant(body, op):
    """(adt, variant name, discriminant) if the operand is (a copy of) one enum-variant aggregate."""
    o = origin(body, op)
    if o.consts or o.args or o.calls or o.unknown:
        # constants of enum type (evaluated) are handled by the caller through const_int
        if o.only_const() and len(o.consts) == 1:
            return None
        return None
    vs = set()
    for bb, idx, r in o.exprs:
        if r["k"] == "agg" and r.get("ak") == "adt" and "discr" in r and not r["ops"]:
            vs.add((r["adt"], r["vname"], r["discr"]))
        else:
            return None
    if len(vs) == 1:
        return vs.pop()
    return None
