"""Def-use helpers on one MIR body: uses, forward taint, backward origin tracing."""
import re
from .facts import op_place, op_const, const_int


def places_in(j):
    """Yield every place dict in a JSON subtree (operands, rvalues, terminators)."""
    if isinstance(j, dict):
        if "l" in j and "p" in j and isinstance(j["p"], list):
            yield j
            for e in j["p"]:
                if isinstance(e, dict) and "i" in e:
                    yield {"l": e["i"], "p": []}
            return
        for v in j.values():
            yield from places_in(v)
    elif isinstance(j, list):
        for v in j:
            yield from places_in(v)


def rvalue_reads(r):
    return {p["l"] for p in places_in(r)}


def stmt_reads(s):
    """Locals read by a statement (the assigned place's base is not a read unless projected through)."""
    out = set()
    if s["k"] == "assign":
        out |= rvalue_reads(s["r"])
        for e in s["p"]["p"]:
            if isinstance(e, dict) and "i" in e:
                out.add(e["i"])
        if "*" in s["p"]["p"]:
            out.add(s["p"]["l"])
    return out


def stmt_written(s):
    if s["k"] in ("assign", "setdiscr"):
        return s["p"]["l"]
    return None


def term_reads(t):
    k = t["k"]
    out = set()
    if k == "switch":
        out |= {p["l"] for p in places_in(t["d"])}
    elif k in ("call", "tailcall"):
        out |= {p["l"] for p in places_in(t["args"])}
        c = t.get("callee", {})
        if "op" in c:
            out |= {p["l"] for p in places_in(c["op"])}
    elif k == "assert":
        out |= {p["l"] for p in places_in(t["cond"])}
        out |= {p["l"] for p in places_in(t["ops"])}
    elif k == "drop":
        out.add(t["place"]["l"])
    return out


def uses(body, local):
    """List of ('stmt', bb, idx, stmt) / ('term', bb, term) reading `local`."""
    out = []
    for bb in range(body.n):
        for i, s in enumerate(body.stmts(bb)):
            if local in stmt_reads(s):
                out.append(("stmt", bb, i, s))
        t = body.term(bb)
        if local in term_reads(t):
            out.append(("term", bb, t))
    return out


def taint(body, seeds, call_filter=None, stop_at=None):
    """Flow-insensitive forward closure: locals whose value may depend on a seed local.

    A statement `x = f(..y..)` taints x when y is tainted; a call taints its destination when any
    argument is tainted, and also every argument passed by `&mut` (the callee may write through it).
    `call_filter(term)` may return False to cut propagation through that call (e.g. logging).
    `stop_at` is a set of locals that never become tainted (sanitised values).
    """
    t = set(seeds)
    stop = set(stop_at or ())
    changed = True
    while changed:
        changed = False
        for bb in range(body.n):
            for s in body.stmts(bb):
                if s["k"] != "assign":
                    continue
                w = s["p"]["l"]
                if w in t or w in stop:
                    continue
                if rvalue_reads(s["r"]) & t:
                    t.add(w)
                    changed = True
            term = body.term(bb)
            if term["k"] == "call":
                if call_filter is not None and call_filter(term) is False:
                    continue
                reads = {p["l"] for p in places_in(term["args"])}
                if reads & t:
                    w = term["dest"]["l"]
                    if w not in t and w not in stop:
                        t.add(w)
                        changed = True
                    # &mut arguments
                    for a in term["args"]:
                        p = op_place(a)
                        if p is None:
                            continue
                        ty = body.local_ty(p["l"])
                        if ty.startswith("&mut") and p["l"] not in t and p["l"] not in stop:
                            # the reference local itself and what it points to
                            t.add(p["l"])
                            changed = True
        # references: if r = &mut x and r tainted -> x tainted
        for bb in range(body.n):
            for s in body.stmts(bb):
                if s["k"] == "assign" and s["r"]["k"] in ("ref", "rawptr") and s["r"].get("mut"):
                    r = s["p"]["l"]
                    x = s["r"]["place"]["l"]
                    if r in t and x not in t and x not in stop:
                        t.add(x)
                        changed = True
    return t


class Origin:
    """Result of backward tracing: a set of leaves the value may come from."""

    def __init__(self):
        self.consts = []      # constant dicts
        self.args = set()     # argument locals
        self.calls = []       # (bb, terminator) whose result flows in
        self.exprs = []       # (bb, idx, rvalue) computed values (binop/agg/...)
        self.unknown = []     # partial defs etc.
        self.via_fields = set()  # field names traversed

    def only_const(self):
        return self.consts and not (self.args or self.calls or self.exprs or self.unknown)

    def const_values(self):
        return [const_int(k) for k in self.consts]


def origin(body, op, follow_casts=True, seen=None, out=None, through=("use", "cast", "ref", "rawptr")):
    """Trace an operand (or place) back through copies / casts / borrows to its leaves."""
    if out is None:
        out = Origin()
    if seen is None:
        seen = set()
    k = op_const(op) if isinstance(op, dict) and "k" in op and isinstance(op.get("k"), dict) and "ty" in op["k"] else None
    if k is not None:
        out.consts.append(k)
        return out
    place = op_place(op) if ("c" in op or "m" in op) else (op if "l" in op else None)
    if place is None:
        out.unknown.append(op)
        return out
    for e in place["p"]:
        if isinstance(e, dict) and "n" in e and "f" in e:
            out.via_fields.add(e["n"])
    l = place["l"]
    if l in seen:
        return out
    seen.add(l)
    ds = body.defs(l)
    if not ds:
        out.unknown.append(("nodef", l))
        return out
    for bb, idx, kind, payload in ds:
        if kind == "arg":
            out.args.add(l)
        elif kind == "call":
            out.calls.append((bb, payload))
        elif kind == "partial":
            out.unknown.append(("partial", bb, idx))
        else:
            r = payload
            rk = r["k"]
            if rk == "use" and "use" in through:
                origin(body, r["op"], follow_casts, seen, out, through)
            elif rk == "cast" and follow_casts and "cast" in through:
                origin(body, r["op"], follow_casts, seen, out, through)
            elif rk in ("ref", "rawptr") and rk in through:
                origin(body, r["place"], follow_casts, seen, out, through)
            else:
                out.exprs.append((bb, idx, r))
    return out


def resolve_const_int(body, op):
    """Integer value of an operand if it is (a copy of) a single constant, else None."""
    o = origin(body, op)
    if o.only_const():
        vals = {v for v in o.const_values()}
        if len(vals) == 1:
            return vals.pop()
    return None


def resolve_variant(body, op):
    """(adt, variant name, discriminant) if the operand is (a copy of) one enum-variant aggregate."""
    o = origin(body, op)
    if o.consts or o.args or o.calls or o.unknown:
        # constants of enum type (evaluated) are handled by the caller through const_int
        if o.only_const() and len(o.consts) == 1:
            return None
        return None
    vs = set()
    for bb, idx, r in o.exprs:
        if r["k"] == "agg" and r.get("ak") == "adt" and "discr" in r and not r["ops"]:
            vs.add((r["adt"], r["vname"], r["discr"]))
        else:
            return None
    if len(vs) == 1:
        return vs.pop()
    return None


# ---------------------------------------------------------------------------------------------
# forward alias tracking ("where does this value go, and what is done with it")

_BENIGN_BINOPS = ("BitAnd", "Eq", "Ne", "Not", "Sub")


def only_feeds_ptr_check(body, local):
    """True when `local` only feeds the compiler-inserted alignment / null-pointer assertion."""
    work = [local]
    seen = set()
    fed = False
    while work:
        l = work.pop()
        if l in seen:
            continue
        seen.add(l)
        for u in uses(body, l):
            if u[0] == "stmt":
                s = u[3]
                r = s["r"] if s["k"] == "assign" else None
                if r and not s["p"]["p"] and (
                        (r["k"] in ("binop", "unop") and r.get("op") in _BENIGN_BINOPS)
                        or (r["k"] == "cast" and r["ck"] in ("Transmute", "PtrToPtr"))):
                    work.append(s["p"]["l"])
                else:
                    return False
            else:
                t = u[2]
                if t["k"] == "assert" and t["msg"] in ("Misaligned", "NullDeref"):
                    fed = True
                else:
                    return False
    return fed


def track(body, seeds, casts=("IntToInt", "PtrToPtr", "PointerCoercion(Unsize)", "PointerCoercion(MutToConstPointer)")):
    """Follow values forward through copies, reborrows and the listed casts.

    Returns (aliases, sinks): `aliases` = locals holding the value or a reference to it,
    `sinks` = every other use: ('call', bb, argidx, term) / ('store', bb, idx, stmt) /
    ('expr', bb, idx, stmt) / ('switch'|'assert'|'drop', bb, term) / ('return', -1).
    """
    aliases = set(seeds)
    sinks = []
    work = list(seeds)
    done = set()
    while work:
        l = work.pop()
        if l in done:
            continue
        done.add(l)
        if l == 0:
            sinks.append(("return", -1))
        for u in uses(body, l):
            if u[0] == "stmt":
                _, bb, idx, s = u
                if s["k"] != "assign":
                    continue
                r = s["r"]
                dest = s["p"]
                # store through the tracked pointer:  (*l) = v   /  l.f = v
                if dest["l"] == l and dest["p"] and l not in rvalue_reads(r):
                    sinks.append(("store", bb, idx, s))
                    continue
                k = r["k"]
                src_place = None
                if k == "use":
                    src_place = op_place(r["op"])
                elif k in ("ref", "rawptr"):
                    src_place = r["place"]
                elif k == "cast" and r["ck"] in casts:
                    src_place = op_place(r["op"])
                elif k == "cast" and r["ck"] in ("Transmute", "PtrToPtr") and not dest["p"] and only_feeds_ptr_check(body, dest["l"]):
                    continue
                if src_place is not None and src_place["l"] == l and all(e == "*" for e in src_place["p"]) and not dest["p"]:
                    aliases.add(dest["l"])
                    work.append(dest["l"])
                elif k == "agg" and not dest["p"] and r.get("ak") in ("adt", "tuple") and l in rvalue_reads(r):
                    # wrapped into Ok(..)/Some(..)/tuple: the wrapper carries the value
                    aliases.add(dest["l"])
                    work.append(dest["l"])
                    sinks.append(("wrap", bb, idx, s))
                else:
                    sinks.append(("expr", bb, idx, s))
            else:
                _, bb, t = u
                if t["k"] == "call":
                    for ai, a in enumerate(t["args"]):
                        p = op_place(a)
                        if p is not None and p["l"] == l:
                            sinks.append(("call", bb, ai, t))
                        elif p is None:
                            continue
                    # index projections etc. inside args
                else:
                    sinks.append((t["k"], bb, t))
    return aliases, sinks


def const_eval(body, op, depth=0):
    """Fold an operand to an integer when it is a constant expression over constants
    (copies, casts, + - * << >> & |, checked-arithmetic tuples)."""
    if depth > 24:
        return None
    k = op_const(op)
    if k is not None and isinstance(k, dict) and "ty" in k:
        return const_int(k)
    p = op_place(op)
    if p is None:
        return None
    proj = p["p"]
    if proj and not (len(proj) == 1 and isinstance(proj[0], dict) and proj[0].get("f") == 0):
        return None
    ds = body.defs(p["l"])
    if len(ds) != 1 or ds[0][2] != "assign":
        return None
    r = ds[0][3]
    if r["k"] == "use":
        return const_eval(body, r["op"], depth + 1)
    if r["k"] == "cast" and r["ck"] == "IntToInt":
        return const_eval(body, r["op"], depth + 1)
    if r["k"] == "binop":
        a = const_eval(body, r["l"], depth + 1)
        b = const_eval(body, r["r"], depth + 1)
        if a is None or b is None:
            return None
        o = r["op"].replace("WithOverflow", "").replace("Unchecked", "")
        try:
            return {"Add": a + b, "Sub": a - b, "Mul": a * b, "Shl": a << b, "Shr": a >> b,
                    "BitAnd": a & b, "BitOr": a | b, "BitXor": a ^ b,
                    "Div": a // b if b else None, "Rem": a % b if b else None}.get(o)
        except Exception:
            return None
    return None


# ---------------------------------------------------------------------------------------------
# canonical description of where a value comes from (used by sibling-agreement rules)

def _arg_desc(body, l):
    ty = strip_lifetimes(body.local_ty(l))
    same = [i for i in range(1, body.argc + 1) if strip_lifetimes(body.local_ty(i)) == ty]
    if len(same) > 1:
        return "arg<%s>#%d" % (ty, same.index(l))
    return "arg<%s>" % ty


def strip_lifetimes(ty):
    import re
    return re.sub(r"'[a-z_]+ ?", "", ty)


def describe(body, op, depth=0, names=False):
    """Canonical description of an operand's origin.  names=True stops at user-named variables
    (var(name)) instead of expanding their single definition."""
    if names:
        return _describe_named(body, op)
    if depth > 12:
        return "..."
    k = op_const(op) if isinstance(op, dict) and isinstance(op.get("k"), dict) and "ty" in op.get("k", {}) else None
    if k is not None:
        v = const_int(k)
        if v is not None:
            return "K%d" % v
        if "fn" in k:
            return "fn:" + k["fn"]
        if k.get("generic") or k.get("promoted"):
            from .facts import promoted_int
            pv = promoted_int(body, k)
            if pv is not None:
                return "K%d" % pv
        if k.get("from"):
            return "const:" + k["from"].replace("preflate_rs::", "")
        return "const<%s>" % k["ty"]
    p = op_place(op) if ("c" in op or "m" in op) else (op if "l" in op else None)
    if p is None:
        return "?"
    base = _desc_local(body, p["l"], depth)
    for e in p["p"]:
        if e == "*":
            continue
        if isinstance(e, dict) and "f" in e:
            base += "." + str(e.get("n", e["f"]))
        elif isinstance(e, dict) and "i" in e:
            base += "[" + _desc_local(body, e["i"], depth + 1) + "]"
        elif isinstance(e, dict) and "dc" in e:
            base += " as " + str(e.get("n"))
        elif isinstance(e, dict) and "ci" in e:
            base += "[%s%d]" % ("-" if e.get("fe") else "", e["ci"])
        elif isinstance(e, dict) and "sub" in e:
            base += "[%d..%s%d]" % (e["sub"][0], "-" if e.get("fe") else "", e["sub"][1])
    return base


def _desc_local(body, l, depth):
    if 1 <= l <= body.argc:
        ds = [d for d in body.defs(l) if d[2] != "arg"]
        if not ds:
            return _arg_desc(body, l)
    ds = body.defs(l)
    if len(ds) != 1:
        if any(d[2] == "arg" for d in ds):
            return _arg_desc(body, l) + "~"
        nm = body.local_name(l)
        return "var(%s)" % (nm or "_%d" % l) if ds else "undef"
    bb, idx, kind, payload = ds[0]
    if kind == "arg":
        return _arg_desc(body, l)
    if kind == "call":
        from .common import strip_generics
        n = strip_generics(payload["callee"].get("def", "?"))
        return "%s(%s)" % (n.split("::")[-1] if not n.startswith("preflate_rs") else n.replace("preflate_rs::", ""),
                           ", ".join(describe(body, a, depth + 1) for a in payload["args"]))
    if kind != "assign":
        return "partial"
    r = payload
    k = r["k"]
    if k == "use":
        return describe(body, r["op"], depth + 1)
    if k == "cast":
        return describe(body, r["op"], depth + 1)
    if k in ("ref", "rawptr"):
        return describe(body, r["place"], depth + 1)
    if k == "discr":
        return "discr(%s)" % describe(body, r["place"], depth + 1)
    if k == "binop":
        return "%s(%s, %s)" % (r["op"].replace("WithOverflow", ""), describe(body, r["l"], depth + 1), describe(body, r["r"], depth + 1))
    if k == "unop":
        return "%s(%s)" % (r["op"], describe(body, r["a"], depth + 1))
    if k == "agg":
        return "%s{%s}" % (r.get("vname") or r.get("ak"), ", ".join(describe(body, o, depth + 1) for o in r["ops"]))
    return k


def _describe_named(body, op, depth=0):
    k = op_const(op) if isinstance(op, dict) and isinstance(op.get("k"), dict) and "ty" in op.get("k", {}) else None
    if k is not None or depth > 30:
        return describe(body, op, 12 if depth > 30 else 0)
    p = op_place(op) if ("c" in op or "m" in op) else (op if "l" in op else None)
    if p is None:
        return "?"
    l = p["l"]
    nm = body.local_name(l)
    if nm in ("val", "residual"):      # bindings introduced by the `?` desugaring
        nm = None
    rn = getattr(body, "ref_names", None)
    if nm and rn is not None and nm not in rn and not (1 <= l <= body.argc):
        ds0 = body.defs(l)
        if len(ds0) == 1 and ds0[0][2] in ("assign", "call"):
            nm = None                  # a new single-assignment local: expand its definition
    if nm and not p["p"]:
        return "var(%s)" % nm
    if p["p"]:
        proj = list(p["p"])
        base = None
        # `(x as Continue).0` where x is `Continue(v)` on exactly one path and a failing `?` on all others (the shape the
        # inliner leaves behind for `helper(..)?`): the value is v
        if not nm and len(proj) >= 2 and isinstance(proj[0], dict) and proj[0].get("dc") is not None and proj[0].get("n") in ("Continue", "Ok", "Some") \
                and isinstance(proj[1], dict) and proj[1].get("f") == 0:
            ds0 = body.defs(l)
            hit = [d for d in ds0 if d[2] == "assign" and d[3].get("k") == "agg" and d[3].get("vname") == proj[0]["n"] and len(d[3].get("ops", [])) == 1]
            rest = [d for d in ds0 if d not in hit]
            if len(hit) == 1 and rest and all((d[2] == "call" and d[3].get("always_break")) or (d[2] == "assign" and d[3].get("k") == "agg" and d[3].get("vname") in ("Break", "Err", "None")) for d in rest):
                q0 = op_place(hit[0][3]["ops"][0])
                if q0 is not None and proj[2:]:
                    # keep resolving: the payload may itself be a tuple / struct built in one place
                    return _describe_named(body, {"l": q0["l"], "p": q0["p"] + proj[2:]}, depth + 1)
                base = _describe_named(body, hit[0][3]["ops"][0], depth + 1)
                proj = proj[2:]
        # `.i` of a tuple built in one place (the `(&a, &b)` of assert_eq!, a tuple-valued `if`): its i-th operand
        if base is None and not nm and proj and isinstance(proj[0], dict) and "f" in proj[0] and "n" not in proj[0]:
            d1 = body.single_def(l)
            if d1 and d1[2] == "assign" and d1[3].get("k") == "agg" and d1[3].get("ak") == "tuple" and proj[0]["f"] < len(d1[3]["ops"]):
                q1 = op_place(d1[3]["ops"][proj[0]["f"]])
                if q1 is not None and proj[1:]:
                    return _describe_named(body, {"l": q1["l"], "p": q1["p"] + proj[1:]}, depth + 1)
                base = _describe_named(body, d1[3]["ops"][proj[0]["f"]], depth + 1)
                proj = proj[1:]
        if base is None:
            base = "var(%s)" % nm if nm else _describe_named(body, {"l": l, "p": []}, depth + 1)
        for e in proj:
            if isinstance(e, dict) and "f" in e:
                base += "." + str(e.get("n", e["f"]))
            elif isinstance(e, dict) and "i" in e:
                base += "[" + _describe_named(body, {"l": e["i"], "p": []}, depth + 1) + "]"
            elif isinstance(e, dict) and "dc" in e:
                if e.get("n") in ("Continue", "Ok", "Some") and not nm:
                    continue
                base += " as " + str(e.get("n"))
            elif isinstance(e, dict) and "f" in e and e.get("n") == "0" and base.endswith(")") and not nm:
                pass
        return base
    ds = body.defs(l)
    if len(ds) != 1:
        return "var(_%d)" % l
    bb, idx, kind, payload = ds[0]
    if kind == "arg":
        return _arg_desc(body, l)
    if kind == "call":
        from .common import strip_generics
        n = strip_generics(payload["callee"].get("def", "?"))
        return "%s(%s)" % (n.split("::")[-1], ", ".join(_describe_named(body, a, depth + 1) for a in payload["args"]))
    if kind != "assign":
        return "partial"
    r = payload
    kk = r["k"]
    if kk in ("use", "cast"):
        return _describe_named(body, r["op"], depth + 1)
    if kk in ("ref", "rawptr"):
        return _describe_named(body, r["place"], depth + 1)
    if kk == "binop":
        return "%s(%s, %s)" % (r["op"].replace("WithOverflow", ""), _describe_named(body, r["l"], depth + 1), _describe_named(body, r["r"], depth + 1))
    if kk == "unop":
        return "%s(%s)" % (r["op"], _describe_named(body, r["a"], depth + 1))
    if kk == "discr":
        return "discr(%s)" % _describe_named(body, r["place"], depth + 1)
    if kk == "agg":
        return "%s{%s}" % (r.get("vname") or r.get("ak"), ", ".join(_describe_named(body, o, depth + 1) for o in r["ops"]))
    return kk


def describe_rvalue(body, r, names=True):
    """Descriptor of an rvalue (not bound to a local)."""
    k = r["k"]
    d = (lambda o: describe(body, o, names=names))
    if k in ("use", "cast"):
        return d(r["op"])
    if k in ("ref", "rawptr"):
        return d(r["place"])
    if k == "binop":
        return "%s(%s, %s)" % (r["op"].replace("WithOverflow", ""), d(r["l"]), d(r["r"]))
    if k == "unop":
        return "%s(%s)" % (r["op"], d(r["a"]))
    if k == "discr":
        return "discr(%s)" % d(r["place"])
    if k == "agg":
        return "%s{%s}" % (r.get("vname") or r.get("ak"), ", ".join(d(o) for o in r["ops"]))
    return k


# ---- sums in canonical form ---------------------------------------------------------------------------------------
def _split_top(s):
    """Split at top-level commas."""
    out, depth, cur = [], 0, ""
    for ch in s:
        if ch in "([{<":
            depth += 1
        elif ch in ")]}>":
            depth -= 1
        if ch == "," and depth == 0:
            out.append(cur.strip()); cur = ""
        else:
            cur += ch
    if cur.strip():
        out.append(cur.strip())
    return out


def canon_sums(d):
    """Descriptor with every tree of additions written as Sum(t1, t2, ..., Kc): terms sorted, constants folded, the
    checked-arithmetic `.0` dropped.  `pos + 8 + len`, `pos + len + 8` and `(pos + 8) + len` become the same text."""
    out, i, n = "", 0, len(d)
    while i < n:
        if d.startswith("Add(", i) and (i == 0 or not (d[i - 1].isalnum() or d[i - 1] == "_")):
            j, depth = i + 4, 1
            while j < n and depth:
                if d[j] in "([{":
                    depth += 1
                elif d[j] in ")]}":
                    depth -= 1
                j += 1
            inner = d[i + 4:j - 1]
            if d.startswith(".0", j):
                j += 2
            parts = [canon_sums(x) for x in _split_top(inner)]
            terms, c = [], 0
            for p in parts:
                sub = _split_top(p[4:-1]) if p.startswith("Sum(") and p.endswith(")") else [p]
                for t in sub:
                    m = re.match(r"^K(-?\d+)$", t)
                    if m:
                        c += int(m.group(1))
                    else:
                        terms.append(t)
            terms.sort()
            if c:
                terms.append("K%d" % c)
            out += terms[0] if len(terms) == 1 else "Sum(%s)" % ", ".join(terms)
            i = j
        else:
            out += d[i]
            i += 1
    return out
