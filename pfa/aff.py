"""AFF — affine-equality dataflow (Karr-style, join = keep equal forms else TOP) over one loop body.

Values are affine forms  c0 + Σ ci * sym_i  over opaque symbols (values at the loop head, results of calls
identified by their call site, fields of such results).  A ghost variable can be updated by a client hook at
selected call sites.  Used for the scanner's cursor/coverage invariant (C01/A4, C06/G5).
"""
import re
from .facts import op_place, op_const, const_int, callee_def
from .common import strip_generics

TOP = None


def aff_const(c):
    return {"": c}


def aff_sym(s):
    return {"": 0, s: 1}


def aff_add(a, b, sign=1):
    if a is TOP or b is TOP:
        return TOP
    out = dict(a)
    for k, v in b.items():
        out[k] = out.get(k, 0) + sign * v
    return {k: v for k, v in out.items() if v != 0 or k == ""}


def aff_eq(a, b):
    if a is TOP or b is TOP:
        return False
    ka = {k: v for k, v in a.items() if v != 0}
    kb = {k: v for k, v in b.items() if v != 0}
    return ka == kb


def aff_str(a):
    if a is TOP:
        return "T"
    parts = []
    for k, v in sorted(a.items()):
        if k == "":
            if v:
                parts.append(str(v))
        elif v == 1:
            parts.append(k)
        else:
            parts.append("%d*%s" % (v, k))
    return " + ".join(parts) or "0"


class Aff:
    def __init__(self, F, body, hook=None, tracked=()):
        self.F = F
        self.b = body
        self.hook = hook     # hook(self, bb, term, env) -> None ; may update env["#ghost"]
        self.tracked = tuple(tracked)   # variables whose pairwise differences survive joins (relational part)

    def diff(self, env, a, b):
        """Affine form of a - b at this point (absolute values if known, else the relational fact kept at joins)."""
        va, vb = env.get(a, TOP), env.get(b, TOP)
        if va is not TOP and vb is not TOP:
            return aff_add(va, vb, -1)
        return env.get(("diff", a, b), TOP)

    def _kill(self, env, l):
        for k in [k for k in env if isinstance(k, tuple) and k[0] == "diff" and l in k[1:]]:
            env.pop(k, None)

    def root_sym(self, env, place):
        """Symbol for a field load through a place: identify the base value by where it was produced."""
        b = self.b
        l = place["l"]
        base = env.get(("root", l))
        fields = [str(e.get("n", e["f"])) for e in place["p"] if isinstance(e, dict) and "f" in e]
        if base is None:
            base = "L%d" % l
        return "%s.%s" % (base, ".".join(fields)) if fields else base

    def operand(self, env, op):
        k = op_const(op)
        if k is not None and isinstance(k, dict) and "ty" in k:
            if k.get("generic") and k.get("s") and re.match(r"^u(8|16|32|64|size)$", k["ty"]):
                return aff_sym("param:%s" % k["s"])          # an unsigned const generic parameter: some fixed value >= 0
            v = const_int(k)
            return aff_const(v) if v is not None else TOP
        p = op_place(op)
        if p is None:
            return TOP
        if not p["p"]:
            return env.get(p["l"], TOP)
        # tuple field of a checked op
        if len(p["p"]) == 1 and isinstance(p["p"][0], dict) and "f" in p["p"][0] and self.b.local_ty(p["l"]).startswith("(") and ("chk", p["l"]) in env:
            return env[("chk", p["l"])] if p["p"][0]["f"] == 0 else aff_const(0)
        if any(isinstance(e, dict) and "f" in e for e in p["p"]):
            return aff_sym(self.root_sym(env, p))
        return TOP

    def step_block(self, bb, env):
        """Apply the statements and the terminator's effect; returns env (copy)."""
        b = self.b
        env = dict(env)
        for s in b.stmts(bb):
            if s["k"] != "assign":
                continue
            p = s["p"]
            r = s["r"]
            if p["p"]:
                continue
            l = p["l"]
            env.pop(("root", l), None)
            env.pop(("chk", l), None)
            self._kill(env, l)
            k = r["k"]
            if k == "use":
                sp = op_place(r["op"])
                if sp is not None and ("root", sp["l"]) in env:
                    # moving (a part of) a produced value keeps its identity
                    env[("root", l)] = env[("root", sp["l"])] + "".join("." + str(e.get("n", e["f"])) for e in sp["p"] if isinstance(e, dict) and "f" in e)
                elif sp is not None and not any(e == "*" for e in sp["p"]) and not self.b.local_ty(l).startswith(("u", "i", "bool", "&")):
                    # ... also when the value was not produced by a call (taken out of a tuple, an Option): its identity is
                    # the place it was taken from
                    env[("root", l)] = "L%d" % sp["l"] + "".join("." + str(e.get("n", e["f"])) for e in sp["p"] if isinstance(e, dict) and "f" in e)
                v = self.operand(env, r["op"])
                if v is TOP:
                    env.pop(l, None)
                else:
                    env[l] = v
            elif k == "cast" and r["ck"] == "IntToInt":
                v = self.operand(env, r["op"])
                if v is TOP:
                    env.pop(l, None)
                else:
                    env[l] = v
            elif k == "binop":
                o = r["op"]
                base = o.replace("WithOverflow", "").replace("Unchecked", "")
                a, c = self.operand(env, r["l"]), self.operand(env, r["r"])
                v = TOP
                if base == "Add":
                    v = aff_add(a, c, 1)
                elif base == "Sub":
                    v = aff_add(a, c, -1)
                if "WithOverflow" in o:
                    env.pop(l, None)
                    if v is not TOP:
                        env[("chk", l)] = v
                elif v is TOP:
                    env.pop(l, None)
                else:
                    env[l] = v
            elif k in ("ref", "rawptr"):
                env.pop(l, None)
                sp = r["place"]
                env[("ref", l)] = sp
                if ("root", sp["l"]) in env and not sp["p"]:
                    env[("root", l)] = env[("root", sp["l"])]
            else:
                env.pop(l, None)
        t = b.term(bb)
        if t["k"] == "call":
            d = t["dest"]
            if self.hook is not None:
                g0 = env.get("#ghost", TOP)
                self.hook(self, bb, t, env)
                if env.get("#ghost", TOP) is not g0:
                    self._kill(env, "#ghost")
            # &mut arguments to scalar locals are clobbered (fresh symbol per call site and argument)
            for ai, a in enumerate(t["args"]):
                ap = op_place(a)
                if ap is None or ap["p"]:
                    continue
                tgt = self._ref_target(env, ap["l"])
                if tgt is not None and b.local_ty(ap["l"]).startswith("&mut") and not tgt["p"] and b.local_ty(tgt["l"]) in ("usize", "u32", "u64", "i32", "i64"):
                    env[tgt["l"]] = aff_sym("out%d@bb%d" % (ai, bb))
                    self._kill(env, tgt["l"])
            if not d["p"]:
                env.pop(d["l"], None)
                env.pop(("chk", d["l"]), None)
                ty = b.local_ty(d["l"])
                if ty in ("usize", "u32", "u64", "u16", "u8", "i32", "i64"):
                    env[d["l"]] = aff_sym("call@bb%d" % bb)
                env[("root", d["l"])] = "call@bb%d" % bb
        return env

    def _ref_target(self, env, l, depth=0):
        p = env.get(("ref", l))
        if p is None or depth > 4:
            return None
        if p["p"] == ["*"] and ("ref", p["l"]) in env:
            return self._ref_target(env, p["l"], depth + 1)
        return p

    def run_loop(self, head, init_env, tracked):
        """Forward dataflow from the loop head around the body once.  Returns {pred_bb: env} for every back edge
        and {bb: env} at blocks leaving the loop (successor not reaching the head)."""
        b = self.b
        body_blocks = {x for x in b.reachable_from(head) if head in b.reachable_from(x)}
        inn = {head: dict(init_env)}
        order = _topo(b, head, body_blocks)
        back = {}
        out_env = {}
        for bb in order:
            if bb not in inn:
                continue
            env = self.step_block(bb, inn[bb])
            out_env[bb] = env
            for s in b.succ(bb):
                if s == head:
                    back[bb] = env
                    continue
                if s not in body_blocks:
                    continue
                if s in inn:
                    inn[s] = _join(inn[s], env, self)
                else:
                    inn[s] = dict(env)
        return back, out_env, inn


def _join(a, b, A=None):
    out = {}
    if A is not None:
        for i, x in enumerate(A.tracked):
            for y in A.tracked[i + 1:]:
                da, db = A.diff(a, x, y), A.diff(b, x, y)
                if da is not TOP and db is not TOP and aff_eq(da, db):
                    out[("diff", x, y)] = da
                    out[("diff", y, x)] = aff_add(aff_const(0), da, -1)
    for k, v in a.items():
        if k in b:
            w = b[k]
            if isinstance(k, tuple):
                if k[0] == "diff":
                    continue
                if v == w:
                    out[k] = v
            elif aff_eq(v, w):
                out[k] = v
    return out


def _topo(b, head, blocks):
    """Topological order of the loop body with back edges to `head` removed."""
    indeg = {x: 0 for x in blocks}
    for x in blocks:
        for s in b.succ(x):
            if s in blocks and s != head:
                indeg[s] += 1
    order = []
    work = [head]
    seen = set()
    while work:
        x = work.pop()
        if x in seen:
            continue
        seen.add(x)
        order.append(x)
        for s in b.succ(x):
            if s in blocks and s != head:
                indeg[s] -= 1
                if indeg[s] <= 0:
                    work.append(s)
    # inner loops (none expected): append the rest
    for x in blocks:
        if x not in seen:
            order.append(x)
    return order
