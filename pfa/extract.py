"""E0 driver: produce (or reuse) the fact files for /repo's current working tree.

The fact files are a function of (source tree, Cargo files, flags, driver binary); they are cached
under /verif/.cache/<hash>/ so that the thirteen checks on one tree extract once.  Extraction always
runs in a scratch copy with a fresh CARGO_TARGET_DIR (cargo would otherwise replay a cached result
without running the wrapper) and the scratch copy is removed afterwards.
"""
import hashlib, json, os, shutil, subprocess, sys, tempfile, time, fcntl

VERIF = os.path.dirname(os.path.dirname(os.path.abspath(__file__)))
REPO = os.environ.get("PFA_REPO", "/repo")
DRIVER = os.path.join(VERIF, "extractor", "target", "release", "pfx")
CACHE = os.path.join(VERIF, ".cache")

CONFIGS = {
    # name -> (extra rustflags, cargo args)
    "dev": ("-C debug-assertions=on", ["--lib", "--bins"]),
    "rel": ("-C debug-assertions=off -C overflow-checks=off", ["--lib", "--bins"]),
}


class ExtractError(Exception):
    pass


def _tree_files(repo):
    out = []
    for base in ("src",):
        for root, dirs, files in os.walk(os.path.join(repo, base)):
            dirs.sort()
            for f in sorted(files):
                out.append(os.path.join(root, f))
    for f in ("Cargo.toml", "Cargo.lock", "build.rs", ".cargo/config.toml", "rust-toolchain.toml", "rust-toolchain"):
        p = os.path.join(repo, f)
        if os.path.exists(p):
            out.append(p)
    return out


def tree_hash(repo=REPO):
    h = hashlib.sha256()
    for p in _tree_files(repo):
        h.update(os.path.relpath(p, repo).encode())
        h.update(b"\0")
        with open(p, "rb") as fh:
            h.update(fh.read())
        h.update(b"\0")
    return h.hexdigest()


def _driver_hash():
    if not os.path.exists(DRIVER):
        raise ExtractError("driver binary missing: %s (run MANIFEST.setup_cmd)" % DRIVER)
    with open(DRIVER, "rb") as fh:
        return hashlib.sha256(fh.read()).hexdigest()


def _sysroot():
    return subprocess.check_output(["rustc", "+nightly", "--print", "sysroot"], text=True).strip()


def facts(config="dev", repo=REPO, verbose=False):
    """Return (dir, meta) where dir holds preflate_rs-lib.json and preflate_util-bin.json."""
    if config not in CONFIGS:
        raise ExtractError("unknown config " + config)
    th = tree_hash(repo)
    key = hashlib.sha256((th + _driver_hash() + config + repr(CONFIGS[config])).encode()).hexdigest()[:24]
    os.makedirs(CACHE, exist_ok=True)
    d = os.path.join(CACHE, key)
    lock = open(os.path.join(CACHE, key + ".lock"), "w")
    fcntl.flock(lock, fcntl.LOCK_EX)
    try:
        meta_p = os.path.join(d, "meta.json")
        if os.path.exists(meta_p) and os.path.exists(os.path.join(d, "preflate_rs-lib.json")):
            meta = json.load(open(meta_p))
            meta["cached"] = True
            return d, meta
        t0 = time.time()
        work = tempfile.mkdtemp(prefix="pfx-")
        try:
            src = os.path.join(work, "src")
            shutil.copytree(repo, src, ignore=shutil.ignore_patterns("target", ".git", "samples"))
            out = os.path.join(work, "out")
            os.makedirs(out)
            env = dict(os.environ)
            env["LD_LIBRARY_PATH"] = os.path.join(_sysroot(), "lib") + ":" + env.get("LD_LIBRARY_PATH", "")
            env["PFX_OUT"] = out
            env["RUSTFLAGS"] = "-Zmir-opt-level=0 -Awarnings -Zalways-encode-mir " + CONFIGS[config][0]
            env["RUSTC_WORKSPACE_WRAPPER"] = DRIVER
            env["CARGO_TARGET_DIR"] = os.path.join(work, "target")
            env["CARGO_NET_OFFLINE"] = "true"
            env.pop("RUSTC_WRAPPER", None)
            cmd = ["cargo", "+nightly", "check", "--offline"] + CONFIGS[config][1]
            p = subprocess.run(cmd, cwd=src, env=env, stdout=subprocess.PIPE, stderr=subprocess.STDOUT, text=True)
            if p.returncode != 0:
                raise ExtractError("the tree does not compile under the extractor:\n" + p.stdout[-4000:])
            got = sorted(os.listdir(out))
            if "preflate_rs-lib.json" not in got:
                raise ExtractError("fact file missing after extraction (got %r)\n%s" % (got, p.stdout[-2000:]))
            tmpd = d + ".tmp%d" % os.getpid()
            shutil.rmtree(tmpd, ignore_errors=True)
            os.makedirs(tmpd)
            for f in got:
                shutil.move(os.path.join(out, f), os.path.join(tmpd, f))
            meta = {"tree_hash": th, "config": config, "rustflags": env["RUSTFLAGS"], "files": got,
                    "extract_wall_s": round(time.time() - t0, 2), "repo": repo}
            json.dump(meta, open(os.path.join(tmpd, "meta.json"), "w"))
            shutil.rmtree(d, ignore_errors=True)
            os.rename(tmpd, d)
            meta["cached"] = False
            _prune()
            return d, meta
        finally:
            shutil.rmtree(work, ignore_errors=True)
    finally:
        fcntl.flock(lock, fcntl.LOCK_UN)
        lock.close()


def _prune(keep=12):
    ents = []
    for e in os.listdir(CACHE):
        p = os.path.join(CACHE, e)
        if os.path.isdir(p) and not e.endswith(".lock"):
            ents.append((os.path.getmtime(p), p))
    ents.sort(reverse=True)
    for _, p in ents[keep:]:
        shutil.rmtree(p, ignore_errors=True)
        try:
            os.remove(p + ".lock")
        except OSError:
            pass


if __name__ == "__main__":
    cfg = sys.argv[1] if len(sys.argv) > 1 else "dev"
    d, m = facts(cfg)
    print(d, json.dumps(m))
