"""LIN — linear-guard bounds analysis for accesses to untrusted byte slices.

Every site that can fail on an out-of-range value —
  index    `x[i]`                 (Assert BoundsCheck)            needs  i < len
  range    `x[a..b]`, `x[a..]`, `x[..b]`, `drain(a..b)`           needs  a <= b <= len
  sub      unsigned `a - b`       (Assert Overflow(Sub))          needs  a >= b
is turned into an obligation  E >= 0  over immutable symbols (values at loop heads, call results by call site,
slice lengths by container version) using the affine forward evaluation of pfa/aff.py, and must be entailed by
facts that dominate the site: comparison guards (evaluated in the same symbolic environment), loop-range bounds
(`for i in a..b`: a <= i <= b-1), earlier passed checks, non-negativity of unsigned values, and named summaries
(`facts` supplied by the rule, each with its own structural obligation).  Entailment is a bounded search for a
non-negative combination of at most three facts.  Nothing is executed.
"""
import re
from .aff import Aff, aff_const, aff_sym, aff_add, aff_eq, aff_str, TOP, _join
from .facts import op_place, op_const, const_int, callee_def
from .common import strip_generics
from . import flow


def scale(a, k):
    return {s: v * k for s, v in a.items()}


class Lin(Aff):
    def __init__(self, F, body):
        super().__init__(F, body, hook=None)
        self.b = body
        self._versions = {}
        self._mut_sites = None

    # ---- container versions -----------------------------------------------------------------------
    def mut_sites(self):
        """local -> blocks where the local (a container) may be mutated: assigned, or borrowed mutably."""
        if self._mut_sites is None:
            m = {}
            b = self.b
            for bb in range(b.n):
                for s in b.stmts(bb):
                    if s["k"] != "assign":
                        continue
                    if not s["p"]["p"] or s["p"]["p"][0] != "*":
                        m.setdefault(s["p"]["l"], set()).add(bb)
                    r = s["r"]
                    if r["k"] in ("ref", "rawptr") and r.get("mut"):
                        m.setdefault(r["place"]["l"], set()).add(bb)
                t = b.term(bb)
                if t["k"] == "call" and not t["dest"]["p"]:
                    m.setdefault(t["dest"]["l"], set()).add(bb)
            self._mut_sites = m
        return self._mut_sites

    def version(self, root_local, bb):
        """Key identifying the state of a container at block bb: the mutation sites that can reach bb.
        Inside a loop that also mutates the container every block gets its own version (no relation)."""
        b = self.b
        sites = self.mut_sites().get(root_local, set())
        key = (root_local, bb)
        if key not in self._versions:
            reaching = frozenset(s for s in sites if bb in b.reachable_from(s) and s != bb)
            cyc = any(s in b.reachable_from(bb) and bb in b.reachable_from(s) and s != bb for s in reaching)
            self._versions[key] = ("v", tuple(sorted(reaching))) if not cyc else ("blk", bb)
        return self._versions[key]

    def container_root(self, op):
        """Root local of a slice/Vec operand (through reborrows, deref(), as_slice, index with RangeFull)."""
        b = self.b
        seen = set()
        cur = op
        while True:
            p = op_place(cur) if ("c" in cur or "m" in cur) else (cur if "l" in cur else None)
            if p is None:
                return None
            l = p["l"]
            if l in seen:
                return None
            seen.add(l)
            if any(isinstance(e, dict) and "f" in e for e in p["p"]):
                return ("field", l, tuple(str(e.get("n", e.get("f"))) for e in p["p"] if isinstance(e, dict) and "f" in e))
            ds = b.defs(l)
            if len(ds) == 1 and ds[0][2] == "assign" and ds[0][3]["k"] in ("use", "cast"):
                cur = ds[0][3]["op"]
                continue
            if len(ds) == 1 and ds[0][2] == "assign" and ds[0][3]["k"] in ("ref", "rawptr"):
                cur = ds[0][3]["place"]
                continue
            if len(ds) == 1 and ds[0][2] == "call" and re.search(r"(Deref::deref|DerefMut::deref_mut|as_slice|as_mut_slice|AsRef::as_ref)$", strip_generics(callee_def(ds[0][3]))):
                cur = ds[0][3]["args"][0]
                continue
            return ("local", l, ())

    def _field_ty(self, l, fname):
        ty = re.sub(r"^(&(mut )?)+", "", flow.strip_lifetimes(self.b.local_ty(l)))
        a = self.F.adts.get(re.sub(r"<.*$", "", ty)) if getattr(self, "F", None) is not None else None
        if not a or a.get("kind") != "struct":
            return None
        for f in a["variants"][0]["fields"]:
            if f["name"] == fname:
                return f["ty"]
        return None

    def len_sym(self, op, bb):
        root = self.container_root(op)
        if root is None:
            return TOP
        kind, l, path = root
        # an element of `slice.windows(K)` is a slice of exactly K elements
        try:
            dsc = flow.describe(self.b, op if isinstance(op, dict) and ("c" in op or "m" in op or "k" in op) else {"c": op})
        except Exception:
            dsc = ""
        mw = re.search(r"next\(.*windows\(.*, K(\d+)\)", dsc)
        if mw and not re.search(r"windows\(.*, K\d+\).*windows\(", dsc):
            return aff_const(int(mw.group(1)))
        if kind == "local":
            m = re.match(r"^(?:&(?:mut )?)*\[[^;\]]+; (\d+)\]$", flow.strip_lifetimes(self.b.local_ty(l)))
            if m:
                return aff_const(int(m.group(1)))           # a fixed-size array: its length is in its type
        if kind == "field" and len(path) == 1:
            ft = self._field_ty(l, path[0])
            m = re.match(r"^\[[^;\]]+; (\d+)\]$", ft or "")
            if m:
                return aff_const(int(m.group(1)))           # a fixed-size array field
        nm = self.b.local_name(l) or "_%d" % l
        ver = self.version(l, bb)
        return aff_sym("len(%s%s)#%s" % (nm, "".join("." + x for x in path), hash(ver) % 100000 if ver[1] else 0))

    # ---- evaluation with lengths --------------------------------------------------------------------
    def step_block(self, bb, env):
        env = super().step_block(bb, env)
        b = self.b
        # PtrMetadata(slice) and len() calls become length symbols
        for s in b.stmts(bb):
            if s["k"] == "assign" and not s["p"]["p"] and s["r"]["k"] == "unop" and s["r"]["op"] == "PtrMetadata":
                v = self.len_sym(s["r"]["a"], bb)
                if v is not TOP:
                    env[s["p"]["l"]] = v
        t = b.term(bb)
        if t["k"] == "call" and not t["dest"]["p"]:
            n = strip_generics(callee_def(t))
            if re.search(r"(^core::slice::len|^std::vec::Vec::len|::len)$", n) and len(t["args"]) == 1 and self.b.local_ty(t["dest"]["l"]) == "usize":
                v = self.len_sym(t["args"][0], bb)
                if v is not TOP:
                    env[t["dest"]["l"]] = v
            elif re.search(r"(cmp::min|Ord::min)$", n) and len(t["args"]) == 2:
                # min(a, b): keep a fresh symbol but remember the two upper bounds as facts
                a, c = self.operand(env, t["args"][0]), self.operand(env, t["args"][1])
                sym = aff_sym("call@bb%d" % bb)
                for x in (a, c):
                    if x is not TOP:
                        env.setdefault(("facts",), [])
                        env[("facts",)] = list(env[("facts",)]) + [aff_add(x, sym, -1)]
        return env


def loop_heads(b):
    heads = {}
    for bb in b.normal_blocks():
        for s in b.succ(bb):
            if b.dominates(s, bb):
                heads.setdefault(s, set()).add(bb)
    return heads


def natural_loop(b, head, latches):
    body = {head}
    work = list(latches)
    while work:
        x = work.pop()
        if x in body:
            continue
        body.add(x)
        work.extend(p for p in b.pred(x) if p in b.normal_blocks())
    return body


def evaluate(F, body):
    """Forward symbolic evaluation of a whole function.  Returns (L, in_env, out_env)."""
    b = body
    L = Lin(F, b)
    heads = loop_heads(b)
    loops = {h: natural_loop(b, h, l) for h, l in heads.items()}
    # variables assigned inside a loop get a fresh symbol at its head
    assigned = {}
    for h, blocks in loops.items():
        vs = set()
        for bb in blocks:
            for s in b.stmts(bb):
                if s["k"] == "assign" and not s["p"]["p"]:
                    vs.add(s["p"]["l"])
            t = b.term(bb)
            if t["k"] == "call":
                if not t["dest"]["p"]:
                    vs.add(t["dest"]["l"])
        assigned[h] = vs
    back = {(x, h) for h, ls in heads.items() for x in ls}
    # topological order ignoring back edges
    nb = b.normal_blocks()
    indeg = {x: 0 for x in nb}
    for x in nb:
        for s in b.succ(x):
            if (x, s) not in back and s in indeg:
                indeg[s] += 1
    order, work = [], [0]
    seen = set()
    while work:
        x = work.pop()
        if x in seen:
            continue
        seen.add(x)
        order.append(x)
        for s in b.succ(x):
            if (x, s) in back or s not in indeg:
                continue
            indeg[s] -= 1
            if indeg[s] <= 0:
                work.append(s)
    # integer arguments are symbols of their own (entry values; a reassignment overwrites the binding flow-sensitively)
    env0 = {}
    for l in range(1, b.argc + 1):
        if b.local_ty(l) in ("usize", "u32", "u64", "u16", "u8"):
            env0[l] = aff_sym("arg:%s" % (b.local_name(l) or "_%d" % l))
    inn, out = {0: env0}, {}
    for bb in order:
        env = dict(inn.get(bb, {}))
        if bb in heads:
            # havoc loop-carried variables, but remember that they are still being tracked
            for l in assigned[bb]:
                if l in env or True:
                    env[l] = aff_sym("%s@head%d" % (b.local_name(l) or "_%d" % l, bb)) if b.local_ty(l) in ("usize", "u32", "u64", "u16", "u8", "i32") else None
                    if env[l] is None:
                        env.pop(l)
                env.pop(("chk", l), None)
                env.pop(("root", l), None)
        oenv = L.step_block(bb, env)
        inn[bb] = env
        out[bb] = oenv
        for s in b.succ(bb):
            if (bb, s) in back or s not in nb:
                continue
            if s in inn:
                inn[s] = _join_keep_facts(inn[s], oenv)
            else:
                inn[s] = dict(oenv)
    return L, inn, out, heads, loops


def _join_keep_facts(a, b):
    o = _join({k: v for k, v in a.items() if k != ("facts",)}, {k: v for k, v in b.items() if k != ("facts",)})
    fa, fb = a.get(("facts",), []), b.get(("facts",), [])
    common = [f for f in fa if any(aff_eq(f, g) for g in fb)]
    if common:
        o[("facts",)] = common
    return o


# ---------------------------------------------------------------------------------------------------------

class Site:
    def __init__(self, kind, bb, what, obligations, where):
        self.kind, self.bb, self.what, self.obligations, self.where = kind, bb, what, obligations, where


def _slice_iter_source(b, op, depth=0):
    """[the `x.iter()` call] a chain of length-preserving-or-shortening adaptors (enumerate, rev, skip, take, into_iter, by_ref ...)
    ends in, or []."""
    cur = op
    for _ in range(14):
        p = op_place(cur) if isinstance(cur, dict) and ("c" in cur or "m" in cur) else (cur if isinstance(cur, dict) and "l" in cur else None)
        if p is None:
            return []
        d = b.single_def(p["l"])
        if not d:
            return []
        if d[2] == "assign" and d[3]["k"] in ("use", "cast"):
            cur = d[3]["op"]
        elif d[2] == "assign" and d[3]["k"] in ("ref", "rawptr"):
            cur = d[3]["place"]
        elif d[2] == "call" and d[3]["args"]:
            n = strip_generics(callee_def(d[3]))
            raw = callee_def(d[3])
            if re.search(r"slice::.*::iter(_mut)?$", raw) or re.search(r"(^|::)(Vec|slice)(::<[^>]*>)?::iter(_mut)?$", n):
                return [d[3]]
            if re.search(r"(IntoIterator::into_iter|Iterator::(enumerate|rev|skip|take|by_ref|peekable|copied|cloned|step_by|fuse|inspect))$", n):
                cur = d[3]["args"][0]
            else:
                return []
        else:
            return []
    return []


def sites_and_facts(F, body, extra_facts=None):
    """Returns (sites, facts_at(bb) function)."""
    b = body
    L, inn, out, heads, loops = evaluate(F, b)
    sites = []
    facts = []      # (edge (sb, target) or ('after', bb), affine form >= 0, text)

    def ev(bb, op, after=False):
        env = out[bb] if after else _env_at_term(L, b, bb, inn)
        return L.operand(env, op)

    for bb in sorted(b.normal_blocks()):
        if bb not in inn:
            continue
        t = b.term(bb)
        where = b.where(bb)
        env_t = _env_at_term(L, b, bb, inn)
        if t["k"] == "assert":
            if t["msg"] == "BoundsCheck":
                ln, ix = L.operand(env_t, t["ops"][0]), L.operand(env_t, t["ops"][1])
                # constant-length arrays: the len operand is a constant
                ob = aff_add(aff_add(ln, ix, -1), aff_const(1), -1) if ln is not TOP and ix is not TOP else TOP
                base = _index_base(b, bb)
                sites.append(Site("index", bb, "%s[%s]" % (base, flow.describe(b, t["ops"][1], names=True)), [("index < len", ob)], where))
                if ob is not TOP:
                    facts.append((("edge", bb, t["t"]), ob, "passed bounds check"))
            elif t["msg"] == "Overflow" and t["ops"] and t["ops"][0] == "Sub":
                a, c = L.operand(env_t, t["ops"][1]), L.operand(env_t, t["ops"][2])
                ob = aff_add(a, c, -1) if a is not TOP and c is not TOP else TOP
                sites.append(Site("sub", bb, "%s - %s" % (flow.describe(b, t["ops"][1], names=True), flow.describe(b, t["ops"][2], names=True)), [("a >= b", ob)], where))
                if ob is not TOP:
                    facts.append((("edge", bb, t["t"]), ob, "passed subtraction"))
        elif t["k"] == "call":
            n = strip_generics(callee_def(t))
            rng = None
            if re.search(r"(Index::index|IndexMut::index_mut|::index|::index_mut)$", n) and len(t["args"]) == 2:
                rng = (t["args"][0], t["args"][1])
            elif n.endswith("Vec::drain") and len(t["args"]) == 2:
                rng = (t["args"][0], t["args"][1])
            if rng is not None:
                o = flow.origin(b, rng[1], through=("use",))
                aggs = [r for _, _, r in o.exprs if r["k"] == "agg" and r.get("adt", "").startswith("std::ops::Range")]
                if len(aggs) == 1 and not (o.args or o.calls or o.consts):
                    r = aggs[0]
                    kind = r["adt"].split("::")[-1]
                    ln = L.len_sym(rng[0], bb)
                    base = flow.describe(b, rng[0], names=True)
                    obs = []
                    # operands of the aggregate were evaluated where the aggregate was built; temps are single-assignment
                    vals = [L.operand(env_t, x) for x in r["ops"]]
                    if kind == "Range":
                        a, c = vals
                        obs.append(("start <= end", aff_add(c, a, -1) if a is not TOP and c is not TOP else TOP))
                        obs.append(("end <= len", aff_add(ln, c, -1) if ln is not TOP and c is not TOP else TOP))
                        txt = "%s[%s..%s]" % (base, flow.describe(b, r["ops"][0], names=True), flow.describe(b, r["ops"][1], names=True))
                    elif kind == "RangeFrom":
                        a = vals[0]
                        obs.append(("start <= len", aff_add(ln, a, -1) if ln is not TOP and a is not TOP else TOP))
                        txt = "%s[%s..]" % (base, flow.describe(b, r["ops"][0], names=True))
                    elif kind == "RangeTo":
                        c = vals[0]
                        obs.append(("end <= len", aff_add(ln, c, -1) if ln is not TOP and c is not TOP else TOP))
                        txt = "%s[..%s]" % (base, flow.describe(b, r["ops"][0], names=True))
                    elif kind == "RangeFull":
                        obs = []
                        txt = "%s[..]" % base
                    else:
                        obs.append((kind, TOP))
                        txt = "%s[%s]" % (base, kind)
                    if obs:
                        sites.append(Site("range" if not n.endswith("drain") else "drain", bb, txt, obs, where))
                        for _, ob in obs:
                            if ob is not TOP and t.get("t") is not None:
                                facts.append((("edge", bb, t["t"]), ob, "passed range check"))
                elif "RangeFull" not in b.local_ty(op_place(rng[1])["l"]) if op_place(rng[1]) else True:
                    if re.search(r"\[u8\]|Vec<u8>|\[u8; ", flow.strip_lifetimes(b.local_ty(op_place(rng[0])["l"])) if op_place(rng[0]) else ""):
                        ity = b.local_ty(op_place(rng[1])["l"]) if op_place(rng[1]) else "?"
                        if ity == "usize":
                            ln, ix = L.len_sym(rng[0], bb), L.operand(env_t, rng[1])
                            ob = aff_add(aff_add(ln, ix, -1), aff_const(1), -1) if ln is not TOP and ix is not TOP else TOP
                            sites.append(Site("index", bb, "%s[%s]" % (flow.describe(b, rng[0], names=True), flow.describe(b, rng[1], names=True)), [("index < len", ob)], where))
        # guards
        if t["k"] == "switch":
            dp = op_place(t["d"])
            d = b.single_def(dp["l"]) if dp is not None and not dp["p"] else None
            if d and d[2] == "assign" and d[3]["k"] == "binop" and d[3]["op"] in ("Lt", "Le", "Gt", "Ge", "Eq", "Ne"):
                env_d = _env_at(L, b, d[0], d[1], inn)
                a, c = L.operand(env_d, d[3]["l"]), L.operand(env_d, d[3]["r"])
                if a is not TOP and c is not TOP:
                    f0 = [x for v, x in t["targets"] if v == 0]
                    te, fe = t["otherwise"], (f0[0] if f0 else None)
                    op = d[3]["op"]
                    one = aff_const(1)

                    def ge(x, y, strict=False):     # x >= y (+1)
                        g = aff_add(x, y, -1)
                        return aff_add(g, one, -1) if strict else g
                    tf = {"Lt": (ge(c, a, True), ge(a, c)), "Le": (ge(c, a), ge(a, c, True)), "Gt": (ge(a, c, True), ge(c, a)),
                          "Ge": (ge(a, c), ge(c, a, True)), "Eq": (None, None), "Ne": (None, None)}[op]
                    txt = "%s(%s, %s)" % (op, flow.describe(b, d[3]["l"], names=True), flow.describe(b, d[3]["r"], names=True))
                    if op == "Eq":
                        facts.append((("edge", bb, te), ge(a, c), txt + " [=]"))
                        facts.append((("edge", bb, te), ge(c, a), txt + " [=]"))
                    if op == "Ne" and fe is not None:
                        facts.append((("edge", bb, fe), ge(a, c), txt + " [=]"))
                        facts.append((("edge", bb, fe), ge(c, a), txt + " [=]"))
                    # an unsigned value that differs from 0 is at least 1
                    zero = lambda f: all(v == 0 for v in f.values())
                    lp0 = op_place(d[3]["l"])
                    uns = lp0 is not None and not lp0["p"] and b.local_ty(lp0["l"]).startswith(("u", "usize"))
                    if op in ("Eq", "Ne") and uns and (zero(c) or zero(a)):
                        x = a if zero(c) else c
                        ne_edge = fe if op == "Eq" else te
                        if ne_edge is not None:
                            facts.append((("edge", bb, ne_edge), aff_add(x, one, -1), txt + " [!= 0]"))
                    if tf[0] is not None:
                        facts.append((("edge", bb, te), tf[0], txt + " true"))
                    if tf[1] is not None and fe is not None:
                        facts.append((("edge", bb, fe), tf[1], txt + " false"))
            elif re.match(r"^u(8|16|32|64|size)$", t.get("dty", "")) and not (d and d[2] == "assign" and d[3]["k"] == "discr"):
                # `match x { 0 => .., n => .. }` on an unsigned integer: x == v on the edge of value v, x >= 1 on the other edge once 0 is taken
                xv = L.operand(env_t, t["d"])
                if xv is not TOP:
                    for v, tgt in t["targets"]:
                        if sum(1 for _, x2 in t["targets"] if x2 == tgt) == 1 and tgt != t["otherwise"]:
                            facts.append((("edge", bb, tgt), aff_add(xv, aff_const(v), -1), "switch value == %d" % v))
                            facts.append((("edge", bb, tgt), aff_add(aff_const(v), xv, -1), "switch value == %d" % v))
                    if any(v == 0 for v, _ in t["targets"]) and all(tgt != t["otherwise"] for _, tgt in t["targets"]):
                        facts.append((("edge", bb, t["otherwise"]), aff_add(xv, aff_const(1), -1), "switch value != 0"))
            elif d and d[2] == "call" and strip_generics(callee_def(d[3])).endswith("is_empty") and len(d[3]["args"]) == 1:
                ln = L.len_sym(d[3]["args"][0], d[0])
                f0 = [x for v, x in t["targets"] if v == 0]
                if ln is not TOP and f0:
                    facts.append((("edge", bb, f0[0]), aff_add(ln, aff_const(1), -1), "!is_empty()"))
        # `v.truncate(n)` with n <= len(v) (n is len(v) minus something non-negative): afterwards len(v) == n
        if t["k"] == "call" and strip_generics(callee_def(t)).endswith("Vec::truncate") and len(t["args"]) == 2 and isinstance(t.get("t"), int):
            ln_old = L.len_sym(t["args"][0], bb)
            nv = L.operand(env_t, t["args"][1])
            ln_new = L.len_sym(t["args"][0], t["t"])
            if ln_old is not TOP and nv is not TOP and ln_new is not TOP and all(v >= 0 for v in aff_add(ln_old, nv, -1).values()):
                facts.append((("edge", bb, t["t"]), aff_add(ln_new, nv, -1), "truncate(n): len == n"))
                facts.append((("edge", bb, t["t"]), aff_add(nv, ln_new, -1), "truncate(n): len == n"))
        # a slice iterator that yields an element walks a non-empty slice: on the Some edge len >= 1
        if t["k"] == "call" and strip_generics(callee_def(t)).endswith("Iterator::next") and not t["dest"]["p"] and isinstance(t.get("t"), int):
            srcs = _slice_iter_source(b, t["args"][0])
            nb2 = t["t"]
            tt2 = b.term(nb2)
            if len(srcs) == 1 and tt2["k"] == "switch":
                dsw = op_place(tt2["d"])
                dd2 = b.single_def(dsw["l"]) if dsw is not None and not dsw["p"] else None
                if dd2 and dd2[2] == "assign" and dd2[3]["k"] == "discr" and dd2[3]["place"]["l"] == t["dest"]["l"] and not dd2[3]["place"]["p"]:
                    some = dict((v, x) for v, x in tt2["targets"]).get(1)
                    lnx = L.len_sym(srcs[0]["args"][0], bb)
                    if some is not None and lnx is not TOP:
                        facts.append((("edge", nb2, some), aff_add(lnx, aff_const(1), -1), "the iterator yielded an element: the slice is not empty"))
        # loop ranges:  opt = next(&mut iter) ; Some(i) => a <= i <= b-1
        if t["k"] == "call" and strip_generics(callee_def(t)).endswith("Iterator::next") and not t["dest"]["p"]:
            o = flow.origin(b, t["args"][0])
            its = [tt for _, tt in o.calls if strip_generics(callee_def(tt)).endswith("IntoIterator::into_iter")]
            for it in its:
                oa = flow.origin(b, it["args"][0], through=("use",))
                for dbb, didx, r in oa.exprs:
                    if r["k"] == "agg" and r.get("adt") == "std::ops::Range":
                        env_r = _env_at(L, b, dbb, didx, inn)
                        lo, hi = L.operand(env_r, r["ops"][0]), L.operand(env_r, r["ops"][1])
                        isym = aff_sym("call@bb%d.0" % bb)
                        if lo is not TOP:
                            facts.append((("after", bb), aff_add(isym, lo, -1), "loop variable >= range start"))
                        if hi is not TOP:
                            facts.append((("after", bb), aff_add(aff_add(hi, isym, -1), aff_const(1), -1), "loop variable <= range end - 1"))
        # facts recorded by the evaluator (min bounds)
        for f in out.get(bb, {}).get(("facts",), []):
            facts.append((("after", bb), f, "min() upper bound"))
    for f in (extra_facts or []):
        facts.append(f)
    facts.extend(_const_param_facts(F, b))
    return L, sites, facts, inn, out


def _const_param_facts(F, b):
    """A private function with one unsigned const generic parameter: the parameter is one of the values it is instantiated
    with anywhere in the crate (the extractor's monomorphic call graph lists every instance)."""
    if not b.j.get("generic") or str(b.j.get("vis", "")).startswith("pub") and b.j.get("vis") != "pub(self)":
        return []
    names = set()
    for bb in range(b.n):
        for m in re.finditer(r'"generic": true, "s": "(\w+)"', __import__("json").dumps([b.stmts(bb), b.term(bb)])):
            names.add(m.group(1))
    if len(names) != 1:
        return []
    vals = []
    for i in F.j.get("instances", []):
        if i.get("def") != b.name:
            continue
        m = re.search(r"::<([^<>]*)>$", i["name"])
        ints = [x.strip() for x in (m.group(1).split(",") if m else []) if re.match(r"^\s*\d+\s*$", x)]
        if len(ints) != 1:
            return []
        vals.append(int(ints[0]))
    if not vals:
        return []
    sym = aff_sym("param:%s" % sorted(names)[0])
    return [(("always",), aff_add(sym, aff_const(min(vals)), -1), "const parameter >= %d (all %d instance(s))" % (min(vals), len(vals))),
            (("always",), aff_add(aff_const(max(vals)), sym, -1), "const parameter <= %d (all %d instance(s))" % (max(vals), len(vals)))]


def _index_base(b, bb):
    for s in b.stmts(b.term(bb)["t"]) if b.term(bb).get("t") is not None else []:
        if s["k"] == "assign":
            for p in flow.places_in(s["r"]):
                if any(isinstance(e, dict) and "i" in e for e in p["p"]):
                    return flow.describe(b, {"l": p["l"], "p": [e for e in p["p"] if not (isinstance(e, dict) and "i" in e)]}, names=True)
    return "?"


def _env_at_term(L, b, bb, inn):
    """Environment after the statements of bb (before the terminator's own effect)."""
    return _env_at(L, b, bb, len(b.stmts(bb)), inn)


def _env_at(L, b, bb, idx, inn):
    env = dict(inn.get(bb, {}))
    # replay the statements up to idx with the evaluator (terminator excluded)
    saved = b.blocks[bb]
    fake = {"s": saved["s"][:idx], "t": {"k": "goto", "t": bb}}
    b.blocks[bb] = fake
    try:
        b._defs = b._defs
        env = L.step_block(bb, env)
    finally:
        b.blocks[bb] = saved
    return env


def holds_at(b, fact_loc, bb):
    if fact_loc[0] == "edge":
        return b.edge_dominates(fact_loc[1], fact_loc[2], bb)
    if fact_loc[0] == "after":
        return b.dominates(fact_loc[1], bb) and fact_loc[1] != bb
    if fact_loc[0] == "always":
        return True
    return False


def entailed(ob, facts):
    """ob >= 0 follows from a non-negative combination of up to three facts plus non-negativity of symbols."""
    if ob is TOP:
        return None

    def nonneg(form):
        return all(v >= 0 for k, v in form.items())
    if nonneg(ob):
        return []
    rel = [f for f in facts if f[1] is not TOP and (set(f[1]) & set(ob)) - {""}]
    # also facts that share symbols with those (one hop)
    syms = set(ob)
    for f in rel:
        syms |= set(f[1])
    rel2 = [f for f in facts if f[1] is not TOP and (set(f[1]) & syms) - {""}]
    cands = rel2[:40]
    for i, f in enumerate(cands):
        for k in (1, 2):
            r1 = aff_add(ob, scale(f[1], k), -1)
            if nonneg(r1):
                return [f]
            for j, g in enumerate(cands):
                if j <= i:
                    continue
                r2 = aff_add(r1, g[1], -1)
                if nonneg(r2):
                    return [f, g]
                for h in cands[j + 1:]:
                    r3 = aff_add(r2, h[1], -1)
                    if nonneg(r3):
                        return [f, g, h]
    return None
