"""SIB — sibling agreement rules.

M4: `calculate_hops` (analysis: how many qualifying chain entries lie before the reference actually used) and `hop_match`
(reconstruction: walk the chain to the n-th qualifying entry) must walk the same chain, stop at the same window limit and
count an entry under the same condition — otherwise the hop count written by one names a different distance in the other.
Compared as canonical descriptors with the reference length abstracted to L."""
import re
from .. import flow
from ..facts import callee_def, op_place
from ..common import strip_generics

H = "<preflate_rs::hash_chain_holder::HashChainHolderImpl<H> as preflate_rs::hash_chain_holder::HashChainHolder>::"
_LEN = [r"preflate_token::PreflateTokenReference::len\(arg<&preflate_rs::preflate_token::PreflateTokenReference>\)", r"arg<u32>#0"]


def _profile(F, fn, lenpat):
    b = F.body(H + fn)
    norm = lambda d: re.sub(lenpat, "L", d)
    prof = {"iterate": [], "window-stop": [], "prefix_compare": [], "counts-when": [], "enough-input": []}
    for bb in sorted(b.normal_blocks()):
        t = b.term(bb)
        if t["k"] == "call":
            cn = strip_generics(callee_def(t))
            if cn.endswith("HashChain::iterate"):
                prof["iterate"].append(norm(",".join(flow.describe(b, a) for a in t["args"][1:])))
            elif cn.endswith("prefix_compare"):
                # the third argument (best length so far) only steers prefix_compare's early exit; the slices and the
                # maximum length decide the result
                prof["prefix_compare"].append(norm(" ; ".join(flow.describe(b, t["args"][i]) for i in (0, 1, 3))))
        elif t["k"] == "switch" and not t.get("exp"):
            d = norm(flow.describe(b, t["d"]))
            if re.match(r"^(Gt|Ge|Lt|Le)\(next\(into_iter\(.*iterate\(.*\)\)\) as Some\.0, min\(", d):
                prof["window-stop"].append(d)
            elif re.match(r"^(Ge|Gt|Le|Lt|Eq|Ne)\(.*prefix_compare\(", d):
                prof["counts-when"].append(re.sub(r"prefix_compare\(.*\), ", "prefix_compare(..), ", d))
            elif re.match(r"^(Lt|Le|Gt|Ge)\(min\(.*remaining\(", d):
                prof["enough-input"].append(d)
    return b, {k: sorted(v) for k, v in prof.items()}


def resets(F, rep, rule="M9"):
    """The analysing and the reconstructing walk over a block start from the same predictor state: predict_block and
    recreate_block store the same constants into the same TokenPredictor fields (token counter, pending lazy-match memo ...).
    A reset kept on one side only lets stale state from the previous block steer the other side's predictions."""
    prof = {}
    for fn in ("predict_block", "recreate_block"):
        b = F.body("preflate_rs::token_predictor::TokenPredictor::<'a>::" + fn)
        st = set()
        for bb in sorted(b.normal_blocks()):
            for s in b.stmts(bb):
                if s.get("k") == "assign" and s["p"]["l"] == 1 and s["p"]["p"]:
                    names = [e.get("n") for e in s["p"]["p"] if isinstance(e, dict) and e.get("n")]
                    v = flow.describe_rvalue(b, s["r"], names=False)
                    if names and (re.match(r"^K\d+$", v) or v.startswith("None") or v in ("const<bool>", "K0")):
                        st.add((".".join(names), v))
        prof[fn] = st
    a, c = prof["predict_block"], prof["recreate_block"]
    rep.add(rule, "block-prologue-resets-agree", a == c and len(a) >= 1, "src/token_predictor.rs",
            "both sides reset %s" % sorted(a) if a == c else "analysis resets %s, reconstruction resets %s" % (sorted(a), sorted(c)))


def m4(F, rep, rule="M4"):
    try:
        b1, p1 = _profile(F, "calculate_hops", _LEN[0])
        b2, p2 = _profile(F, "hop_match", _LEN[1])
    except Exception as e:
        rep.add(rule, "hops-siblings", False, "", "ANCHOR-MISSING: %s" % e)
        return
    where = "%s:%s" % (b1.file, b1.line)
    # hop_match may end its walk only where calculate_hops also would: at the window limit, or on finding the entry.  Any
    # other way out (a chain budget, a distance cap ...) makes reconstruction depend on something analysis did not honour.
    exits = []
    for sb in sorted(b2.normal_blocks()):
        st = b2.term(sb)
        if st["k"] != "switch" or st.get("exp") or len(st["targets"]) != 1:
            continue
        p = op_place(st["d"])
        dd = b2.single_def(p["l"]) if p is not None and not p["p"] else None
        if dd and dd[2] == "assign" and dd[3]["k"] == "discr":
            continue
        d = re.sub(_LEN[1], "L", flow.describe(b2, st["d"]))
        known = (re.match(r"^(Gt|Ge|Lt|Le)\(next\(into_iter\(.*iterate\(.*\)\)\) as Some\.0, min\(", d) or re.match(r"^(Ge|Gt|Le|Lt|Eq|Ne)\(.*prefix_compare\(", d)
                 or re.match(r"^(Lt|Le|Gt|Ge)\(min\(.*remaining\(", d) or re.match(r"^(Eq|Ne)\(var\(\w+\), arg<u32>#1\)$", d))
        if not known:
            exits.append(d[:100])
    rep.add(rule, "hops-siblings:no-extra-decision-in-hop_match", not exits, where, "decisions of hop_match beyond window limit / match test / hop count: %s" % exits)
    for k in sorted(p1):
        ok = p1[k] == p2[k] and len(p1[k]) == 1
        rep.add(rule, "hops-siblings:" + k, ok, where,
                "calculate_hops and hop_match agree: %s" % p1[k] if ok else "calculate_hops: %s / hop_match: %s" % (p1[k], p2[k]))
