"""SIB — sibling agreement rules (filled in later in the build order)."""


def m4(F, rep):
    return
