"""UB — upper-bound inference (filled in later in the build order)."""


def p3(ctx, rep):
    return
