"""P3 / X3 — every value written into the parameter header fits its width; narrowing conversions cannot fail."""
import re
from .. import flow
from ..ub import UB, INF
from ..facts import callee_def
from ..common import strip_generics

PP = "preflate_rs::preflate_parameter_estimator::PreflateParameters::"
_cache = {}


def engine(F):
    k = id(F)
    if k not in _cache:
        _cache.clear()
        _cache[k] = UB(F)
    return _cache[k]


def _field_name(desc):
    m = re.findall(r"\.([A-Za-z_0-9]+)", desc.replace(" as ", "."))
    return ".".join(m[-2:]) if m else desc[:40]


def p3(ctx, rep, rule="P3"):
    F = ctx.lib
    U = engine(F)
    b = F.body(PP + "write")
    n_ev = n_tf = 0
    for bb, t in b.calls():
        n = strip_generics(callee_def(t))
        if t["callee"].get("trait") == "preflate_rs::statistical_codec::PredictionEncoder" and n.endswith("::encode_value"):
            n_ev += 1
            w = flow.const_eval(b, t["args"][2])
            v = U.operand(b, t["args"][1], bb)
            d = flow.describe(b, t["args"][1])
            name = _field_name(d) if "arg<" in d else d
            if w is None:
                rep.add(rule, "fits-width:%s" % name, False, b.where(bb), "UNRECOGNISED-IDIOM: width is not a constant")
                continue
            ok = v != INF and v < (1 << w)
            rep.add(rule, "fits-width:%s/%d" % (name, w), ok, b.where(bb),
                    "upper bound of the written value is %s, field holds < %d%s" % (v, 1 << w, "" if ok else " — a larger value is silently truncated; bound comes from: %s" % _sites(U, b, t["args"][1])))
        elif n.endswith("TryFrom::try_from"):
            dty = b.local_ty(t["dest"]["l"])
            m = re.search(r"Result<(u8|u16|u32)", dty)
            if not m:
                continue
            n_tf += 1
            lim = {"u8": 255, "u16": 65535, "u32": 2 ** 32 - 1}[m.group(1)]
            v = U.operand(b, t["args"][0], bb)
            d = flow.describe(b, t["args"][0])
            ok = v != INF and v <= lim
            rep.add(rule, "try_from-cannot-fail:%s" % _field_name(d), ok, b.where(bb),
                    "upper bound %s must be <= %d (%s::try_from(..).unwrap())%s" % (v, lim, m.group(1), "" if ok else "; bound comes from: %s" % _sites(U, b, t["args"][0])))
    rep.floor(rule, "encode_value-sites", n_ev, 20)
    rep.floor(rule, "try_from-sites", n_tf, 2)


def _first_field_place(b, op, depth=0):
    from ..facts import op_place
    p = op_place(op)
    if p is None or depth > 8:
        return None
    if any(isinstance(e, dict) and "f" in e and "n" in e for e in p["p"]):
        return p
    d = b.single_def(p["l"])
    if d and d[2] == "assign" and d[3]["k"] in ("use", "cast"):
        return _first_field_place(b, d[3]["op"], depth + 1)
    if d and d[2] == "call" and d[3]["args"]:
        return _first_field_place(b, d[3]["args"][0], depth + 1)
    return None


def _sites(U, b, op):
    """Where the offending bound comes from: follow field -> construction site -> field ... (largest first)."""
    out = []
    p = _first_field_place(b, op)
    if p is None:
        return out
    named = [e for e in p["p"] if isinstance(e, dict) and "f" in e and "n" in e]
    key = (U.place_adt(b, p), named[-1]["n"])
    seen = set()
    while key and key not in seen and len(out) < 5:
        seen.add(key)
        tr = U.trace.get(key) or []
        if not tr:
            break
        v, fn, where = tr[0]
        out.append("%s.%s<=%s set at %s (%s)" % ((key[0] or "?").split("::")[-1], key[1], v, where, fn.split("::")[-1]))
        # continue through the field that fed this construction site, if it is again a field
        nxt = None
        for k2, tr2 in U.trace.items():
            if k2 not in seen and tr2 and tr2[0][0] == v and k2[1] == key[1] and k2 != key:
                nxt = k2
                break
        key = nxt
    return out


def update_length_bound(F, parent):
    """ub(length) <= MAX_UPDATE_HASH_BATCH for the hash-chain update_hash implementations."""
    U = engine(F)
    try:
        lim = F.const_int("preflate_rs::hash_chain::MAX_UPDATE_HASH_BATCH")
    except Exception:
        return False, "MAX_UPDATE_HASH_BATCH not found"
    worst = 0
    detail = []
    for name, b in F.bodies.items():
        if name.endswith("::update_hash") and ("hash_chain::HashChain>" in name or "hash_chain_holder::HashChainHolder>" in name) and not name.startswith("<()"):
            # the `length` parameter: named local
            ls = [l for l in range(1, b.argc + 1) if b.local_name(l) == "length"]
            if not ls:
                return False, "no `length` parameter in " + name
            v = U.param(b, ls[0])
            detail.append("%s<=%s" % (name.split(" as ")[0].split("::")[-1].strip("<>"), v))
            worst = max(worst, v)
    ok = bool(detail) and worst <= lim
    return ok, "bounds %s; limit %d" % (detail, lim)
