"""C04 — data written by the reference build is still reconstructed by the current build (single-tree clauses).

V1 FLOW: both version gates are live (the constant written is the constant compared, and a mismatch cannot reach the
   decoding code).
V2 SURFACE: the format surface of the working tree — version values, canonical minimal DFAs of the container grammar,
   of the correction-stream grammar and of the parameter header (labels by discriminant/width/constant), enum
   discriminants, CABAC context geometry, every named const/static referenced from the reconstruction-reachable code —
   equals the frozen reference (reference/format_surface.json, pinned release + recorded fixes) unless a version
   constant changed (then the difference is reported as an announced change).
V3 closed forms of the pure loop-free leaf functions on the reconstruction path (hash functions, tie-breaks,
   difference coding, position arithmetic) are part of the surface.
Deliberately not part of the surface: literals inside looping functions (run-length predictor thresholds, lazy-match
rule, chain walk): summarising them needs loop invariants; those changes are NOT detected by this family.
"""
import hashlib, json, os, re
from .. import flow, proto, alpha, lts, closed
from ..facts import op_place, op_const, const_int, callee_def, AnchorMissing
from ..common import strip_generics, PC, macro_names
from . import c01

P = "preflate_rs::"
PP = P + "preflate_parameter_estimator::"
REF = os.path.join(os.path.dirname(os.path.dirname(os.path.dirname(os.path.abspath(__file__)))), "reference", "format_surface.json")
RECON = [PC + "recompress_deflate_stream", PC + "recreated_zlib_chunks"]
# which version constant announces a change of which part of the surface
GATE = {"container": "wrapper", "stream": "file"}
PURE = re.compile(r"(wrapping_|saturating_|from_le_bytes|from_be_bytes|From::from|Into::into|TryInto::try_into|TryFrom::try_from|Result::unwrap|Index::index|"
                  r"cmp::min|cmp::max|rotate_|Clone::clone|PartialEq::eq|PartialEq::ne|leading_zeros|trailing_zeros|count_ones|Ord::cmp|to_le_bytes|to_be_bytes|swap_bytes)")
RET_OK = re.compile(r"^(u8|u16|u32|u64|usize|i32|bool|std::cmp::Ordering|preflate_rs::hash_chain::InternalPosition|preflate_rs::preflate_token::PreflateTokenReference|\(u8, u32\))$")


def _flagless(l):
    # whether a flag is written as a literal in two branches or from a variable is a matter of style: the grammar records that
    # a flag of this context is written here, the inclusion rules (C02/M1, C08/P1) keep the value
    return (l[0], l[1], None) if l and l[0] == "mis" and len(l) == 3 else l


def _relabel(l):
    return tuple((x[1] if isinstance(x, tuple) and len(x) == 2 and isinstance(x[0], str) else x) for x in _flagless(l))


def _relabel_by_name(l):
    return tuple((x[0] if isinstance(x, tuple) and len(x) == 2 and isinstance(x[0], str) else x) for x in _flagless(l))


def _ctx_grammar(F, entry):
    """Grammar of a correction stream with the context of every operation named two ways.  A context (CodecCorrection /
    CodecMisprediction variant) is only an index into arrays of identically initialised adaptive states, so neither its number
    nor its name is stored: permuting the variants, or renaming them, leaves every stored stream decodable.  The grammar
    therefore counts as unchanged when it is unchanged under EITHER labelling (a pure reorder keeps the names, a pure rename
    keeps the numbers); merging, splitting or re-assigning contexts changes both."""
    W = proto.Machine(F, alpha.CorrectionStream("w"), "w")
    by_discr = _dfa(W, entry, _relabel)
    W = proto.Machine(F, alpha.CorrectionStream("w"), "w")
    by_name = _dfa(W, entry, _relabel_by_name)
    return {"by_discr": by_discr, "by_name": by_name}


def _dfa(M, entry, relabel=lambda l: l):
    n, tr, acc = lts.explore(M, entry, relabel)
    rows = lts.canonical_dfa(n, tr, acc)
    return [[i, a, [[l, t] for l, t in out]] for i, a, out in rows]


# functions whose behaviour is decided exactly (all shapes the rule understands denote the same function) by another rule;
# keeping them in the shape-sensitive signatures would only add alarms on behaviour-preserving rewrites
DECIDED_ELSEWHERE = {
    P + "bit_writer::BitWriter::pad": "C07/W6 decides the padding replay exactly for the loop and the masked-write shape",
}


def pure_leaves(F):
    roots = F.roots_for(RECON)
    par = F.reach(roots)
    defs = {F.inst(i)["def"] for i in par if F.inst(i)["local"] and F.inst(i)["kind"] == "item" and F.inst(i)["def"] in F.bodies}
    # closures written inside those functions are part of them
    defs |= {k for k in F.bodies if "::{closure#" in k and k.split("::{closure#")[0] in defs}
    defs = sorted(defs)
    cand = {}
    for d in defs:
        b = F.bodies[d]
        if closed.has_loop(b) or not RET_OK.match(b.local_ty(0)) or "{closure#" in d:
            continue            # closures are pieces of their parent: they go into the signatures, not into closed forms
        ok = True
        locs = set()
        for bb, t in b.calls():
            n = strip_generics(callee_def(t))
            c = t["callee"]
            lc = c.get("resolved") if c.get("rlocal") else (c.get("def") if c.get("local") else None)
            if lc:
                locs.add(lc)
            elif not PURE.search(n):
                ok = False
        # assertion machinery (debug_assert etc.) disqualifies nothing, but panicking calls were filtered by PURE above
        if ok:
            cand[d] = locs
    changed = True
    while changed:
        changed = False
        for d in list(cand):
            if any(l not in cand for l in cand[d]):
                del cand[d]
                changed = True
    return sorted(cand), par, defs


def rejections_rule(ctx, rep, rule):
    """Shared with C02 / C08: the reconstruction path constructs no more error results of its own than the reference tree
    (reference/format_surface.json, stream.rejections).  A new one — a plausibility check on a decoded count, a sanity limit —
    refuses corrections the analysis produced for a stream it accepted."""
    from .. import err as _err
    F = ctx.lib
    ref = json.load(open(REF)) if os.path.exists(REF) else None
    if not ref or "rejections" not in ref.get("stream", {}):
        rep.missing(rule, "reference/format_surface.json: stream.rejections")
        return
    leaves, par, defs = pure_leaves(F)
    per = {d.replace(P, ""): len(_err.error_constructions(F, F.bodies[d])) for d in defs if d in F.bodies}
    cur = sum(per.values())
    rep.add(rule, "no-new-rejection-on-the-reconstruction-path", cur <= ref["stream"]["rejections"], "",
            "%d error results constructed by reconstruction-path functions (reference %d): %s" % (cur, ref["stream"]["rejections"], {k: v for k, v in sorted(per.items()) if v}))
    # the decisions that lead there: a guard in front of an existing `Err` arm refuses more without constructing more
    if "rejection_edges" not in ref["stream"]:
        rep.missing(rule, "reference/format_surface.json: stream.rejection_edges")
        return
    pe = {d.replace(P, ""): len(_err.rejection_edges(F, F.bodies[d])) for d in defs if d in F.bodies}
    ce = sum(pe.values())
    rep.add(rule, "no-new-refusing-decision-on-the-reconstruction-path", ce <= ref["stream"]["rejection_edges"], "",
            "%d conditional edges lead only to an error result in reconstruction-path functions (reference %d): %s" % (ce, ref["stream"]["rejection_edges"], {k: v for k, v in sorted(pe.items()) if v}))


def compute_surface(F):
    S = {"container": {}, "stream": {}}
    # ---- versions ----------------------------------------------------------------------------------
    S["versions"] = {"wrapper": F.const_int(PC + "COMPRESSED_WRAPPER_VERSION_1"), "file": F.const_int(PP + "FILE_VERSION")}
    # ---- grammars ----------------------------------------------------------------------------------
    W = proto.Machine(F, alpha.Container("w", c01.WSCOPE, F), "w")
    S["container"]["grammar:container"] = _dfa(W, PC + "expand_zlib_chunks")
    S["stream"]["grammar:correction-stream"] = _ctx_grammar(F, PC + "decompress_deflate_stream")
    S["stream"]["grammar:parameter-header"] = _ctx_grammar(F, PP + "PreflateParameters::write")
    # ---- enum discriminants ------------------------------------------------------------------------
    for en in ("statistical_codec::CodecCorrection", "statistical_codec::CodecMisprediction", "preflate_parameter_estimator::PreflateStrategy",
               "preflate_parameter_estimator::PreflateHuffStrategy", "preflate_token::BlockType", "huffman_encoding::TreeCodeType"):
        a = F.adts.get(P + en)
        if a is None:
            raise AnchorMissing("enum " + en)
        S["stream"]["enum:" + en] = sorted(v["discr"] for v in a["variants"])   # values only: renaming is silent, renumbering is not
    # ---- CABAC geometry ----------------------------------------------------------------------------
    a = F.adts.get(P + "cabac_codec::PredictionCabacContext")
    if a is None:
        raise AnchorMissing("PredictionCabacContext")
    S["stream"]["cabac-geometry"] = {f["name"]: f["ty"] for f in a["variants"][0]["fields"] if f["ty"].startswith("[")}
    # ---- named consts / statics referenced from reconstruction-reachable code -----------------------
    leaves, par, defs = pure_leaves(F)
    from .. import lazy
    LZ = lazy.lazy_statics(F)
    used = {}
    for d in defs:
        b = F.bodies[d]
        for bb in b.normal_blocks():
            items = [(s, s.get("exp")) for s in b.stmts(bb)] + [(b.term(bb), b.term(bb).get("exp"))]
            for it, exp in items:
                ms = macro_names(exp)
                in_assert = any(m in ("assert", "assert_eq", "assert_ne", "debug_assert", "debug_assert_eq", "debug_assert_ne") for m in ms)
                if not in_assert and isinstance(it, dict) and it.get("k") == "assign" and not it["p"]["p"]:
                    in_assert = _feeds_only_assert(b, it["p"]["l"])
                for k in _consts_in(it):
                    nm = None
                    vv = k.get("v") or {}
                    if isinstance(vv.get("ptr"), dict) and "static" in vv["ptr"]:
                        nm = vv["ptr"]["static"]
                    elif k.get("from") and not k.get("promoted") and k["from"] in F.consts:
                        nm = k["from"]
                    if nm and nm.startswith(P):
                        used.setdefault(nm, []).append(in_assert)
    for nm, flags in sorted(used.items()):
        if all(flags):
            continue      # constants that occur only inside assertions are not part of the format
        c = F.consts.get(nm) or F.statics.get(nm)
        if c is None:
            continue
        v = c.get("v", {})
        if "int" in v:
            val = v["int"]
        else:
            raw = c.get("bytes") or (v.get("indirect") or v.get("ptr") or v.get("slice") or {}).get("bytes")
            if not raw and nm in LZ and LZ[nm]["ok"]:
                raw = LZ[nm]["bytes"]        # LazyLock<T> around a literal: the value the initialiser returns
            val = "sha256:" + hashlib.sha256(bytes.fromhex(raw)).hexdigest()[:24] + ":len%d" % (len(raw) // 2) if raw else "opaque:" + c["ty"]
        part = "container" if nm.startswith(PC) and nm.split("::")[-1] in ("LITERAL_CHUNK", "DEFLATE_STREAM", "PNG_COMPRESSED", "COMPRESSED_WRAPPER_VERSION_1") else "stream"
        if nm.split("::")[-1] in ("COMPRESSED_WRAPPER_VERSION_1", "FILE_VERSION"):
            continue
        # keyed by VALUE, not by name: renaming a constant, or giving a literal a name, changes nothing that is stored
        if isinstance(val, int):
            S[part].setdefault("scalars", {})[str(val)] = sorted(set(S[part].get("scalars", {}).get(str(val), []) + [nm.replace(P, "")]))
        elif str(val).startswith("sha256:"):
            S[part].setdefault("tables", {}).setdefault(val, []).append(nm.replace(P, ""))
        else:
            S[part].setdefault("opaque-constants", {}).setdefault(val, []).append(nm.replace(P, ""))
    # ---- decision thresholds of the looping functions (V4) ------------------------------------------------
    sig_fns = [d for d in defs if d not in leaves and d not in DECIDED_ELSEWHERE]
    S["stream"]["thresholds"] = thresholds(F, sig_fns)
    S["stream"]["arith"] = arith(F, sig_fns)
    S["stream"]["skeleton"] = skeleton(F, sig_fns)
    S["stream"]["literals"] = literals(F, sig_fns)
    # ---- what the reader of stored data refuses ---------------------------------------------------------------
    from .. import err as _err
    S["stream"]["rejections"] = sum(len(_err.error_constructions(F, F.bodies[d])) for d in defs if d in F.bodies)
    S["stream"]["rejection_edges"] = sum(len(_err.rejection_edges(F, F.bodies[d])) for d in defs if d in F.bodies)
    # ---- closed forms -------------------------------------------------------------------------------
    for d in leaves:
        try:
            cf = closed.closed_form(F, F.bodies[d])
            S["stream"]["fn:" + d.replace(P, "")] = [[c, v] for c, v in cf]
        except closed.NotClosed as e:
            S["stream"]["fn:" + d.replace(P, "")] = "UNRECOGNISED-IDIOM: %s" % e
    return S


def _feeds_only_assert(b, local, depth=0):
    """The value only feeds comparisons whose outcome selects between continuing and an assertion failure, or the
    formatting machinery (logging / messages): it cannot influence what is reconstructed."""
    if depth > 6:
        return False
    us = flow.uses(b, local)
    if not us:
        return False
    for u in us:
        if u[0] == "stmt":
            s = u[3]
            r = s["r"]
            if s["k"] == "assign" and not s["p"]["p"] and (r["k"] in ("use", "ref", "cast") or r["k"] == "binop" or (r["k"] == "unop" and r["op"] == "Not")
                                                       or (r["k"] == "agg" and r.get("ak") in ("array", "tuple") and depth > 0)):
                if not _feeds_only_assert(b, s["p"]["l"], depth + 1):
                    return False
            elif s["k"] in ("storage", "storage_live", "storage_dead", "nop"):
                continue
            else:
                return False
        else:
            t = u[2]
            if t["k"] == "call" and re.search(r"core::fmt::rt::Argument|fmt::Arguments|std::fmt::Arguments", callee_def(t)):
                continue
            if t["k"] == "call" and re.search(r"(with_capacity|reserve|reserve_exact|with_capacity_in)$", strip_generics(callee_def(t))):
                continue                      # a capacity hint: no observable effect
            if t["k"] == "drop":
                continue
            if t["k"] == "assert" and t.get("msg") != "BoundsCheck":
                continue                      # the compiler's overflow check on the value itself
            if t["k"] != "switch":
                return False
            tg = [x for _, x in t["targets"]] + [t["otherwise"]]
            if not any(_panics(b, x) for x in tg):
                return False
    return True


def _panics(b, bb, hops=0):
    """Block leads straight into a diverging panic call."""
    t = b.term(bb)
    if t["k"] == "call":
        n = strip_generics(callee_def(t))
        if t.get("t") is None and re.search(r"panicking::|panic", n):
            return True
        if hops < 6 and t.get("t") is not None and ("fmt::" in n or "Arguments" in n or "Option::" in n):
            return _panics(b, t["t"], hops + 1)
        return False
    if t["k"] == "goto" and hops < 6:
        return _panics(b, t["t"], hops + 1)
    return False


_LOGGING = re.compile(r"^(std::io::_print|std::io::_eprint|core::fmt::|std::fmt::|alloc::fmt::format|std::io::stdio::|<.* as (core|std)::fmt::(Display|Debug|LowerHex|UpperHex)>::fmt)")


def _only_logs(b, x, y):
    """The two outcomes x / y of a test differ only in formatting / printing: the blocks exclusive to either side contain
    nothing else and both sides meet again."""
    if x == y:
        return False
    rx, ry = b.reachable_from(x), b.reachable_from(y)
    region = (rx - ry) | (ry - rx)
    if not region or len(region) > 60 or not (rx & ry):
        return False
    if not any(b.term(r)["k"] == "call" for r in region):
        return False
    for r in region:
        t = b.term(r)
        if t["k"] == "return":
            return False
        if t["k"] == "call":
            n = callee_def(t)
            if not (_LOGGING.search(n) or re.search(r"fmt::Arguments|fmt::rt::Argument|Arguments::<'_>::new", n)):
                # pure getters used as print arguments are fine when their value goes nowhere else
                dl = t.get("dest", {}).get("l")
                if dl is None or not _feeds_only_assert(b, dl):
                    return False
        elif t["k"] not in ("goto", "switch", "assert", "drop"):
            return False
    return True


def _op_ty(b, op):
    """Type of the value an operand denotes, through derefs of references."""
    xp = op_place(op)
    if xp is None:
        k = op_const(op)
        return k.get("ty", "?") if isinstance(k, dict) else "?"
    ty = flow.strip_lifetimes(b.local_ty(xp["l"]))
    for e in xp["p"]:
        if e == "*":
            ty = re.sub(r"^&(mut )?", "", ty)
        else:
            return "?"
    return ty


def _cmp_statements(b):
    """Comparisons that are part of the algorithm: every `x op y` value, whether it is branched on at once, returned from a
    closure (`take_while(|v| v == 0)`) or combined first; not those of assertions and logging."""
    out = []
    for sb in sorted(b.normal_blocks()):
        for st in b.stmts(sb):
            if st.get("k") != "assign" or st["r"].get("k") != "binop" or st["r"]["op"] not in ("Lt", "Le", "Gt", "Ge", "Eq", "Ne"):
                continue
            if any(m in _ASSERT_MACROS for m in macro_names(st.get("exp"))):
                continue
            if not st["p"]["p"] and _feeds_only_assert(b, st["p"]["l"]):
                continue
            if not st["p"]["p"]:
                us0 = flow.uses(b, st["p"]["l"])
                if us0 and all(u[0] != "stmt" and u[2]["k"] == "assert" for u in us0):
                    continue            # the compiler's own bounds / overflow check
            if not st["p"]["p"]:
                # `if cond { println!(..) }`
                us = flow.uses(b, st["p"]["l"])
                sw = [u[2] for u in us if u[0] != "stmt" and u[2]["k"] == "switch"]
                if sw and len(us) == len(sw) and all(len(t["targets"]) == 1 and (_only_logs(b, t["targets"][0][1], t["otherwise"]) or _only_logs(b, t["otherwise"], t["targets"][0][1])) for t in sw):
                    continue
            out.append((sb, st))
    return out


def thresholds(F, fns):
    """Global multiset of normalised `value vs constant` decisions in the given (looping) functions.
    A comparison of an unsigned value X with a constant K is a cut of X's domain: X < K, X <= K-1, !(X >= K) ... all
    normalise to ("cut", K) (the boundary between the two outcomes); X == K / X != K to ("eq", K), except against 0
    where they are the cut at 1.  Variable names, branch polarity, the function (or closure) the test lives in and whether
    the outcome is branched on at once or handed to an iterator adaptor do not matter."""
    from collections import Counter
    cnt = Counter()
    for d in fns:
        b = F.bodies[d]
        for sb, st0 in _cmp_statements(b):
            r = st0["r"]
            kl, kr = flow.const_eval(b, r["l"]), flow.const_eval(b, r["r"])
            if (kl is None) == (kr is None):
                continue
            op = r["op"]
            if kl is not None:      # K op X  ->  X op' K
                op = {"Lt": "Gt", "Le": "Ge", "Gt": "Lt", "Ge": "Le"}.get(op, op)
                k, xop = kl, r["r"]
            else:
                k, xop = kr, r["l"]
            ty = _op_ty(b, xop)
            unsigned = ty.startswith("u")
            if op in ("Lt", "Ge"):
                atom = ("cut", k)
            elif op in ("Le", "Gt"):
                atom = ("cut", k + 1)
            elif k == 0 and unsigned:
                atom = ("cut", 1)
            else:
                atom = ("eq", k)
            cnt[(ty,) + atom] += 1
        # `(lo..=hi).contains(&x)` / `(lo..hi).contains(&x)` with constant bounds: the two cuts a `match` on the same ranges makes
        for cb, ct in b.calls():
            cn = strip_generics(callee_def(ct))
            mm = re.search(r"ops::(RangeInclusive|Range)::contains$", cn)
            if not mm or not ct["args"]:
                continue
            cur = ct["args"][0]
            k = None
            for _ in range(5):
                k = op_const(cur) if isinstance(cur, dict) and "k" in cur else None
                if k is not None:
                    break
                pp = op_place(cur) if isinstance(cur, dict) and ("c" in cur or "m" in cur) else cur
                dd0 = b.single_def(pp["l"]) if pp is not None else None
                if not dd0 or dd0[2] != "assign":
                    break
                cur = dd0[3]["op"] if dd0[3]["k"] in ("use", "cast") else (dd0[3]["place"] if dd0[3]["k"] == "ref" else None)
                if cur is None:
                    break
            tyk = (k or {}).get("ty", "")
            mt = re.match(r"^&?std::ops::(RangeInclusive|Range)<([ui])(8|16|32|64|size)>$", tyk)
            raw = (((k or {}).get("v") or {}).get("ptr") or {}).get("bytes") if isinstance((k or {}).get("v"), dict) else None
            if mt and raw:
                sz = {"8": 1, "16": 2, "32": 4, "64": 8, "size": 8}[mt.group(3)]
                bs = bytes.fromhex(raw)
                lo = int.from_bytes(bs[0:sz], "little", signed=(mt.group(2) == "i"))
                hi = int.from_bytes(bs[sz:2 * sz], "little", signed=(mt.group(2) == "i"))
                ty = mt.group(2) + mt.group(3)
                cnt[(ty, "cut", lo)] += 1
                cnt[(ty, "cut", hi + 1 if mt.group(1) == "RangeInclusive" else hi)] += 1
        for sb in sorted(b.normal_blocks()):
            st = b.term(sb)
            if st["k"] != "switch":
                continue
            tg = [x for _, x in st["targets"]] + [st["otherwise"]]
            if any(_panics(b, x) for x in tg):
                continue
            dp = op_place(st["d"])
            if dp is None:
                continue
            dd = b.single_def(dp["l"]) if not dp["p"] else None
            if dd and dd[2] == "assign" and dd[3]["k"] == "binop":
                continue
            if len(st["targets"]) >= 2 and not (dd and dd[2] == "assign" and dd[3]["k"] == "discr"):
                ty = st.get("dty", "?")
                if re.match(r"^[ui](8|16|32|64|size)$", ty):
                    cnt[(ty, "switch", tuple(sorted(v for v, _ in st["targets"])))] += 1
            elif len(st["targets"]) == 1 and not (dd and dd[2] == "assign" and dd[3]["k"] == "discr") and re.match(r"^[ui](8|16|32|64|size)$", st.get("dty", "?")):
                # `match x { K => .., _ => .. }` decides what `x == K` decides
                ty, k = st["dty"], st["targets"][0][0]
                cnt[(ty,) + (("cut", 1) if k == 0 and ty.startswith("u") else ("eq", k))] += 1
    return [[list(k), v] for k, v in sorted(cnt.items(), key=lambda kv: repr(kv[0]))]


_NUM_METHODS = re.compile(r"(?:^|::)(wrapping_mul|wrapping_add|wrapping_sub|wrapping_shl|wrapping_shr|rotate_left|rotate_right|pow|"
                          r"saturating_add|saturating_sub|saturating_mul|checked_add|checked_sub|checked_mul|checked_shl|checked_shr|"
                          r"overflowing_add|overflowing_sub|overflowing_mul|min|max|clamp|trailing_zeros|leading_zeros|swap_bytes|reverse_bits)$")
_ASSERT_MACROS = ("assert", "assert_eq", "assert_ne", "debug_assert", "debug_assert_eq", "debug_assert_ne")


def _in_loop(b, bb):
    c = getattr(b, "_in_loop_cache", None)
    if c is None:
        c = b._in_loop_cache = {}
    if bb not in c:
        c[bb] = any(bb in b.reachable_from(s2) for s2 in b.succ(bb))
    return c[bb]


def _self_update(b, s, xp, bb=None):
    """`x = x + 1` / `x -= 1` inside a loop (the counter idiom): the result of the operation is stored back into its own operand.
    Outside a loop `n -= 1` adjusts a value once - format arithmetic like `n - 1` written anywhere else."""
    if xp is None or xp["p"] or s["p"]["p"]:
        return False
    if bb is not None and not _in_loop(b, bb):
        return False
    t, x = s["p"]["l"], xp["l"]
    if t == x:
        return True
    for bb in b.normal_blocks():
        for s2 in b.stmts(bb):
            if s2.get("k") == "assign" and s2["r"].get("k") == "use" and not s2["p"]["p"] and s2["p"]["l"] == x:
                p = op_place(s2["r"]["op"])
                if p is not None and p["l"] == t:
                    return True
    return False


def arith(F, fns):
    """Global multiset of `value op constant` computations in the given functions (everything on the reconstruction path
    that has no closed form): shifts, masks, multipliers, divisors, offsets — the arithmetic of hash functions, bit packing
    and length/offset conversions.  Canonical: constant on either side of a commutative operator; x*2^k = x<<k,
    x/2^k = x>>k, x%2^k = x&(2^k-1) for unsigned x; integer-method calls with a constant argument (wrapping_mul(K),
    rotate_left(K), min(K) ...) count like operators.  Not counted: x = x + 1 / x = x - 1 stored back into x (the counter idiom, which a rewrite into an
    iterator removes without changing behaviour), anything that only feeds an assertion, compiler-inserted checks."""
    from collections import Counter
    cnt = Counter()
    for d in fns:
        b = F.bodies[d]
        for bb in sorted(b.normal_blocks()):
            for s in b.stmts(bb):
                if s.get("k") != "assign" or s["r"].get("k") != "binop":
                    continue
                r = s["r"]
                op = r["op"].replace("WithOverflow", "").replace("Unchecked", "")
                if op not in ("Add", "Sub", "Mul", "Div", "Rem", "Shl", "Shr", "BitAnd", "BitOr", "BitXor"):
                    continue
                if any(m in _ASSERT_MACROS for m in macro_names(s.get("exp"))):
                    continue
                if not s["p"]["p"] and _feeds_only_assert(b, s["p"]["l"]):
                    continue
                kl, kr = flow.const_eval(b, r["l"]), flow.const_eval(b, r["r"])
                if (kl is None) == (kr is None):
                    continue
                if kl is not None and op not in ("Add", "Mul", "BitAnd", "BitOr", "BitXor"):
                    atom = ("K" + op, kl)            # constant on the left of a non-commutative operator: K - x, K >> x, K / x
                else:
                    k = kr if kr is not None else kl
                    xp = op_place(r["l"] if kr is not None else r["r"])
                    ty = b.local_ty(xp["l"]) if xp is not None and not xp["p"] else "?"
                    pow2 = k > 0 and (k & (k - 1)) == 0
                    if op == "Mul" and pow2:
                        op, k = "Shl", k.bit_length() - 1
                    elif op == "Div" and pow2 and ty.startswith("u"):
                        op, k = "Shr", k.bit_length() - 1
                    elif op == "Rem" and pow2 and ty.startswith("u"):
                        op, k = "BitAnd", k - 1
                    if op in ("Add", "Sub") and (k == 0 or (k == 1 and _self_update(b, s, xp, bb))):
                        continue
                    if op in ("Shl", "Shr", "BitOr", "BitXor") and k == 0:
                        continue
                    atom = (op, k)
                cnt[atom] += 1
            t = b.term(bb)
            if t["k"] == "call":
                n = strip_generics(callee_def(t))
                if re.search(r"Iterator::take$", n) and len(t["args"]) == 2 and flow.const_eval(b, t["args"][1]) is not None:
                    cnt[("min", flow.const_eval(b, t["args"][1]))] += 1          # at most K elements: the iterator form of min(len, K)
                m = _NUM_METHODS.search(n)
                if m and re.search(r"(^|::)(core|std)::|num::|cmp::", n) and not any(x in _ASSERT_MACROS for x in macro_names(t.get("exp"))):
                    ks = [flow.const_eval(b, a) for a in t["args"]]
                    ks = [k for k in ks if k is not None]
                    if ks and len(ks) < len(t["args"]):
                        cnt[(m.group(1),) + tuple(ks)] += 1
    return [[list(k), v] for k, v in sorted(cnt.items(), key=lambda kv: repr(kv[0]))]


_HINT = re.compile(r"(with_capacity|reserve|reserve_exact|shrink_to|with_capacity_in)$")


def literals(F, fns):
    """Global multiset of integer constants (value >= 2 or negative) used as plain values in the given functions: assigned,
    stored into a field or an aggregate, passed to a call, selected as one arm of a conditional value.  `arith` sees
    constants next to an operator and `thresholds` constants in comparisons; this sees the rest — a chain-length bound
    passed as a literal instead of the stored parameter, a symbol number substituted for a computed one.  Keyed by value
    only.  Not counted: arguments of capacity hints, formatting and assertions, integer-method calls already in `arith`,
    values that only feed an assertion, 0 and 1 (initialisers, flags, steps)."""
    from collections import Counter
    cnt = Counter()

    def lit(op):
        k = op_const(op)
        if k is None or not isinstance(k, dict) or "ty" not in k or k["ty"] in ("bool", "char") or not re.match(r"^[ui](8|16|32|64|128|size)$", k["ty"]):
            return None
        v = const_int(k)
        return v if v is not None and (v >= 2 or v < 0) else None
    for d in fns:
        b = F.bodies[d]
        for bb in sorted(b.normal_blocks()):
            for st in b.stmts(bb):
                if st.get("k") != "assign" or any(m in _ASSERT_MACROS for m in macro_names(st.get("exp"))):
                    continue
                r = st["r"]
                ops = [r["op"]] if r.get("k") in ("use", "cast") else (r.get("ops", []) if r.get("k") == "agg" else [])
                if not ops:
                    continue
                if r.get("k") == "agg" and r.get("ak") == "array" and all(op_const(o) is not None for o in ops):
                    continue            # a literal table: compared by content under `tables` (also behind a LazyLock)
                if not st["p"]["p"] and _feeds_only_assert(b, st["p"]["l"]):
                    continue
                for o in ops:
                    v = lit(o)
                    if v is not None:
                        cnt[v] += 1
            t = b.term(bb)
            if t["k"] == "call" and not any(x in _ASSERT_MACROS for x in macro_names(t.get("exp"))):
                n = strip_generics(callee_def(t))
                if _LOGGING.search(n) or _HINT.search(n) or re.search(r"core::fmt::rt::|fmt::Arguments", n) or _panics(b, bb):
                    continue
                if _NUM_METHODS.search(n) and re.search(r"(^|::)(core|std)::|num::|cmp::", n):
                    continue
                if re.search(r"Iterator::take$", n):
                    continue            # counted by `arith` as min(K)
                for a in t["args"]:
                    v = lit(a)
                    if v is not None:
                        cnt[v] += 1
    return [[k, v] for k, v in sorted(cnt.items())]


_CORE = re.compile(r"^(<)?preflate_rs::(tree_predictor|token_predictor|hash_chain_holder|hash_chain|huffman_calc|add_policy_estimator|process)::")


def skeleton(F, fns):
    """Decision / indexing skeleton of the predictor core (the code that turns stored corrections back into tokens and trees
    and that no same-build test can hold to its past behaviour): global multiset of
      ("cmp", eq|ord, operand type)   every two-way decision on a comparison, constant or not (panics and logging excluded),
      ("slice", Range|RangeFrom|...)  every slicing by a range, ("at", 1) every element access by index.
    Global, not per function, and without calls: moving code between functions, extracting or inlining helpers, renaming and
    reordering leave it unchanged.  Rewriting a loop or a condition so that the *number or kind* of decisions or slice
    operations changes is reported — these functions define the stored format (⚠, DESIGN §8.8)."""
    from collections import Counter
    cnt = Counter()
    for d in fns:
        if not _CORE.match(d):
            continue
        b = F.bodies[d]
        for _sb, st0 in _cmp_statements(b):
            r = st0["r"]
            ty = _op_ty(b, r["l"])
            if ty == "?":
                ty = _op_ty(b, r["r"])
            if ty in ("usize", "?") and r["op"] not in ("Eq", "Ne"):
                continue        # position / loop-bound comparisons: an index loop and its iterator form differ in these only
            cnt[("cmp", "eq" if r["op"] in ("Eq", "Ne") else "ord", ty)] += 1
        # `match x { K => .., _ => .. }` on an integer is the equality test `x == K`
        for sb in sorted(b.normal_blocks()):
            st = b.term(sb)
            if st["k"] == "switch" and len(st["targets"]) == 1 and re.match(r"^[ui](8|16|32|64|128)$", st.get("dty", "?")):
                dp = op_place(st["d"])
                dd = b.single_def(dp["l"]) if dp is not None and not dp["p"] else None
                if dd and dd[2] == "assign" and dd[3]["k"] in ("discr", "binop"):
                    continue
                if any(_panics(b, x) for x in [st["targets"][0][1], st["otherwise"]]):
                    continue
                cnt[("cmp", "eq", st["dty"])] += 1
        # decisions taken directly on a boolean field (`if self.params.zlib_compatible { .. }`): which flag
        for sb in sorted(b.normal_blocks()):
            st = b.term(sb)
            if st["k"] != "switch" or len(st["targets"]) != 1:
                continue
            tg = [st["targets"][0][1], st["otherwise"]]
            if any(_panics(b, x) for x in tg) or _only_logs(b, tg[0], tg[1]) or _only_logs(b, tg[1], tg[0]):
                continue
            dp = op_place(st["d"])
            # the tested value may be `a && flag` (two definitions: the flag, and the constant of the short circuit)
            work, seen_l, found = [dp], set(), set()
            while work:
                cur = work.pop()
                if cur is None:
                    continue
                if cur["p"]:
                    names = [e.get("n") for e in cur["p"] if isinstance(e, dict) and e.get("n")]
                    if names and not names[-1].isdigit():
                        found.add(".".join(names[-2:]))
                    continue
                if cur["l"] in seen_l or len(seen_l) > 8:
                    continue
                seen_l.add(cur["l"])
                for dd in b.defs(cur["l"]):
                    if dd[2] != "assign":
                        continue
                    if dd[3]["k"] in ("use", "cast"):
                        work.append(op_place(dd[3]["op"]))
                    elif dd[3]["k"] == "unop" and dd[3]["op"] == "Not":
                        work.append(op_place(dd[3]["a"]))
            for nm in sorted(found):
                cnt[("flag", nm)] += 1
        for sb in sorted(b.normal_blocks()):
            st = b.term(sb)
            if False:
                pass
            elif st["k"] == "call":
                n = strip_generics(callee_def(st))
                if re.search(r"cmp::PartialEq::(eq|ne)$", n) and len(st["args"]) == 2:
                    # `a == b` on references (closure parameters of iterator adaptors) compiles to a call
                    ap = op_place(st["args"][0])
                    ty = re.sub(r"^(&(mut )?)+", "", flow.strip_lifetimes(b.local_ty(ap["l"]))) if ap is not None and not ap["p"] else "?"
                    if re.match(r"^[ui](8|16|32|64|128|size)$|^bool$", ty):
                        cnt[("cmp", "eq", ty)] += 1
                if re.search(r"cmp::Ord::cmp$", n) and len(st["args"]) == 2:
                    # a three-way `match a.cmp(&b)` decides what `a >= b` followed by `a == b` decides
                    ap = op_place(st["args"][0])
                    ty = re.sub(r"^(&(mut )?)+", "", flow.strip_lifetimes(b.local_ty(ap["l"]))) if ap is not None and not ap["p"] else "?"
                    if re.match(r"^[ui](8|16|32|64|128)$", ty):
                        cnt[("cmp", "eq", ty)] += 1
                        cnt[("cmp", "ord", ty)] += 1
                if re.search(r"ops::Index(Mut)?>?::index(_mut)?$|ops::index::Index(Mut)?::index(_mut)?$", n) and len(st["args"]) == 2:
                    ap = op_place(st["args"][1])
                    ty = b.local_ty(ap["l"]) if ap is not None and not ap["p"] else ""
                    m = re.search(r"ops::(RangeInclusive|RangeToInclusive|RangeFrom|RangeTo|RangeFull|Range)\b", ty)
                    if os.environ.get("PFA_SKELETON_ACCESS") == "1":
                        cnt[("slice", m.group(1) if m else "index")] += 1
            for s in b.stmts(sb):
                if s.get("k") != "assign":
                    continue
                # constant stores into the predictor's own state: which field, and whether on every successful path
                if s["p"]["l"] == 1 and s["p"]["p"] and b.argc >= 1:
                    names = [e.get("n") for e in s["p"]["p"] if isinstance(e, dict) and e.get("n")]
                    v = flow.describe_rvalue(b, s["r"], names=False)
                    if names and (re.match(r"^K-?\d+$", v) or v.startswith("None")):
                        from .. import err as _err
                        prods = [pb for pb, _ in _err.result_producers(b, F)] or [x for x in b.normal_blocks() if b.term(x)["k"] == "return"]
                        always = all(b.dominates(sb, pb) for pb in prods)
                        cnt[("reset", ".".join(names), v, "always" if always else "conditional")] += 1
                places = [s["p"]]
                r = s["r"]
                for key in ("op", "l", "r", "place"):
                    o = r.get(key)
                    pp = op_place(o) if isinstance(o, dict) and ("c" in o or "m" in o) else (o if isinstance(o, dict) and "l" in o and "p" in o else None)
                    if pp is not None:
                        places.append(pp)
                for pl in places:
                    if any(isinstance(e, dict) and "i" in e for e in pl["p"]) and os.environ.get("PFA_SKELETON_ACCESS") == "1":
                        cnt[("at", 1)] += 1
    return [[list(k), v] for k, v in sorted(cnt.items(), key=lambda kv: repr(kv[0]))]


def _consts_in(j):
    if isinstance(j, dict):
        if "k" in j and isinstance(j["k"], dict) and "ty" in j["k"]:
            yield j["k"]
            return
        for v in j.values():
            yield from _consts_in(v)
    elif isinstance(j, list):
        for v in j:
            yield from _consts_in(v)


def v1(F, rep):
    # container gate
    r = F.body(PC + "recreated_zlib_chunks")
    where = "%s:%s" % (r.file, r.line)
    kv = F.const_int(PC + "COMPRESSED_WRAPPER_VERSION_1")
    gate = None
    for sb in sorted(r.normal_blocks()):
        st = r.term(sb)
        m = re.match(r"^(Ne|Eq)\(var\(version\), K%d\)$" % kv, flow.describe(r, st["d"], names=True) or "") if st["k"] == "switch" else None
        if m:
            f = [x for v, x in st["targets"] if v == 0]
            # (block, edge taken when the version matches, edge taken when it does not) — written as != or ==
            gate = (sb, f[0] if f else None, st["otherwise"]) if m.group(1) == "Ne" else (sb, st["otherwise"], f[0] if f else None)
    ok = False
    if gate and gate[1] is not None:
        from .guard import _leads_only_to_err
        loops = [bb for bb, t in r.calls() if strip_generics(callee_def(t)).endswith("read_chunk_block")]
        ok = bool(loops) and gate[2] is not None and all(r.edge_dominates(gate[0], gate[1], x) for x in loops) and _leads_only_to_err(F, r, gate[2])
    rep.add("V1", "wrapper-version-gate", ok, where, "`version != %d` fails into Err and its pass edge dominates every read_chunk_block call" % kv)
    ver = flow.describe(r, {"l": r.locals_named("version")[0], "p": []}) if r.locals_named("version") else ""
    rep.add("V1", "wrapper-version-is-first-byte", "read_u8" in ver, where, "version := %s" % ver[:80])
    # stream gate: the first decode of read() is the version and the success edge of its comparison dominates every other decode
    rd = F.body(PP + "PreflateParameters::read")
    where = "%s:%s" % (rd.file, rd.line)
    decs = sorted([(bb, t) for bb, t in rd.calls() if t["callee"].get("trait") == P + "statistical_codec::PredictionDecoder"], key=lambda x: len(rd.dominators().get(x[0], ())))
    fv = F.const_int(PP + "FILE_VERSION")
    ok = False
    if decs:
        first = decs[0]
        cmpsw = None
        for sb in sorted(rd.normal_blocks()):
            st = rd.term(sb)
            if st["k"] == "switch":
                d = flow.describe(rd, st["d"])
                if "decode_value" in d and re.search(r"\bK%d\b" % fv, d) and ("Eq(" in d or "Ne(" in d) and rd.dominates(first[0], sb):
                    cmpsw = (sb, st)
                    break
        if cmpsw:
            sb, st = cmpsw
            f = [x for v, x in st["targets"] if v == 0]
            for pass_edge in ([st["otherwise"]] + f):
                if all(rd.edge_dominates(sb, pass_edge, bb) for bb, _ in decs[1:]):
                    ok = True
    rep.add("V1", "file-version-gate", ok, where, "the first decoded value is compared with FILE_VERSION=%d and every other field is read behind the matching edge" % fv)
    # writer side: the constants written are the gates' constants (also enforced by A1/P1 value refinement)
    w = F.body(PP + "PreflateParameters::write")
    firstw = sorted([(bb, t) for bb, t in w.calls() if t["callee"].get("trait") == P + "statistical_codec::PredictionEncoder"], key=lambda x: len(w.dominators().get(x[0], ())))[:1]
    rep.add("V1", "file-version-written-first", bool(firstw) and flow.const_eval(w, firstw[0][1]["args"][1]) == fv and flow.const_eval(w, firstw[0][1]["args"][2]) == 8, "%s:%s" % (w.file, w.line),
            "first header field is (FILE_VERSION, 8 bits)")


def run(ctx, rep):
    F = ctx.lib
    rep.explanation = ("A cross-build property reduced to what one tree can be held to: the version gates are live, and the format surface "
                       "extracted from the working tree (canonical minimal DFAs of the three stored grammars over discriminant-valued labels, enum "
                       "discriminants, CABAC geometry, every named constant/table the reconstruction path references, canonical closed forms of its "
                       "pure loop-free leaf functions) equals the frozen reference of the pinned release + recorded fixes unless a version constant "
                       "changed. Catches silent, symmetric changes (enum reorder, hash constant, tie-break operator, tag value, header field) that "
                       "every same-build round-trip test passes. Looping prediction code is represented by the multiset of its decision thresholds (constants compared against, with the comparison operator) rather than by closed forms.")
    rep.trusted = ["reference/format_surface.json was frozen from the pinned tree plus the recorded fix: commits and is never rewritten at run time"]
    v1(F, rep)
    if not os.path.exists(REF):
        rep.missing("V2", "reference/format_surface.json")
        return
    ref = json.load(open(REF))
    cur = json.loads(json.dumps(compute_surface(F)))
    changed_gate = {g: cur["versions"][g] != ref["versions"][g] for g in ("wrapper", "file")}
    for g in ("wrapper", "file"):
        if changed_gate[g]:
            rep.note("version constant `%s` changed %s -> %s: differences in its part of the surface are announced changes" % (g, ref["versions"][g], cur["versions"][g]))
        rep.add("V2", "version:" + g, True, "", "reference %s, working tree %s%s" % (ref["versions"][g], cur["versions"][g], " (CHANGED: announced format change)" if changed_gate[g] else ""))
    n = 0
    for part in ("container", "stream"):
        announced = changed_gate[GATE[part]]
        keys = sorted(set(ref.get(part, {})) | set(cur.get(part, {})))
        for k in keys:
            n += 1
            rv, cv = ref.get(part, {}).get(k), cur.get(part, {}).get(k)
            rule = "V3" if k.startswith("fn:") else "V2"
            if rv is None and k.startswith("fn:<"):
                # a derived impl (PartialEq, Clone ...) of a new private type: what it is used for shows in its users
                fb = F.bodies.get(P + k[4:]) or F.bodies.get(k[3:].replace("fn:", "")) or F.bodies.get("<" + P + k[4:])
                if fb is not None and any(x in ("PartialEq", "Eq", "Clone", "Copy", "Debug", "Default", "PartialOrd", "Ord", "Hash") for x in (fb.j.get("exp") or [])):
                    n -= 1
                    continue
            if isinstance(cv, str) and cv.startswith("UNRECOGNISED-IDIOM"):
                rep.add(rule, "UNRECOGNISED-IDIOM:" + k, False, "", cv)
                continue
            same = rv == cv
            if isinstance(rv, dict) and isinstance(cv, dict) and set(rv) == set(cv) == {"by_discr", "by_name"}:
                same = rv["by_discr"] == cv["by_discr"] or rv["by_name"] == cv["by_name"]
            if k in ("scalars", "tables", "opaque-constants") and isinstance(rv, dict) and isinstance(cv, dict):
                # compared by value only; the names are carried along for the report
                same = sorted(rv) == sorted(cv)
                if not same and k == "scalars":
                    # naming a literal (or writing a named constant out) changes nothing: a value that merely moves between
                    # "named scalar" and "literal" is accounted for by the literal signatures, which are compared on their own
                    def _lits(S):
                        out = set()
                        for x in S.get("thresholds", []) or []:
                            out.add(str(x[0][-1]))
                        for x in S.get("arith", []) or []:
                            out |= {str(y) for y in x[0][1:]}
                        for x in S.get("literals", []) or []:
                            out.add(str(x[0]))
                        # constants inside the closed forms of the leaf functions (compared on their own as `fn:` items)
                        for kk, vv in S.items():
                            if kk.startswith("fn:"):
                                out |= set(re.findall(r"(?<![\w.])\d+(?![\w.])", json.dumps(vv)))
                        return out
                    rl, cl = _lits(ref.get(part, {})), _lits(cur.get(part, {}))
                    gone = {x: rv[x] for x in rv if x not in cv and x not in cl}
                    new = {x: cv[x] for x in cv if x not in rv and x not in rl}
                    same = not gone and not new
                    if not same:
                        rv, cv = "values no longer referenced: %s" % gone, "new values: %s" % new
                elif not same:
                    gone = {x: rv[x] for x in rv if x not in cv}
                    new = {x: cv[x] for x in cv if x not in rv}
                    rv, cv = "values no longer referenced: %s" % gone, "new values: %s" % new
            if k == "rejection_edges" and isinstance(rv, int) and isinstance(cv, int):
                same = cv <= rv
                if not same:
                    rv, cv = "%d refusing decisions on the reconstruction path" % rv, "%d: a new condition under which stored data (or an accepted analysis result) is refused" % cv
            if k == "rejections" and isinstance(rv, int) and isinstance(cv, int):
                # a rejection that disappears refuses nothing that was accepted; a new one may refuse stored data
                same = cv <= rv
                if not same:
                    rv, cv = "%d error results constructed on the reconstruction path" % rv, "%d: a new way to refuse data the reference build wrote (or an analysis result it accepted)" % cv
            if same:
                rep.add(rule, k, True, "", "equals the reference")
            elif announced:
                rep.add(rule, k, True, "", "differs from the reference, announced by the %s version change" % GATE[part])
            else:
                what = "removed from" if cv is None else ("new in" if rv is None else "changed in")
                if k in ("thresholds", "arith", "skeleton", "literals") and isinstance(rv, list) and isinstance(cv, list):
                    ra, ca = {json.dumps(a): n for a, n in rv}, {json.dumps(a): n for a, n in cv}
                    gone = ["%s x%d" % (a, ra[a] - ca.get(a, 0)) for a in ra if ra[a] > ca.get(a, 0)]
                    new = ["%s x%d" % (a, ca[a] - ra.get(a, 0)) for a in ca if ca[a] > ra.get(a, 0)]
                    noun = {"thresholds": "decisions", "arith": "operations with a constant", "skeleton": "decision/indexing elements of the predictor core", "literals": "constants used as plain values"}[k]
                    rv, cv = "%s no longer present: %s" % (noun, gone), "new %s: %s" % (noun, new)
                rep.add(rule, k, False, "", "%s the format surface while %s is unchanged: stored data of the reference build would be interpreted differently. reference=%s current=%s" % (
                    what, {"wrapper": "COMPRESSED_WRAPPER_VERSION_1", "file": "FILE_VERSION"}[GATE[part]], _short(rv), _short(cv)))
    rep.floor("V2", "surface-items", n, 50)
    rep.stats["surface"] = {"items": n, "closed_forms": sum(1 for k in cur["stream"] if k.startswith("fn:")), "consts": sum(1 for p in ("container", "stream") for k in cur[p] if k.startswith("const:"))}


def _short(v):
    s = json.dumps(v)
    return s if len(s) < 300 else s[:300] + "..."
