"""C10 — the correction codec is lossless (structural pairing of encoder and decoder).

B1 the encoder and decoder halves touch the same CABAC contexts with paired primitives in the same order:
   exp-coded values = unary(ctxA) then n-bits(ctxB) with n = unary value - 1 on both sides; every caller hands the
   same pair of context arrays (indexed by the same enum argument) to both halves; fixed-width values are pure
   bypass with the caller's bit count; every encode_* flushes a pending default run before emitting anything else,
   finish() flushes before closing the writer; every decode_* refills the default run before reading a value.
B2 the context arrays are large enough for every context (MAX is the largest discriminant).
Not decided: the arithmetic of the exponent/mantissa split and the adaptive state of the arithmetic coder.
"""
import re
from .. import flow
from ..facts import op_place, callee_def
from ..common import strip_generics

CC = "preflate_rs::cabac_codec::PredictionCabacContext::<CTX>::"
WTRAIT = "cabac::traits::CabacWriter"
RTRAIT = "cabac::traits::CabacReader"


def _calls(b, pred):
    out = []
    for bb, t in b.calls():
        n = strip_generics(callee_def(t))
        if pred(n, t):
            out.append((bb, n.split("::")[-1], t))
    return out


def _tail(desc):
    """Field path part of a descriptor rooted at the context argument."""
    m = re.search(r"PredictionCabacContext<CTX>>~?\.(.*)$", desc)
    return m.group(1) if m else desc


def run(ctx, rep):
    F = ctx.lib
    rep.explanation = ("Sibling-agreement rules between the encoder and decoder halves of the CABAC correction codec, computed from "
                       "canonical origin descriptors of call arguments (which context array, indexed by what, which count operand) and "
                       "dominator queries for the default-run flush discipline. Thin but necessary: breaking any of them desynchronises "
                       "encoder and decoder for some operation sequence.")
    rep.trusted = ["cabac crate: put_unary_encoded/get_unary_encoded, put_n_bits/get_n_bits, put_bypass/get_bypass are inverse pairs "
                   "when given the same context arrays and counts"]

    def body(n):
        return F.body(CC + n)

    # ---- exp coding -------------------------------------------------------------------------
    we, re_ = body("write_exp_encoded"), body("read_exp_value")
    wc = _calls(we, lambda n, t: t["callee"].get("trait") == WTRAIT)
    rc = _calls(re_, lambda n, t: t["callee"].get("trait") == RTRAIT)
    wprof = [(m.replace("put_", ""), flow.describe(we, t["args"][-1])) for _, m, t in wc]
    rprof = [(m.replace("get_", ""), flow.describe(re_, t["args"][-1])) for _, m, t in rc]
    rep.add("B1", "exp-profile-equal", wprof == rprof and [p[0] for p in wprof] == ["unary_encoded", "n_bits"], we.where(wc[0][0]) if wc else "",
            "writer %r / reader %r" % (wprof, rprof))
    if len(wc) == 2 and len(rc) == 2:
        rep.add("B1", "exp-order-writer", we.dominates(wc[0][0], wc[1][0]), we.where(wc[1][0]), "unary part is written before the mantissa bits")
        rep.add("B1", "exp-order-reader", re_.dominates(rc[0][0], rc[1][0]), re_.where(rc[1][0]), "unary part is read before the mantissa bits")
        u_w = flow.describe(we, wc[0][2]["args"][1])
        n_w = flow.describe(we, wc[1][2]["args"][2])
        n_r = flow.describe(re_, rc[1][2]["args"][1])
        u_r = "unwrap(%s)" % ("get_unary_encoded(%s)" % ", ".join(flow.describe(re_, a) for a in rc[0][2]["args"]))
        rep.add("B1", "mantissa-width-writer", n_w in ("Sub(%s, K1).0" % u_w, "Sub(%s, K1)" % u_w), we.where(wc[1][0]), "n_bits count %s with unary value %s" % (n_w, u_w))
        rep.add("B1", "mantissa-width-reader", n_r in ("Sub(%s, K1).0" % u_r, "Sub(%s, K1)" % u_r), re_.where(rc[1][0]), "n_bits count %s with unary value %s" % (n_r, u_r))
    # ---- callers hand the same context pairs ----------------------------------------------------
    def pairs(fn_suffix, argA, argB):
        out = {}
        for name, b in F.bodies.items():
            if not name.startswith("preflate_rs::cabac_codec::"):
                continue
            for bb, t in b.calls():
                if strip_generics(callee_def(t)) == strip_generics(CC + fn_suffix):
                    a, bdesc = _tail(flow.describe(b, t["args"][argA])), _tail(flow.describe(b, t["args"][argB]))
                    out[name.split("::")[-1]] = (a, bdesc)
        return out
    wp = pairs("write_exp_encoded", 1, 2)
    rp = pairs("read_exp_value", 0, 1)
    rep.floor("B1", "exp-callers-writer", len(wp), 2)
    rep.floor("B1", "exp-callers-reader", len(rp), 2)
    sib = {"write_default": "read_default", "encode_correction": "decode_correction"}
    for w, r in sib.items():
        ok = w in wp and r in rp and wp[w] == rp[r]
        rep.add("B1", "context-pair:%s/%s" % (w, r), ok, "", "writer passes %r, reader passes %r" % (wp.get(w), rp.get(r)))
        if w in wp:
            a, b2 = wp[w]
            ia, ib = re.findall(r"\[(.*)\]", a), re.findall(r"\[(.*)\]", b2)
            rep.add("B1", "context-pair-same-index:%s" % w, ia == ib and a != b2, "", "value contexts %s, mantissa contexts %s" % (a, b2))
    rep.add("B1", "context-pair-sets-equal", sorted(wp.values()) == sorted(rp.values()), "", "writer %r reader %r" % (sorted(wp.values()), sorted(rp.values())))
    # ---- bypass ---------------------------------------------------------------------------------
    ev, dv = body("encode_value"), body("decode_value")
    wb = _calls(ev, lambda n, t: n.endswith("::write_bypass"))
    rb = _calls(dv, lambda n, t: n.endswith("::read_bypass"))
    rep.add("B1", "bypass-count-operand", len(wb) == 1 and len(rb) == 1 and flow.describe(ev, wb[0][2]["args"][1]) == "arg<u8>" == flow.describe(dv, rb[0][2]["args"][0]), "",
            "encode_value -> write_bypass(_, %s), decode_value -> read_bypass(%s)" % (flow.describe(ev, wb[0][2]["args"][1]) if wb else None, flow.describe(dv, rb[0][2]["args"][0]) if rb else None))
    for fn, trait, prim in (("write_bypass", WTRAIT, "put_bypass"), ("read_bypass", RTRAIT, "get_bypass")):
        b = body(fn)
        cs = _calls(b, lambda n, t: t["callee"].get("trait") in (WTRAIT, RTRAIT))
        if not cs:
            # the loop body may live in a closure handed to fold / for_each over the same range
            for cn, cb in sorted(F.bodies.items()):
                if cn.startswith(b.name + "::{closure#"):
                    cs = cs + _calls(cb, lambda n, t: t["callee"].get("trait") in (WTRAIT, RTRAIT))
        rng = [flow.describe(b, {"l": s["p"]["l"], "p": []}) for bb in b.normal_blocks() for s in b.stmts(bb)
               if s["k"] == "assign" and s["r"]["k"] == "agg" and s["r"].get("adt") == "std::ops::Range"]
        rep.add("B1", "bypass-loop:" + fn, [c[1] for c in cs] == [prim] and rng == ["Range{K0, arg<u8>}"], b.where(cs[0][0]) if cs else "",
                "primitive calls %r, loop range %r" % ([c[1] for c in cs], rng))
    # ---- flush discipline -------------------------------------------------------------------
    emit = lambda n, t: n.endswith(("::write_exp_encoded", "::write_bypass", "::write_default")) or t["callee"].get("trait") == WTRAIT
    for fn in ("encode_value", "encode_misprediction", "encode_correction", "flush_encode"):
        b = body(fn)
        cs = _calls(b, emit)
        sw = None
        for bb in b.normal_blocks():
            t = b.term(bb)
            if t["k"] == "switch" and re.match(r"^(Gt\(.*\.default_count, K0\)|Ne\(.*\.default_count, K0\)|Ge\(.*\.default_count, K1\))$", flow.describe(b, t["d"])):
                if sw is None or b.dominates(bb, sw):
                    sw = bb
        if sw is None:
            rep.add("B1", "flush-first:" + fn, False, "%s:%s" % (b.file, b.line), "no `default_count > 0` test found")
            continue
        t = b.term(sw)
        true_t = t["otherwise"]
        first_true = b.term(true_t)
        ok_first = first_true["k"] == "call" and strip_generics(callee_def(first_true)).endswith("::write_default")
        others = [(bb, m) for bb, m, _ in cs if bb != true_t]
        dom = all(b.dominates(sw, bb) for bb, m in others)
        before = [m for bb, m in others if bb in _before(b, sw)]
        rep.add("B1", "flush-first:" + fn, ok_first and dom and not before, b.where(sw),
                "pending default run is written first (true edge calls write_default: %s; all other emitting calls after the test: %s)" % (ok_first, dom and not before))
    # finish(): flush then close
    fin = [b for k, b in F.bodies.items() if k.endswith("PredictionEncoderCabac<W, CTX> as preflate_rs::statistical_codec::PredictionEncoder>::finish")]
    if len(fin) != 1:
        rep.missing("B1", "PredictionEncoderCabac::finish")
    else:
        b = fin[0]
        fl = _calls(b, lambda n, t: n.endswith("::flush_encode"))
        cl = _calls(b, lambda n, t: t["callee"].get("trait") == WTRAIT and n.endswith("::finish"))
        rep.add("B1", "finish-flushes-then-closes", len(fl) == 1 and len(cl) == 1 and b.dominates(fl[0][0], cl[0][0]), "%s:%s" % (b.file, b.line),
                "flush_encode calls %d, writer.finish calls %d" % (len(fl), len(cl)))
    # decoder refill
    for fn in ("decode_misprediction", "decode_correction"):
        b = body(fn)
        sw = None
        for bb in b.normal_blocks():
            t = b.term(bb)
            if t["k"] == "switch" and re.match(r"^Eq\(.*\.default_count, K0\)$", flow.describe(b, t["d"])):
                if sw is None or b.dominates(bb, sw):
                    sw = bb
        rd = _calls(b, lambda n, t: n.endswith("::read_default"))
        ex = _calls(b, lambda n, t: n.endswith("::read_exp_value"))
        ok = sw is not None and len(rd) == 1 and rd[0][0] == b.term(sw)["otherwise"] and all(b.dominates(sw, bb) for bb, _, _ in ex)
        rep.add("B1", "refill-first:" + fn, ok, "%s:%s" % (b.file, b.line), "`default_count == 0` => read_default precedes any value read")
    # trait wrappers pass the right halves through
    for side, pre in (("Encoder", "encode_"), ("Decoder", "decode_")):
        for m in ("value", "correction", "misprediction"):
            cands = [b for k, b in F.bodies.items() if k.endswith("Prediction%sCabac<%s, CTX> as preflate_rs::statistical_codec::Prediction%s>::%s%s" % (
                side, "W" if side == "Encoder" else "R", side, pre, m))]
            if len(cands) != 1:
                rep.missing("B1", "Prediction%sCabac::%s%s" % (side, pre, m))
                continue
            b = cands[0]
            cs = _calls(b, lambda n, t: n == strip_generics(CC + pre + m))
            rep.add("B1", "wrapper:%s%s" % (pre, m), len(cs) == 1, "%s:%s" % (b.file, b.line), "trait method forwards to the context's %s%s exactly once" % (pre, m))
    b3(F, rep)
    b4(F, rep)
    b5(F, rep)
    b6(F, rep)
    b7(F, rep)
    # ---- B2 ---------------------------------------------------------------------------------------
    for en in ("CodecCorrection", "CodecMisprediction"):
        a = F.adts.get("preflate_rs::statistical_codec::" + en)
        if not a:
            rep.missing("B2", en)
            continue
        mx = [v["discr"] for v in a["variants"] if v["name"] == "MAX"]
        others = [v["discr"] for v in a["variants"] if v["name"] != "MAX"]
        rep.add("B2", "MAX-is-largest:" + en, len(mx) == 1 and all(mx[0] > o for o in others), "", "MAX=%r others=%r" % (mx, others))
    pc = F.adts.get("preflate_rs::cabac_codec::PredictionCabacContext")
    if pc:
        ft = {f["name"]: f["ty"] for f in pc["variants"][0]["fields"]}
        nc = len(F.adts["preflate_rs::statistical_codec::CodecCorrection"]["variants"]) - 1
        for f in ("correction", "correction_bits"):
            m = re.match(r"^\[\[CTX; (\d+)\]; (.+)\]$", ft.get(f, ""))
            n_outer = None
            if m:
                try:
                    n_outer = int(m.group(2))
                except ValueError:
                    n_outer = None
            rep.add("B2", "array-covers-contexts:" + f, (n_outer is None and m is not None) or (n_outer is not None and n_outer >= nc), "",
                    "field type %s, %d contexts" % (ft.get(f), nc))
        rep.add("B2", "value/mantissa arrays same shape", ft.get("correction") == ft.get("correction_bits") and ft.get("default_encoding") == ft.get("default_encoding_nbits"), "", str(ft))
    else:
        rep.missing("B2", "PredictionCabacContext")


def b4(F, rep):
    """The value arithmetic of the two primitive pairs, on canonical descriptors (⚠ enumerated shapes, fail closed):
    exp coding  — writer: unary(bit_length(v)); for bit_length >= 2 the low bits of v as mantissa of bit_length-1 bits;
                  reader: 0 -> 0, 1 -> 1, n -> mantissa | 1 << (n-1);
    fixed width — writer emits bit i of v for i = width-1 down to 0, reader shifts the accumulator left before it ors
                  each bit in, for width iterations."""
    BL = r"bit_helper::bit_length\(arg<u32>\)"
    w = F.body(CC + "write_exp_encoded")
    where = "%s:%s" % (w.file, w.line)
    pn = _calls(w, lambda n, t: n.endswith("::put_n_bits"))
    pu = _calls(w, lambda n, t: n.endswith("::put_unary_encoded"))
    ok_u = len(pu) == 1 and re.match("^" + BL + "$", flow.describe(w, pu[0][2]["args"][1])) is not None
    rep.add("B4", "exp-writer:unary=bit_length", ok_u, where, "put_unary_encoded(%s)" % (flow.describe(w, pu[0][2]["args"][1]) if pu else None))
    ok_m = False
    why = "no single put_n_bits"
    if len(pn) == 1:
        bb, _, t = pn[0]
        val, cnt = flow.describe(w, t["args"][1]), flow.describe(w, t["args"][2])
        shapes = [r"^(into\()?BitAnd\(arg<u32>, Sub\(Shl\(K1, %s\)(\.0)?, K1\)(\.0)?\)\)?$" % BL,
                  r"^(into\()?BitAnd\(arg<u32>, Sub\(Shl\(K1, Sub\(%s, K1\)(\.0)?\)(\.0)?, K1\)(\.0)?\)\)?$" % BL,
                  r"^(into\()?arg<u32>\)?$"]
        good_val = any(re.match(s, val) for s in shapes)
        good_cnt = re.match(r"^Sub\(%s, K1\)(\.0)?$" % BL, cnt) is not None
        # guarded by bit_length >= 2
        guard = False
        for sb in sorted(w.normal_blocks()):
            st = w.term(sb)
            if st["k"] != "switch" or len(st["targets"]) != 1:
                continue
            m = re.match(r"^(Gt|Ge)\(%s, K(\d+)\)$" % BL, flow.describe(w, st["d"]))
            if m and int(m.group(2)) + (1 if m.group(1) == "Gt" else 0) == 2 and w.edge_dominates(sb, st["otherwise"], bb):
                guard = True
        ok_m = good_val and good_cnt and guard
        why = "put_n_bits(%s, %s) guarded by bit_length >= 2: %s" % (val, cnt, guard)
    rep.add("B4", "exp-writer:mantissa", ok_m, where, why)
    r = F.body(CC + "read_exp_value")
    where = "%s:%s" % (r.file, r.line)
    U = r"unwrap\(get_unary_encoded\(.*?\)\)"
    rets = {}
    sw = [(bb, r.term(bb)) for bb in sorted(r.normal_blocks()) if r.term(bb)["k"] == "switch" and not r.term(bb).get("exp") and re.match("^(%s)$" % U, flow.describe(r, r.term(bb)["d"]))]
    ok_r = False
    why = "no switch on the unary value"
    if len(sw) == 1:
        sb, st = sw[0]
        tg = dict((v, x) for v, x in st["targets"])

        def ret_of(entry):
            for x in sorted(r.reachable_from(entry)):
                for s in r.stmts(x):
                    if s.get("k") == "assign" and s["p"]["l"] == 0 and not s["p"]["p"]:
                        return flow.describe_rvalue(r, s["r"], names=False)
            return None
        r0, r1, rn = ret_of(tg.get(0)) if 0 in tg else None, ret_of(tg.get(1)) if 1 in tg else None, ret_of(st["otherwise"])
        N1 = r"Sub\((%s), K1\)(\.0)?" % U
        M = r"(cast\()?unwrap\(get_n_bits\(.*?, %s, .*?\)\)\)?" % N1
        T = r"Shl\(K1, %s\)" % N1
        good_n = rn is not None and (re.match(r"^(BitOr|Add)\(%s, %s\)(\.0)?$" % (M, T), rn) or re.match(r"^(BitOr|Add)\(%s, %s\)(\.0)?$" % (T, M), rn)) is not None
        ok_r = r0 == "K0" and r1 == "K1" and good_n
        why = "0 -> %s, 1 -> %s, n -> %s" % (r0, r1, rn)
    rep.add("B4", "exp-reader:value", ok_r, where, why)
    # fixed-width values
    wb, rb = F.body(CC + "write_bypass"), F.body(CC + "read_bypass")
    pb = _calls(wb, lambda n, t: n.endswith("::put_bypass"))
    I = r"next\(into_iter\(rev\(Range\{K0, (arg<u8>|\.\.\.)\}\)\)\) as Some\.0"
    dsc = flow.describe(wb, pb[0][2]["args"][1]) if len(pb) == 1 else None
    ok_wb = dsc is not None and (re.match(r"^Eq\(BitAnd\(Shr\(arg<u32>, %s\), K1\), K1\)$" % I, dsc) or re.match(r"^Ne\(BitAnd\(Shr\(arg<u32>, %s\), K1\), K0\)$" % I, dsc)) is not None
    rep.add("B4", "fixed-writer:msb-first", ok_wb, "%s:%s" % (wb.file, wb.line), "put_bypass(%s)" % dsc)
    gb = _calls(rb, lambda n, t: n.endswith("::get_bypass"))
    nx = _calls(rb, lambda n, t: n.endswith("Iterator::next"))
    ok_rb, why = False, "no single get_bypass in a counted loop"
    if len(gb) == 1 and len(nx) == 1 and re.match(r"^into_iter\(Range\{K0, arg<u8>\}\)$", flow.describe(rb, nx[0][2]["args"][0])):
        gbb = gb[0][0]
        acc = set()
        for x in rb.normal_blocks():
            for s in rb.stmts(x):
                if s.get("k") == "assign" and s["p"]["l"] == 0 and not s["p"]["p"] and s["r"]["k"] == "use" and op_place(s["r"]["op"]) is not None:
                    acc.add(op_place(s["r"]["op"])["l"])
        acc = sorted(acc)
        if len(acc) == 1:
            an = "var(%s)" % (rb.locals[acc[0]].get("name") or "_%d" % acc[0])
            a = acc[0]
            steps = []
            for x in sorted(rb.normal_blocks()):
                for s in rb.stmts(x):
                    if s.get("k") == "assign" and s["p"]["l"] == a and not s["p"]["p"] and s["r"]["k"] in ("binop", "use"):
                        steps.append((x, flow.describe_rvalue(rb, s["r"], names=False).replace(an, "ACC")))
            shl = [x for x, dsc2 in steps if re.match(r"^Shl\(ACC, K1\)$", dsc2)]
            bor = [x for x, dsc2 in steps if re.match(r"^BitOr\(ACC, (cast\()?unwrap\(get_bypass\(.*\)\)\)?\)$", dsc2)]
            both = [x for x, dsc2 in steps if re.match(r"^BitOr\(Shl\(ACC, K1\), (cast\()?unwrap\(get_bypass\(.*\)\)\)?\)$", dsc2)]
            init = [x for x, dsc2 in steps if dsc2 == "K0"]
            if both and not shl and not bor:
                ok_rb = len(init) == 1
            elif len(shl) == 1 and len(bor) == 1:
                # shift happens before the bit is inserted in each iteration
                ok_rb = len(init) == 1 and (rb.dominates(shl[0], gbb) or shl[0] == gbb) and gbb in rb.reachable_from(shl[0]) and bor[0] in rb.reachable_from(gbb)
            why = "accumulator steps %s" % [d2 for _, d2 in steps]
    if not ok_rb and not gb:
        # fold form: (0..n).fold(0, |acc, _| (acc << 1) | bit)
        fd = _calls(rb, lambda n, t: n.endswith("Iterator::fold"))
        cl = [cb for cn, cb in sorted(F.bodies.items()) if cn.startswith(rb.name + "::{closure#")]
        if len(fd) == 1 and len(cl) == 1 and len(fd[0][2]["args"]) == 3:
            a0, a1 = flow.describe(rb, fd[0][2]["args"][0]), flow.describe(rb, fd[0][2]["args"][1])
            rets = [flow.describe_rvalue(cl[0], s["r"], names=False) for x in cl[0].normal_blocks() for s in cl[0].stmts(x)
                    if s.get("k") == "assign" and s["p"]["l"] == 0 and not s["p"]["p"]]
            ok_rb = (a0 == "Range{K0, arg<u8>}" and a1 == "K0" and len(rets) == 1 and
                     re.match(r"^BitOr\(Shl\(arg<u32>(#0)?, K1\), (\w+::)*(cast|from|into)?\(?unwrap\(get_bypass\(.*\)\)\)?\)$", rets[0]) is not None)
            why = "fold(%s, %s, |acc, _| %s)" % (a0, a1, rets)
    rep.add("B4", "fixed-reader:shift-then-or", ok_rb, "%s:%s" % (rb.file, rb.line), why)


def b5(F, rep):
    """Values pass the context layer untouched: what encode_* receives is what it hands to the primitive writer, and what
    the primitive reader returns is what decode_* returns (no clamp, mask, offset or cast that loses bits)."""
    def rets(b):
        out = []
        for bb in sorted(b.normal_blocks()):
            for s in b.stmts(bb):
                if s.get("k") == "assign" and s["p"]["l"] == 0 and not s["p"]["p"]:
                    out.append(flow.describe_rvalue(b, s["r"], names=False))
            t = b.term(bb)
            if t["k"] == "call" and t.get("dest") and t["dest"]["l"] == 0 and not t["dest"]["p"]:
                out.append("call:" + strip_generics(callee_def(t)).split("::")[-1])
        return sorted(out)
    e = F.body(CC + "encode_correction")
    w = _calls(e, lambda n, t: n.endswith("::write_exp_encoded"))
    rep.add("B5", "encode_correction-passes-value", len(w) == 1 and flow.describe(e, w[0][2]["args"][0]) == "arg<u32>", "%s:%s" % (e.file, e.line),
            "write_exp_encoded(%s, ..)" % (flow.describe(e, w[0][2]["args"][0]) if w else None))
    d = F.body(CC + "decode_correction")
    r = rets(d)
    rep.add("B5", "decode_correction-returns-read-value", r == ["K0", "call:read_exp_value"] or
            (len(r) == 2 and r[0] == "K0" and re.match(r"^(preflate_rs::)?cabac_codec::PredictionCabacContext::read_exp_value\(.*\)$", r[1]) is not None),
            "%s:%s" % (d.file, d.line), "results: %s (0 for a default, otherwise exactly what read_exp_value returned)" % [x[:120] for x in r])
    e = F.body(CC + "encode_value")
    w = _calls(e, lambda n, t: n.endswith("::write_bypass"))
    ok = len(w) == 1 and re.match(r"^(into\()?(cast\()?arg<u16>\)?\)?$", flow.describe(e, w[0][2]["args"][0])) is not None and flow.describe(e, w[0][2]["args"][1]) == "arg<u8>"
    rep.add("B5", "encode_value-passes-value-and-width", ok, "%s:%s" % (e.file, e.line),
            "write_bypass(%s, %s, ..)" % ((flow.describe(e, w[0][2]["args"][0]), flow.describe(e, w[0][2]["args"][1])) if w else (None, None)))
    d = F.body(CC + "decode_value")
    r = rets(d)
    ok = len(r) == 1 and re.match(r"^((cast\()?(preflate_rs::)?cabac_codec::PredictionCabacContext::read_bypass\(arg<u8>, arg<&mut R>\)\)?|call:read_bypass)$", r[0]) is not None
    rep.add("B5", "decode_value-returns-read-value", ok, "%s:%s" % (d.file, d.line), "results: %s" % [x[:120] for x in r])


def b6(F, rep):
    """No operation sequence in the stated domain may make the codec fail: every explicit failure construct (assert!, unwrap,
    panic!) in the codec modules must be a row of the reviewed failure-site table (the rows there say why it cannot fire:
    in-memory writer/reader, defaults flushed before a value ...).  A new assert on a value — however well meant — is a new
    way for encode/decode to abort and has to be reviewed."""
    from .. import site as S
    from ..tables import failure_sites as T
    roots = F.roots_for(["preflate_rs::preflate_container::decompress_deflate_stream"])
    sites, parent, defs = S.reachable_sites(F, roots)
    n = 0
    seen = set()
    for (fn, kind, ordn), s in sorted(sites.items()):
        short = re.sub(r"::\{closure#\d+\}", "", fn.replace("preflate_rs::", ""))
        if not re.match(r"^<?(cabac_codec|statistical_codec)::|^<cabac_codec|^<preflate_rs::cabac_codec", short) and "cabac_codec::" not in short and "statistical_codec::" not in short:
            continue
        if (short, kind) in seen:
            continue
        seen.add((short, kind))
        n += 1
        rep.add("B6", "failure-construct-reviewed:%s|%s" % (short, kind), (short, kind) in T.ROWS, s["where"],
                "reviewed: %s" % T.ROWS[(short, kind)][2] if (short, kind) in T.ROWS else "explicit failure construct in the codec that is not in the reviewed table")
    rep.floor("B6", "codec-failure-constructs", n, 4)


def b7(F, rep):
    """Bookkeeping inside the codec (statistics, default run, bypass-bit count) cannot abort a sequence in the stated domain:
    every overflow-checked accumulation `x = x + y` in the codec modules adds a small amount per operation (upper bound of y at
    most 2^16), so 2^16 or more operations are needed before the check can fire.  Summing *values* (up to 2^31 each) overflows
    after three of them."""
    from ..ub import UB, INF
    if not F.j.get("overflow_checks"):
        return          # the rule reads the compiler's overflow checks; release-shape MIR has none (nothing can abort there)
    U = UB(F)
    n = 0
    for name, b in sorted(F.bodies.items()):
        if "preflate_rs::cabac_codec::" not in name and "preflate_rs::statistical_codec::" not in name:
            continue
        short = name.replace("preflate_rs::", "")
        k = 0
        for bb in sorted(b.normal_blocks()):
            t = b.term(bb)
            if t["k"] != "assert" or "Overflow" not in str(t.get("msg")):
                continue
            for s in b.stmts(bb):
                r = s.get("r") or {}
                if s.get("k") == "assign" and r.get("k") == "binop" and r["op"] in ("AddWithOverflow", "MulWithOverflow"):
                    lp, rp = op_place(r["l"]), op_place(r["r"])
                    # accumulation into a field of self / a counter: one operand is a field read
                    fld = [p for p in (lp, rp) if p is not None and any(isinstance(e, dict) and "n" in e for e in p["p"])]
                    oth = r["r"] if (lp in fld) else r["l"]
                    if not fld:
                        continue
                    n += 1
                    ub = U.operand(b, oth, at=bb)
                    # the accumulator's own width counts as well: a 16-bit tally stepped by up to 16 overflows after 4096
                    # operations (seed10-c10a narrowed `bypass_bits` to u16), a 32-bit one after 2^28
                    try:
                        cap = U.place_tymax(b, fld[0]) or INF
                    except Exception:
                        cap = INF
                    room = INF if cap == INF else (cap + 1) // max(int(ub), 1) if ub != INF else 0
                    ok = ub != INF and ub <= (1 << 16) and room >= (1 << 16)
                    rep.add("B7", "small-step-accumulation:%s#%d" % (short, k), ok, b.where(bb),
                            "%s with a step of at most %s into a value that holds %s: %s operations before the check can fire (2^16 required)" % (flow.describe_rvalue(b, r, names=False)[:120], ub, cap, room))
                    k += 1
    rep.floor("B7", "accumulations-in-codec", n, 3)


def _index_enum(U, b, op):
    p = op_place(op)
    hops = 0
    while p is not None and not p["p"] and hops < 6:
        hops += 1
        d = b.single_def(p["l"])
        if not d or d[2] != "assign":
            return None
        r = d[3]
        if r["k"] == "cast":
            src = op_place(r["op"])
            if src is None:
                return None
            ty = U.place_type(b, src)
            if ty and not re.match(r"^[ui](8|16|32|64|size)$", ty):
                return ty
            p = src
        elif r["k"] == "use":
            p = op_place(r["op"])
        elif r["k"] == "discr":
            return U.place_type(b, r["place"])
        else:
            return None
    return None


def _variant_only_counted(F, ety, vname):
    """The variant is a count marker: every place it is constructed, the value only feeds an integer cast."""
    n = 0
    for name, b in list(F.bodies.items()) + list(F.const_bodies.items()):
        for bb in range(b.n):
            for s in b.stmts(bb):
                r = s.get("r") or {}
                if s.get("k") == "assign" and r.get("k") == "agg" and r.get("adt") == ety and r.get("vname") == vname:
                    n += 1
                    if s["p"]["p"]:
                        return False, "is stored into a field in %s" % name
                    for u in flow.uses(b, s["p"]["l"]):
                        kind = u[0] if isinstance(u, (list, tuple)) else None
                        st = u[-1] if isinstance(u, (list, tuple)) else u
                        rr = st.get("r") if isinstance(st, dict) else None
                        if not (isinstance(rr, dict) and rr.get("k") in ("cast", "discr")) and not (isinstance(st, dict) and st.get("k") in ("storage", "drop")):
                            return False, "is used as a value in %s" % name.replace("preflate_rs::", "")
    return True, "is only ever cast to an integer (%d site(s))" % n


def b3(F, rep):
    """No operation sequence can make the codec panic on an array index: every bounds check the compiler inserted in the
    codec modules (context arrays, statistics counters) has an index whose inferred upper bound is below the array length
    (enum discriminants, constants, min/mask-limited values — pfa/ub.py)."""
    from ..ub import UB
    from ..facts import op_const, const_int
    U = UB(F)
    n = 0
    per = {}
    for name, b in sorted(F.bodies.items()):
        if not re.match(r"^(<)?preflate_rs::(cabac_codec|statistical_codec)::", name.replace("<", "", 1) if name.startswith("<") else name) and \
           "preflate_rs::cabac_codec::" not in name and "preflate_rs::statistical_codec::" not in name:
            continue
        for bb in sorted(b.normal_blocks()):
            t = b.term(bb)
            if t["k"] != "assert" or t.get("msg") != "BoundsCheck":
                continue
            n += 1
            ln = const_int(op_const(t["ops"][0])) if op_const(t["ops"][0]) else None
            ub = U.operand(b, t["ops"][1], at=bb)
            short = name.replace("preflate_rs::", "")
            k = per.get(short, 0)
            per[short] = k + 1
            ok = ln is not None and ub is not None and ub < ln
            note = ""
            if not ok and ln is not None and ub == ln:
                # `[T; Enum::MAX as usize]` indexed by `e as usize`: in bounds as long as MAX itself is never used as a value
                ety = _index_enum(U, b, t["ops"][1])
                a = F.adts.get(ety) if ety else None
                if a and a.get("kind") == "enum":
                    mx = [v for v in a["variants"] if v["name"] == "MAX"]
                    rest = [v["discr"] for v in a["variants"] if v["name"] != "MAX"]
                    if len(mx) == 1 and mx[0]["discr"] == ub and rest and max(rest) < ln:
                        unused, why = _variant_only_counted(F, ety, "MAX")
                        ok = unused
                        note = "; %s::MAX %s" % (ety.split("::")[-1], why)
            rep.add("B3", "index-in-bounds:%s#%d" % (short, k), ok, b.where(bb),
                    "index %s has upper bound %s, array length %s%s" % (flow.describe(b, t["ops"][1]), ub, ln if ln is not None else "not a constant", note))
    rep.floor("B3", "bounds-checks-in-codec", n, 5)


def _before(b, bb):
    """Blocks from which bb is reachable (excluding bb)."""
    return {x for x in b.normal_blocks() if x != bb and bb in b.reachable_from(x)}
