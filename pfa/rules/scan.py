"""A4/A5/G5 — scanner cursor invariants and untrusted-slice bounds (filled in later in the build order)."""


def a4_a5(ctx, rep):
    return
