"""Scanner rules: A4 coverage invariant and G5 cursor step (AFF), A5 untrusted-slice bounds (LIN, rules/lin.py)."""
import re
from .. import flow
from ..aff import Aff, aff_sym, aff_const, aff_add, aff_eq, aff_str, TOP
from ..facts import op_place, callee_def
from ..common import strip_generics, PC

P = "preflate_rs::"
SPLIT = P + "scan_deflate::split_into_deflate_streams"
CHUNK = P + "scan_deflate::BlockChunk"


def chunk_sizes(F):
    """What write_chunk_block reports as consumed input for each BlockChunk variant (read off its Ok(..) values)."""
    b = F.body(PC + "write_chunk_block")
    out = {}
    a = F.adts.get(CHUNK)
    disc = {v["discr"]: v["name"] for v in a["variants"]}
    for sb in sorted(b.normal_blocks()):
        st = b.term(sb)
        if st["k"] == "switch" and flow.describe(b, st["d"], names=True) == "discr(var(block))":
            for v, tgt in st["targets"] + [[None, st["otherwise"]]]:
                names = [disc[v]] if v is not None and v in disc else [disc[x] for x in disc if x not in dict(st["targets"])]
                if len(names) != 1:
                    continue
                for bb in sorted(b.reachable_from(tgt)):
                    for s in b.stmts(bb):
                        if s["k"] == "assign" and s["p"]["l"] == 0 and s["r"]["k"] == "agg" and s["r"].get("vname") == "Ok" and b.edge_dominates(sb, tgt, bb):
                            out[names[0]] = flow.describe(b, s["r"]["ops"][0], names=True)
    return out


def a4_g5(ctx, rep):
    F = ctx.lib
    b = F.body(SPLIT)
    where = "%s:%s" % (b.file, b.line)
    sizes = chunk_sizes(F)
    want = {"Literal": r"^var\(content_size\)$", "DeflateStream": r"^var\(res\)\.compressed_size$", "IDATDeflate": r"^var\(idat\)\.total_chunk_length$"}
    ok_sizes = all(k in sizes and re.match(v, sizes[k]) for k, v in want.items())
    rep.add("A4", "chunk-size-accounting", ok_sizes, "", "write_chunk_block consumes %s" % sizes)
    size_field = {"DeflateStream": ("0", "compressed_size"), "IDATDeflate": ("0", "total_chunk_length")}
    ns = [(bb, t) for bb, t in b.calls() if strip_generics(callee_def(t)) == P + "scan_deflate::next_signature"]
    if len(ns) != 1:
        rep.add("A4", "UNRECOGNISED-IDIOM:scanner-loop", False, where, "expected exactly one next_signature call (loop head)")
        return
    head = ns[0][0]
    idx = b.locals_named("index")
    prv = b.locals_named("prev_index")
    if len(idx) != 1 or len(prv) != 1:
        rep.add("A4", "UNRECOGNISED-IDIOM:cursor-variables", False, where, "expected variables index and prev_index")
        return
    idx, prv = idx[0], prv[0]

    pushes = []

    def hook(A, bb, t, env):
        n = strip_generics(callee_def(t))
        if not n.endswith("Vec::push"):
            return
        o = flow.origin(b, t["args"][1], through=("use",))
        aggs = [r for _, _, r in o.exprs if r["k"] == "agg" and r.get("adt") == CHUNK]
        if len(aggs) != 1:
            return
        r = aggs[0]
        g = env.get("#ghost", TOP)
        inc = TOP
        if r["vname"] == "Literal":
            inc = A.operand(env, r["ops"][0])
        elif r["vname"] in size_field:
            opn = r["ops"][0]
            pp = op_place(opn)
            if pp is not None and ("root", pp["l"]) in env:
                inc = aff_sym(env[("root", pp["l"])] + "." + size_field[r["vname"]][1])
        pushes.append((bb, r["vname"], aff_str(inc)))
        env["#ghost"] = aff_add(g, inc, 1) if (g is not TOP and inc is not TOP) else TOP
        if env["#ghost"] is TOP:
            env.pop("#ghost", None)

    A = Aff(F, b, hook, tracked=(idx, prv, "#ghost"))
    # base case: before the loop index = prev_index = 0
    init_ok = False
    for bb in b.normal_blocks():
        if head in b.succ(bb) and head not in b.reachable_from(bb) - {head} or bb == 0:
            pass
    env0 = A.step_block(0, {})
    init_ok = aff_eq(env0.get(idx, TOP), aff_const(0)) and aff_eq(env0.get(prv, TOP), aff_const(0))
    rep.add("A4", "base:index=prev_index=0", init_ok, where, "initial index=%s prev_index=%s (ghost G=0)" % (aff_str(env0.get(idx, TOP)), aff_str(env0.get(prv, TOP))))
    # inductive step: assume G = prev_index = Pv at the head
    init = {idx: aff_sym("I"), prv: aff_sym("Pv"), "#ghost": aff_sym("Pv")}
    back, out_env, inn = A.run_loop(head, init, (idx, prv))
    rep.floor("A4", "back-edges", len(back), 2)
    rep.floor("A4", "chunk-pushes-in-loop", len(pushes), 4)
    n_accept = n_fall = 0
    for pb, env in sorted(back.items()):
        g, pv, ix = env.get("#ghost", TOP), env.get(prv, TOP), env.get(idx, TOP)
        dgp = A.diff(env, "#ghost", prv)
        dip = A.diff(env, idx, prv)
        ok = dgp is not TOP and aff_eq(dgp, aff_const(0))
        rep.add("A4", "invariant-preserved@back-edge:%s" % ("fall-through" if aff_eq(pv, aff_sym("Pv")) else "accepted"), ok, b.where(pb),
                "at the back edge: G - prev_index = %s (G = %s, prev_index = %s, index = %s)" % (aff_str(dgp), aff_str(g), aff_str(pv), aff_str(ix)))
        if aff_eq(pv, aff_sym("Pv")):
            n_fall += 1
            step = aff_add(ix, aff_sym("out1@bb%d" % head), -1)
            rep.add("G5", "failed-probe-advances-one-byte", aff_eq(step, aff_const(1)), b.where(pb),
                    "index after a failed probe = %s (signature position + 1 expected)" % aff_str(ix))
        else:
            n_accept += 1
            rep.add("G5", "accepted-probe-resumes-at-stream-end", dip is not TOP and aff_eq(dip, aff_const(0)), b.where(pb), "index - prev_index = %s on every accepting path" % aff_str(dip))
    # accepted arms are joined at the `continue` edges: check each arm separately at the block that assigns prev_index
    for bb in sorted(out_env):
        env = out_env[bb]
        wrote_prev = any(s["k"] == "assign" and s["p"]["l"] == prv and not s["p"]["p"] for s in b.stmts(bb))
        if wrote_prev and bb != 0:
            # state after the whole arm: follow to the next push(es) in straight line if the ghost lags
            pass
    # per-arm check: at every `continue` predecessor the ghost equals prev_index (the join would hide a broken arm as TOP)
    arms = 0
    for bb in sorted(inn):
        if bb == head:
            continue
    for pb, env in back.items():
        pass
    # exit: the remaining literal
    exit_blocks = [x for x in b.normal_blocks() if x not in inn and any(p in inn for p in b.pred(x))]
    tail_ok = False
    for bb, t in b.calls():
        if bb in inn or not strip_generics(callee_def(t)).endswith("Vec::push"):
            continue
        o = flow.origin(b, t["args"][1], through=("use",))
        aggs = [r for _, _, r in o.exprs if r["k"] == "agg" and r.get("adt") == CHUNK and r["vname"] == "Literal"]
        if not aggs:
            continue
        d = flow.describe(b, aggs[0]["ops"][0], names=True)
        guard = False
        for sb in b.normal_blocks():
            st = b.term(sb)
            if st["k"] == "switch" and flow.describe(b, st["d"], names=True) == "Lt(var(prev_index), len(var(src)))" and b.edge_dominates(sb, st["otherwise"], bb):
                guard = True
        tail_ok = guard and re.match(r"^Sub\(len\(var\(src\)\), var\(prev_index\)\)(\.0)?$", d) is not None
        rep.add("A4", "tail-literal=len-prev_index", tail_ok, b.where(bb), "after the loop: push Literal(%s) under `prev_index < src.len()`: %s" % (d, guard))
    if not tail_ok:
        rep.add("A4", "tail-literal-present", False, where, "no `Literal(src.len() - prev_index)` after the scanner loop")
    rep.stats["aff"] = {"pushes": pushes, "back_edges": len(back)}


def a4_a5(ctx, rep):
    a4_g5_for(ctx, rep, ("A4",))
    from . import lin
    lin.a5(ctx, rep)


def a4_g5_for(ctx, rep, rules):
    """Run the shared AFF analysis and keep only the obligations of the requested rule ids."""
    from ..core import Report
    tmp = Report("tmp", "quick")
    a4_g5(ctx, tmp)
    for o in tmp.obs:
        if o.rule in rules:
            rep.obs.append(o)
    rep.stats.update(tmp.stats)
