"""C07 — DEFLATE parse then re-serialise is the identity (structural clauses).

W1 CONST+PART: for every len in [3,258] / dist in [1,32768] the code the writer chooses is the code whose
   [base, base + 2^extra) interval contains the value (28 for 258), so base+extra re-encoding inverts decoding.
W2 MUSTPASS: in the block writer every path through a Reference token writes a length symbol and then a distance
   symbol before the next token; extra-bit widths come from the EXTRA tables at the same code; constant
   (value, width) pairs given to BitWriter::write satisfy value < 2^width and width <= 25.
W3 CONST: the writer's BlockType -> 2-bit code map inverts the reader's; the final-block flag is written first.
W4 PROTO-D: L(HuffmanOriginalEncoding::write) ⊆ L(::read) over bit-level events; stored-block field order.
W5 FIELD: every field the parser captures in a block/token is read again by the writer.
Not decided: calc_huffman_codes agreeing with calculate_huffman_code_tree (value-level).
"""
import re
from .. import flow, proto, alpha
from ..part import Part, Unsupported, single
from ..facts import op_place, callee_def, op_const, const_int
from ..common import strip_generics
from .c03 import SPEC, _var_def

P = "preflate_rs::"
K = P + "preflate_constants::"
EB = P + "deflate_writer::DeflateWriter::encode_block_with_decoder"
ENC = P + "deflate_writer::DeflateWriter::encode_block"


def w1(F, rep):
    mm = F.const_int(K + "MIN_MATCH")
    lb, le = F.const_array(K + "LENGTH_BASE_TABLE"), F.const_array(K + "LENGTH_EXTRA_TABLE")
    db, de = F.const_array(K + "DIST_BASE_TABLE"), F.const_array(K + "DIST_EXTRA_TABLE")
    for fn, lo, hi, base, extra, off, name in (("quantize_length", 3, 258, lb, le, mm, "length"), ("quantize_distance", 1, 32768, db, de, 1, "distance")):
        b = F.body(K + fn)
        where = "%s:%s" % (b.file, b.line)
        try:
            pw = Part(F, b).piecewise(0, 1, lo, hi, lambda res, pushes: res[1] if single(res) else None)
        except Unsupported as e:
            rep.add("W1", "UNRECOGNISED-IDIOM:" + fn, False, where, str(e))
            continue
        bad = []
        for a, c, code in pw:
            if not (0 <= code < len(base)):
                bad.append("[%d,%d] -> code %d out of range" % (a, c, code))
                continue
            blo = off + base[code]
            bhi = blo + (1 << extra[code]) - 1
            if a < blo or c > bhi:
                bad.append("[%d,%d] -> code %d whose range is [%d,%d]" % (a, c, code, blo, bhi))
        covered = sum(c - a + 1 for a, c, _ in pw)
        rep.add("W1", "quantize-inverts-decode:" + name, not bad and covered == hi - lo + 1, where,
                "%d cells over [%d,%d]; every value lies in [base, base+2^extra) of its code" % (len(pw), lo, hi) if not bad else "; ".join(bad[:3]))
        if name == "length":
            top = [code for a, c, code in pw if a <= 258 <= c]
            rep.add("W1", "258-uses-code-28", top == [28], where, "quantize_length(258) = %s" % top)
        rep.stats.setdefault("part", {})[fn] = {"cells": len(pw), "domain": [lo, hi]}


def _calls_named(b, suffix):
    return [(bb, t) for bb, t in b.calls() if strip_generics(callee_def(t)).endswith(suffix)]


def w2(F, rep):
    b = F.body(EB)
    where = "%s:%s" % (b.file, b.line)
    wl = _calls_named(b, "HuffmanWriter::write_literal")
    wd = _calls_named(b, "HuffmanWriter::write_distance")
    nx = _calls_named(b, "Iterator::next")
    rep.floor("W2", "write_literal-sites", len(wl), 3)
    rep.floor("W2", "write_distance-sites", len(wd), 1)
    if len(nx) != 1:
        rep.add("W2", "UNRECOGNISED-IDIOM:token-loop", False, where, "expected one token loop")
        return
    head = nx[0][0]
    # the Reference arm: switch on the token discriminant
    ref_edge = None
    for sb in sorted(b.normal_blocks()):
        st = b.term(sb)
        if st["k"] == "switch" and re.match(r"^discr\(", flow.describe(b, st["d"], names=True)) and "token" in flow.describe(b, st["d"], names=True):
            tg = dict(st["targets"])
            a = F.adts.get(P + "preflate_token::PreflateToken")
            refd = [v["discr"] for v in a["variants"] if v["name"] == "Reference"][0]
            if refd in tg:
                ref_edge = (sb, tg[refd])
            else:
                ref_edge = (sb, st["otherwise"])
    if ref_edge is None:
        rep.add("W2", "UNRECOGNISED-IDIOM:reference-arm", False, where, "cannot find the match on the token kind")
        return
    start = ref_edge[1]
    # length symbols = write_literal calls reachable from the arm before the loop head
    arm = b.reachable_from(start, avoid=[head])
    len_syms = [bb for bb, t in wl if bb in arm]
    dists = [bb for bb, t in wd if bb in arm]
    # every path start -> head passes a length symbol, then a distance symbol

    def must_pass(src, dst, through):
        """dst unreachable from src when the `through` blocks are removed"""
        return dst not in b.reachable_from(src, avoid=through) or src in through

    ok_len = bool(len_syms) and must_pass(start, head, len_syms)
    rep.add("W2", "reference-writes-length-symbol", ok_len, b.where(start), "every path through a Reference token passes write_literal(length symbol)")
    ok_dist = bool(dists) and must_pass(start, head, dists)
    rep.add("W2", "reference-writes-distance-symbol", ok_dist, b.where(start),
            "every path through a Reference token passes write_distance before the next token" if ok_dist else
            "a path through a Reference token reaches the next token without write_distance (the distance is dropped)")
    ok_order = bool(dists) and all(any(b.dominates(l, d) for l in len_syms) or must_pass(start, d, len_syms) for d in dists)
    rep.add("W2", "length-before-distance", ok_order, where, "a length symbol precedes the distance symbol on every path")
    # extra-bit widths come from the EXTRA table at the code that was written
    for bb, t in _calls_named(b, "BitWriter::write"):
        v = flow.const_eval(b, t["args"][1])
        w = flow.const_eval(b, t["args"][2])
        dv = flow.describe(b, t["args"][1], names=True)
        dw = flow.describe(b, t["args"][2], names=True)
        if v is not None and w is not None:
            rep.add("W2", "const-bits:%d/%d" % (v, w), v < (1 << w) and w <= 25, b.where(bb), "BitWriter::write(%d, %d): value must fit the width, width <= 25" % (v, w))
        elif w is None:
            m = re.match(r"^into\(var\((lenextra|distextra)\)\)$", dw)
            which = None
            if m:
                src = _var_def(b, m.group(1))
                which = src[0] if src else None
            oklen = which == "const:preflate_constants::LENGTH_EXTRA_TABLE[var(lencode)]" and re.match(r"^Sub\(Sub\(len\(var\(reference\)\), K3\)(\.0)?, const:preflate_constants::LENGTH_BASE_TABLE\[var\(lencode\)\]\)(\.0)?$", dv)
            okdist = which == "const:preflate_constants::DIST_EXTRA_TABLE[var(distcode)]" and re.match(r"^Sub\(Sub\(dist\(var\(reference\)\), K1\)(\.0)?, const:preflate_constants::DIST_BASE_TABLE\[var\(distcode\)\]\)(\.0)?$", dv)
            rep.add("W2", "extra-bits:%s" % (m.group(1) if m else dw[:30]), bool(oklen or okdist), b.where(bb),
                    "extra bits write(%s, %s) with width from %s" % (dv, dw, which))
    # symbols: length symbol = 257 + quantize_length(len), distance = quantize_distance(dist)
    for nm, want in (("lencode", "quantize_length(len(var(reference)))"), ("distcode", "quantize_distance(dist(var(reference)))")):
        d = [flow.describe(b, {"l": l, "p": []}, names=False) for l in b.locals_named(nm)]
        wantx = {"lencode": r"^preflate_constants::quantize_length\(preflate_token::PreflateTokenReference::len\(", "distcode": r"^preflate_constants::quantize_distance\(preflate_token::PreflateTokenReference::dist\("}[nm]
        rep.add("W2", "code:" + nm, len(d) == 1 and re.match(wantx, d[0]) is not None, where, "%s := %s" % (nm, [x[:90] for x in d]))
    # the non-canonical arm really encodes 258: symbol S = 257 + c, width = EXTRA[c], 3 + BASE[c] + value = 258
    mm = F.const_int(K + "MIN_MATCH")
    lbt, let_ = F.const_array(K + "LENGTH_BASE_TABLE"), F.const_array(K + "LENGTH_EXTRA_TABLE")
    irr = _calls_named(b, "get_irregular258")
    if irr:
        ib = irr[0][0]
        sw = b.term(irr[0][1]["t"]) if irr[0][1].get("t") is not None else None
        arm = None
        if sw and sw["k"] == "switch":
            arm = sw["otherwise"]
        if arm is not None:
            reach = b.reachable_from(arm, avoid=[head])
            syms = [flow.const_eval(b, t["args"][3]) for bb, t in wl if bb in reach and b.edge_dominates(irr[0][1]["t"], arm, bb)]
            cw = [(flow.const_eval(b, t["args"][1]), flow.const_eval(b, t["args"][2])) for bb, t in _calls_named(b, "BitWriter::write") if bb in reach and b.edge_dominates(irr[0][1]["t"], arm, bb)]
            ok = False
            detail = "symbols %s, constant writes %s" % (syms, cw)
            if len(syms) == 1 and syms[0] is not None and len(cw) == 1 and None not in cw[0]:
                c = syms[0] - 257
                v, w = cw[0]
                ok = 0 <= c < 29 and w == let_[c] and mm + lbt[c] + v == 258 and c != 28
                detail += "; 3 + BASE[%d] + %d = %d with %d extra bits (table: %d)" % (c, v, mm + lbt[c] + v if 0 <= c < 29 else -1, w, let_[c] if 0 <= c < 29 else -1)
            rep.add("W2", "irregular-258-encoding", ok, b.where(arm), detail)
    # every constant pair in the whole serialiser
    n = 0
    for name, fb in F.bodies.items():
        if not (name.startswith(P + "deflate_writer::") or name.startswith(P + "huffman_encoding::")):
            continue
        for bb, t in _calls_named(fb, "BitWriter::write"):
            v, w = flow.const_eval(fb, t["args"][1]), flow.const_eval(fb, t["args"][2])
            if w is not None:
                n += 1
                ok = w <= 25 and (v is None or v < (1 << w))
                if name != EB or v is None:
                    rep.add("W2", "width:%s#%d" % (name.split("::")[-1], sum(1 for b2, _ in _calls_named(fb, "BitWriter::write") if b2 < bb)), ok, fb.where(bb), "write(%s, %d)" % (v, w))
    rep.floor("W2", "constant-width-writes", n, 4)


def w2b(ctx, rep):
    """Every BitWriter::write fits the 32-bit bit buffer: at most 7 bits are pending after flush_whole_bytes, so the
    width must be provably <= 25.  Widths are bounded by upper-bound inference; Huffman code lengths are <= 15 by the
    reviewed summary below (its obligation: the X2 guard `code lengths validated before any tree is built`)."""
    from ..ub import UB, INF
    from .guard import x2 as _x2
    from ..core import Report
    F = ctx.lib
    U = UB(F)
    tmp = Report("tmp", "quick")
    _x2(ctx, tmp)
    validated = any(o.instance == "code-lengths-validated" and o.ok for o in tmp.obs)
    try:
        mx = F.const_int(P + "huffman_helper::is_valid_huffman_code_lengths::MAX_CODE_LENGTH")
    except Exception:
        mx = None
    hv = F.body(P + "huffman_helper::is_valid_huffman_code_lengths")
    rej = any(hv.term(sb)["k"] == "switch" and (mx is not None and (flow.describe(hv, hv.term(sb)["d"], names=True) or "") in ("Ge(var(length), K%d)" % mx, "Gt(var(length), K%d)" % (mx - 1))) for sb in hv.normal_blocks())
    ok_sum = validated and mx is not None and mx - 1 <= 15 and rej
    rep.add("W2", "summary:huffman-code-lengths<=15", ok_sum, "", "is_valid_huffman_code_lengths rejects `length >= %s` (%s) and dominates tree construction (%s)" % (mx, rej, validated))
    if ok_sum:
        for f in ("lit_code_lengths", "dist_code_lengths", "code_lengths"):
            U.elem_bounds[f] = mx - 1
    # the pending-bit bound itself: flush_whole_bytes loops while bits_in >= 8
    fw = F.body(P + "bit_writer::BitWriter::flush_whole_bytes")
    from ..common import macro_names as _mn
    _AS = ("assert", "assert_eq", "assert_ne", "debug_assert", "debug_assert_eq", "debug_assert_ne")
    from .c04 import _panics
    fl = [flow.describe(fw, fw.term(sb)["d"], names=True) for sb in sorted(fw.normal_blocks()) if fw.term(sb)["k"] == "switch" and not any(m in _AS for m in _mn(fw.term(sb).get("exp")))
          and not any(_panics(fw, x) for x in [y for _, y in fw.term(sb)["targets"]] + [fw.term(sb)["otherwise"]])]
    wr = F.body(P + "bit_writer::BitWriter::write")
    calls_flush = [bb for bb, t in wr.calls() if strip_generics(callee_def(t)).endswith("flush_whole_bytes")]
    rep.add("W2", "summary:at-most-7-bits-pending", fl in (["Ge(var(self).bits_in, K8)"], ["Gt(var(self).bits_in, K7)"]) and len(calls_flush) == 1, "%s:%s" % (fw.file, fw.line),
            "flush_whole_bytes drains while `%s`; write() ends with it" % fl)
    from .. import inv
    Kinv, why = inv.drain_invariant(F, P + "bit_writer::BitWriter", "bits_in", P + "bit_writer::BitWriter::flush_whole_bytes")
    rep.add("W2", "invariant:bits_in<8-between-calls", Kinv is not None and Kinv <= 8, "%s:%s" % (fw.file, fw.line), why)
    n = 0
    for name, fb in sorted(F.bodies.items()):
        if not (name.startswith(P + "deflate_writer::") or name.startswith(P + "huffman_encoding::") or name.startswith(P + "bit_writer::BitWriter::pad")):
            continue
        k = 0
        for bb, t in sorted(_calls_named(fb, "BitWriter::write")):
            n += 1
            v = U.operand(fb, t["args"][2], bb)
            ok = v != INF and v <= 25
            rep.add("W2", "width<=25:%s#%d" % (name.replace(P, ""), k), ok, fb.where(bb),
                    "upper bound of the width %s is %s (the 32-bit buffer holds 7 pending bits + 25)" % (flow.describe(fb, t["args"][2], names=True), v))
            k += 1
    rep.floor("W2", "bit-writes", n, 6)


def w3(F, rep):
    b = F.body(ENC)
    where = "%s:%s" % (b.file, b.line)
    a = F.adts.get(P + "preflate_token::BlockType")
    disc = {v["discr"]: v["name"] for v in a["variants"]}
    wmap = {}
    for sb in sorted(b.normal_blocks()):
        st = b.term(sb)
        if st["k"] == "switch" and "block_type" in flow.describe(b, st["d"], names=True):
            for v, tgt in st["targets"] + [[None, st["otherwise"]]]:
                names = [disc[v]] if v is not None else [disc[x] for x in disc if x not in dict(st["targets"])]
                if len(names) != 1:
                    continue
                for bb in sorted(b.reachable_from(tgt)):
                    if not b.edge_dominates(sb, tgt, bb):
                        continue
                    t = b.term(bb)
                    if t["k"] != "call":
                        continue
                    n = strip_generics(callee_def(t))
                    if n.endswith("BitWriter::write") and flow.const_eval(b, t["args"][2]) == 2 and names[0] not in wmap:
                        wmap[names[0]] = flow.const_eval(b, t["args"][1])
                    if n.endswith("HuffmanWriter::start_dynamic_huffman_table") and names[0] not in wmap:
                        sb2 = F.body(P + "huffman_encoding::HuffmanWriter::start_dynamic_huffman_table")
                        first = [(x, t2) for x, t2 in _calls_named(sb2, "BitWriter::write")]
                        first.sort(key=lambda x: len(sb2.dominators().get(x[0], ())))
                        if first and flow.const_eval(sb2, first[0][1]["args"][2]) == 2:
                            wmap[names[0]] = flow.const_eval(sb2, first[0][1]["args"][1])
    want = {v: int(k) for k, v in SPEC["block_types"].items()}
    rep.add("W3", "block-type-code-map", wmap == want, where, "writer BlockType -> code %s (RFC/reader: %s)" % (wmap, want))
    ws = _calls_named(b, "BitWriter::write")
    first = sorted(ws, key=lambda x: len(b.dominators().get(x[0], ())))[:1]
    ok = bool(first) and flow.const_eval(b, first[0][1]["args"][2]) == 1 and all(b.dominates(first[0][0], bb) for bb, _ in b.calls() if bb != first[0][0] and strip_generics(callee_def(b.term(bb))).startswith(P))
    rep.add("W3", "final-flag-first", ok, where, "the first thing encode_block writes is the 1-bit final-block flag (%s)" % (flow.describe(b, first[0][1]["args"][1], names=True) if first else None))
    # stored block field order
    st_calls = []
    for bb, t in b.calls():
        n = strip_generics(callee_def(t))
        if n.endswith("BitWriter::pad"):
            st_calls.append((bb, "pad:" + flow.describe(b, t["args"][1], names=True)))
        elif n.endswith("BitWriter::flush_whole_bytes"):
            st_calls.append((bb, "flush"))
        elif n.endswith("Vec::extend_from_slice"):
            st_calls.append((bb, "bytes:" + flow.describe(b, t["args"][1], names=True)))
    st_calls.sort(key=lambda x: len(b.dominators().get(x[0], ())))
    seq = [s for _, s in st_calls]
    ok = (len(seq) == 5 and seq[0] == "pad:var(block).padding_bits" and seq[1] == "flush"
          and re.match(r"^bytes:to_le_bytes\(len\(var\(block\)\.uncompressed\)\)$", seq[2]) is not None
          and re.match(r"^bytes:to_le_bytes\(Not\(len\(var\(block\)\.uncompressed\)\)\)$", seq[3]) is not None
          and seq[4] in ("bytes:var(block).uncompressed", "bytes:deref(var(block).uncompressed)"))
    chain = all(b.dominates(st_calls[i][0], st_calls[i + 1][0]) for i in range(len(st_calls) - 1))
    rep.add("W3", "stored-block-layout", ok and chain, where, "stored arm writes %s" % seq)


class BitStream(proto.Alphabet):
    """labels: ('bits', width|None)  ('sym',) — dynamic-header protocol."""

    def __init__(self, side, scope):
        self.side = side
        self.scope = set(scope)

    def _kind(self, t):
        n = strip_generics(callee_def(t))
        if self.side == "w" and n.endswith("bit_writer::BitWriter::write"):
            return "write"
        if self.side == "r" and t["callee"].get("def", "").endswith("bit_reader::ReadBits::get"):
            return "get"
        if self.side == "r" and n.endswith("huffman_helper::decode_symbol"):
            return "sym"
        return None

    def is_event_callee(self, t):
        return self._kind(t) is not None

    def event(self, M, body, bb, t):
        if body.name not in self.scope:
            return None
        k = self._kind(t)
        if k is None:
            return None
        if k == "sym":
            return [(("sym",), None)]
        if k == "get":
            return [(("bits", flow.const_eval(body, t["args"][1])), None)]
        w = flow.const_eval(body, t["args"][2])
        dw = flow.describe(body, t["args"][2], names=True)
        if w is None and "code_lengths[" in dw:
            return [(("sym",), None)]
        return [(("bits", w), None)]


def _match_bits(wl, rl):
    if wl[0] != rl[0]:
        return False, None
    if wl[0] == "bits":
        return wl[1] == rl[1], None
    return True, None


def w4(F, rep):
    WN = P + "huffman_encoding::HuffmanOriginalEncoding::write"
    RN = P + "huffman_encoding::HuffmanOriginalEncoding::read"
    W = proto.Machine(F, BitStream("w", [WN]), "w")
    R = proto.Machine(F, BitStream("r", [RN]), "r")
    res = proto.check(W, WN, R, RN, _match_bits)
    for where, why in W.unrecognised + R.unrecognised:
        rep.add("W4", "UNRECOGNISED-IDIOM:%s" % why[:60], False, str(where), why)
    for v in res["violations"]:
        site = v["writer"].split(" at ")[-1] if " at " in v["writer"] else ""
        rep.add("W4", "%s:%s" % (v["kind"], v["writer"].split(" at ")[0]), False, site,
                "writer emits %s after [...%s]; reader expects %s" % (v["writer"], ", ".join(v.get("trail", [])[-3:]), v.get("reader_expects")))
    rep.add("W4", "inclusion:dynamic-header-write<=read", not res["violations"], "", "%d product states, labels %s" % (res["pairs"], sorted(map(str, res["wlabels"]))))
    rep.floor("W4", "writer-bit-writes", len(W.static_sites(WN)), 6)
    rep.floor("W4", "reader-bit-reads", len(R.static_sites(RN)), 6)
    if not res["violations"]:
        rep.floor("W4", "writer-ok-exit", res["ok_exits"], 1)
    # both sides walk the code-length alphabet in TREE_CODE_ORDER_TABLE order and share the adjustment function
    for fn, nm in ((WN, "write"), (RN, "read")):
        b = F.body(fn)
        # the table may be indexed (`TABLE[i]`) or iterated (`TABLE.iter().take(n)`): either way the function refers to it
        import json as _json
        uses_order = any("preflate_constants::TREE_CODE_ORDER_TABLE" in _json.dumps(b.blocks[bb]) for bb in b.normal_blocks()) or \
            "preflate_constants::TREE_CODE_ORDER_TABLE" in _json.dumps(b.j.get("promoted") or [])      # `&TABLE` is a promoted constant
        adj = _calls_named(b, "get_tree_code_adjustment")
        rep.add("W4", "uses-code-order-table:" + nm, uses_order, "%s:%s" % (b.file, b.line), "indexes through TREE_CODE_ORDER_TABLE")
        rep.add("W4", "uses-shared-adjustment:" + nm, len(adj) == 1, "%s:%s" % (b.file, b.line), "repeat-code (subtract, bits) come from get_tree_code_adjustment")


def w5(F, rep):
    """Fields of PreflateTokenBlock written by the parser vs read by the serialiser."""
    a = F.adts.get(P + "preflate_token::PreflateTokenBlock")
    fields = [f["name"] for f in a["variants"][0]["fields"]]
    derived = {"context_len": "informational (distance of the earliest reference)", "freq": "symbol frequencies recomputed for tree prediction"}

    def touched(fn_prefixes, var_names, write):
        out = set()
        for name, b in F.bodies.items():
            if not any(name.startswith(p) for p in fn_prefixes):
                continue
            for bb in b.normal_blocks():
                for s in b.stmts(bb):
                    if s["k"] != "assign":
                        continue
                    places = [s["p"]] if write else list(flow.places_in(s["r"]))
                    if write and s["r"]["k"] in ("ref", "rawptr") and s["r"].get("mut"):
                        places.append(s["r"]["place"])
                    for p in places:
                        ty = re.sub(r"^&(mut )?", "", b.local_ty(p["l"]))
                        if not ty.endswith("preflate_token::PreflateTokenBlock"):
                            continue
                        for e in p["p"]:
                            if isinstance(e, dict) and "n" in e and e["n"] in fields:
                                out.add(e["n"])
                                break
                t = b.term(bb)
                if not write and t["k"] == "call":
                    for p in flow.places_in(t["args"]):
                        ty = re.sub(r"^&(mut )?", "", b.local_ty(p["l"]))
                        if ty.endswith("preflate_token::PreflateTokenBlock"):
                            for e in p["p"]:
                                if isinstance(e, dict) and "n" in e and e["n"] in fields:
                                    out.add(e["n"])
                                    break
        return out
    written = touched([P + "deflate_reader::", P + "preflate_token::PreflateTokenBlock::add_"], None, True)
    read = touched([P + "deflate_writer::"], None, False)
    rep.floor("W5", "captured-fields", len(written), 4)
    for f in sorted(written):
        ok = f in read or f in derived
        rep.add("W5", "replayed:" + f, ok, "", "parser captures `%s`; serialiser %s" % (f, "reads it" if f in read else ("does not need it: " + derived[f] if f in derived else "never reads it (information dropped)")))
    # token level: irregular258 is read by the writer
    b = F.body(EB)
    rep.add("W5", "replayed:irregular258", len(_calls_named(b, "get_irregular258")) >= 1, "%s:%s" % (b.file, b.line), "the block writer consults the non-canonical 258 flag")
    # eof padding replay
    dm = F.body(P + "process::decode_mispredictions")
    fl = _calls_named(dm, "DeflateWriter::flush_with_padding")
    ok = len(fl) == 1 and re.search(r"decode_correction\(.*NonZeroPadding", flow.describe(dm, fl[0][1]["args"][1])) is not None
    rep.add("W5", "replayed:eof_padding", ok, "%s:%s" % (dm.file, dm.line), "final padding bits are replayed from the correction stream: %s" % (flow.describe(dm, fl[0][1]["args"][1])[:80] if fl else None))


# ---- W6: padding replay -----------------------------------------------------------------------------------------------
def _pad_eval(b, op, used, depth=0):
    """Evaluate an operand of BitWriter::pad as a function of used = bits_in & 7.  Returns an int, ("fill",) for the fill
    argument (through casts), ("fillmask", m) for fill & m, ("bits_in",) for the field, or None."""
    if depth > 30:
        return None
    k = op_const(op)
    if k is not None and isinstance(k, dict) and "ty" in k:
        return const_int(k)
    p = op_place(op)
    if p is None:
        return None
    pr = p["p"]
    if pr and not (len(pr) == 1 and isinstance(pr[0], dict) and pr[0].get("f") == 0 and b.local_ty(p["l"]).startswith("(")):
        # (*self).bits_in
        if p["l"] == 1 and any(isinstance(e, dict) and e.get("n") == "bits_in" for e in pr):
            return ("bits_in",)
        return None
    if p["l"] == 2 and not pr:
        return ("fill",)
    ds = b.defs(p["l"])
    if len(ds) == 1 and ds[0][2] == "call" and re.search(r"convert::(From::from|Into::into)$", strip_generics(callee_def(ds[0][3]))) \
            and re.match(r"^[ui](8|16|32|64|size)$", b.local_ty(p["l"])):
        return _pad_eval(b, ds[0][3]["args"][0], used, depth + 1)       # lossless integer widening
    if len(ds) != 1 or ds[0][2] != "assign":
        return None
    r = ds[0][3]
    if r["k"] == "use":
        return _pad_eval(b, r["op"], used, depth + 1)
    if r["k"] == "cast" and r.get("ck") == "IntToInt":
        return _pad_eval(b, r["op"], used, depth + 1)
    if r["k"] == "binop":
        o = r["op"].replace("WithOverflow", "").replace("Unchecked", "")
        x, y = _pad_eval(b, r["l"], used, depth + 1), _pad_eval(b, r["r"], used, depth + 1)
        if o == "BitAnd":
            for s, m in ((x, y), (y, x)):
                if s == ("bits_in",) and m == 7:
                    return used
                if s == ("fill",) and isinstance(m, int):
                    return ("fillmask", m)
                if isinstance(s, tuple) and s[0] == "fillmask" and isinstance(m, int):
                    return ("fillmask", s[1] & m)
        if isinstance(x, int) and isinstance(y, int):
            try:
                v = {"Add": x + y, "Sub": x - y, "Mul": x * y, "Shl": x << y if 0 <= y < 64 else None, "Shr": x >> y if 0 <= y < 64 else None,
                     "BitAnd": x & y, "BitOr": x | y, "BitXor": x ^ y, "Eq": int(x == y), "Ne": int(x != y), "Lt": int(x < y),
                     "Le": int(x <= y), "Gt": int(x > y), "Ge": int(x >= y), "Rem": x % y if y else None, "Div": x // y if y else None}.get(o)
            except Exception:
                v = None
            return v
        return None
    return None


def w6(F, rep):
    """The parser captures the bits between the last code and the byte boundary as one value (bit i = i-th padding bit);
    BitWriter::pad must put exactly those bits back: n = (8 - bits_in % 8) % 8 bits, bit i of the argument at position i.
    Two shapes are understood exactly — the bit-serial loop and a single masked write — anything else fails closed."""
    name = P + "bit_writer::BitWriter::pad"
    b = F.body(name)
    where = "%s:%s" % (b.file, b.line)
    ws = [(bb, t) for bb, t in b.calls() if strip_generics(callee_def(t)).endswith("BitWriter::write")]
    from ..common import macro_names as _mn
    _AS = ("assert", "assert_eq", "assert_ne", "debug_assert", "debug_assert_eq", "debug_assert_ne")
    other = [strip_generics(callee_def(t)) for bb, t in b.calls() if not strip_generics(callee_def(t)).endswith("BitWriter::write")
             and not re.search(r"convert::(From::from|Into::into)$", strip_generics(callee_def(t)))
             and not any(m in _AS for m in _mn(t.get("exp")))]          # assertion machinery is looked after by the failure-site rules
    counted = [o for o in other if re.search(r"(IntoIterator::into_iter|Iterator::next)$", o)]
    other = [o for o in other if o not in counted]
    if len(ws) != 1 or other:
        rep.add("W6", "pad-replays-captured-bits", False, where, "UNRECOGNISED-IDIOM: expected exactly one BitWriter::write call, found %d (+%s)" % (len(ws), other[:2]))
        return
    wb, wt = ws[0]
    in_loop = any(wb in b.reachable_from(s) for s in b.succ(wb))
    if in_loop and counted:
        # ---- counted loop: for i in 0..((8 - (bits_in & 7)) & 7) { write((fill >> i) & 1, 1) } -----------------
        BI = r"arg<&mut [^>]*BitWriter>\.bits_in"
        I = r"next\(into_iter\(Range\{K0, .*\}\)\) as Some\.0"
        vd = flow.describe(b, wt["args"][1])
        # the range end, described on its own (nested descriptors are abbreviated)
        ends = [flow.describe(b, s0["r"]["ops"][1]) for x in b.normal_blocks() for s0 in b.stmts(x)
                if s0["k"] == "assign" and s0["r"].get("k") == "agg" and s0["r"].get("adt") == "std::ops::Range" and flow.const_eval(b, s0["r"]["ops"][0]) == 0]
        ok_end = len(ends) == 1 and re.match(r"^BitAnd\(Sub\(K8, BitAnd\(%s, K7\)\)(\.0)?, K7\)$" % BI, ends[0]) is not None
        okc = (flow.const_eval(b, wt["args"][2]) == 1 and ok_end and
               re.match(r"^(?:\w+::)*(?:from|into)?\(?BitAnd\(Shr\(arg<u8>(#\d+)?, (cast\()?%s\)?\), K1\)\)?$" % I, vd) is not None)
        rep.add("W6", "pad-replays-captured-bits", okc, where,
                "counted loop over (8 - bits_in % 8) % 8 positions writing bit i of the captured value" if okc else "counted loop, but not `(fill >> i) & 1` for i in 0..((8 - (bits_in & 7)) & 7): %s" % vd[:200])
        return
    if in_loop:
        # ---- bit-serial loop -------------------------------------------------------------------
        why = []
        if flow.const_eval(b, wt["args"][2]) != 1:
            why.append("each iteration must write exactly one bit")
        # loop guard: (bits_in & 7) != 0, leaving the loop on 0
        guard = False
        for sb in sorted(b.normal_blocks()):
            t = b.term(sb)
            if t["k"] == "switch" and b.dominates(sb, wb) and re.match(r"^Ne\(BitAnd\(arg<&mut .*BitWriter>\.bits_in, K7\), K0\)$", flow.describe(b, t["d"])):
                zero = dict((v, x) for v, x in t["targets"]).get(0)
                if zero is not None and wb not in b.reachable_from(zero) and b.edge_dominates(sb, t["otherwise"], wb):
                    guard = True
        if not guard:
            why.append("loop is not guarded by (bits_in & 7) != 0")
        # the bit written: 1 exactly when fill & mask != 0, with mask = 1, 2, 4, ... ; or fill & 1 with fill >>= 1
        vp = op_place(wt["args"][1])
        vdefs = b.defs(vp["l"]) if vp is not None and not vp["p"] else []
        def _dconst(d):
            if d[2] == "assign" and d[3]["k"] == "use" and op_const(d[3]["op"]):
                return const_int(op_const(d[3]["op"]))
            return None
        consts = [_dconst(d) for d in vdefs]
        consts = sorted(consts) if all(c is not None for c in consts) else []
        walker = None
        vd = flow.describe(b, wt["args"][1])
        mb = re.match(r"^(?:\w+::)*(?:from|into)\(Ne\(BitAnd\((.*)\), K0\)\)$|^Ne\(BitAnd\((.*)\), K0\)$", vd)
        if mb:
            # the bool `fill & mask != 0` converted to an integer is the bit itself
            sel = mb.group(1) or mb.group(2)
            if re.match(r"^arg<u8>(#\d+)?, var\((\w+)\)$|^var\((\w+)\), arg<u8>(#\d+)?$", sel):
                walker = re.search(r"var\((\w+)\)", sel).group(1)
            else:
                why.append("the written bit is not `fill & mask != 0` (%s)" % sel)
        elif consts == [0, 1] and len(vdefs) == 2:
            one_bb = [d[0] for d in vdefs if const_int(op_const(d[3]["op"])) == 1][0]
            sel = None
            for sb in sorted(b.normal_blocks()):
                t = b.term(sb)
                if t["k"] != "switch" or not b.dominates(sb, wb):
                    continue
                m = re.match(r"^(Ne|Eq)\(BitAnd\((.*)\), K0\)$", flow.describe(b, t["d"]))
                if not m:
                    continue
                a = m.group(2)
                zero = dict((v, x) for v, x in t["targets"]).get(0)
                nz_edge = t["otherwise"] if m.group(1) == "Ne" else zero
                if nz_edge == one_bb or b.edge_dominates(sb, nz_edge, one_bb):
                    sel = a
            if sel and re.match(r"^arg<u8>(#\d+)?, var\((\w+)\)$|^var\((\w+)\), arg<u8>(#\d+)?$", sel):
                walker = re.search(r"var\((\w+)\)", sel).group(1)
            else:
                why.append("the written bit is not selected by `fill & mask != 0` (%s)" % sel)
        else:
            why.append("the written value is not a 0/1 selection")
        if walker:
            # mask local: starts at 1, doubled once per iteration after the write
            ml = [l for l in range(1, len(b.locals)) if b.locals[l].get("name") == walker]
            okm = False
            if len(ml) == 1:
                ds = b.defs(ml[0])
                init = [d for d in ds if d[2] == "assign" and d[3]["k"] == "use" and op_const(d[3]["op"]) is not None and const_int(op_const(d[3]["op"])) == 1 and not (d[0] in b.reachable_from(wb) and wb in b.reachable_from(d[0]))]
                step = [d for d in ds if d[2] == "assign" and d[3]["k"] == "binop" and d[0] in b.reachable_from(wb) and wb in b.reachable_from(d[0])]
                def doubles(d):
                    o = d[3]["op"].replace("WithOverflow", "").replace("Unchecked", "")
                    k = flow.const_eval(b, d[3]["r"])
                    lp = op_place(d[3]["l"])
                    return lp is not None and lp["l"] == ml[0] and ((o == "Shl" and k == 1) or (o == "Mul" and k == 2))
                okm = len(init) == 1 and len(step) == 1 and len(ds) == 2 and doubles(step[0])
            if not okm:
                why.append("the mask does not start at 1 and double once per written bit")
        rep.add("W6", "pad-replays-captured-bits", not why, where,
                "bit-serial loop: one bit per iteration while (bits_in & 7) != 0, bit i selected by mask 1<<i" if not why else "bit-serial loop, but " + "; ".join(why))
        return
    # ---- single masked write --------------------------------------------------------------------------
    bad = []
    for used in range(0, 8):
        # is the write reached for this phase?
        reached = True
        for sb in sorted(b.normal_blocks()):
            t = b.term(sb)
            if t["k"] != "switch" or not b.dominates(sb, wb) or sb == wb:
                continue
            dv = _pad_eval(b, t["d"], used)
            if not isinstance(dv, int):
                bad.append("UNRECOGNISED-IDIOM: a branch on the way to the write does not depend on bits_in & 7 alone")
                reached = None
                break
            tgt = dict((v, x) for v, x in t["targets"]).get(dv, t["otherwise"])
            if not (tgt == wb or wb in b.reachable_from(tgt)):
                reached = False
        if reached is None:
            break
        n = (8 - used) % 8
        if not reached:
            if n != 0:
                bad.append("bits_in %% 8 = %d: nothing is written, %d padding bits are due" % (used, n))
            continue
        w = _pad_eval(b, wt["args"][2], used)
        v = _pad_eval(b, wt["args"][1], used)
        if w != n:
            bad.append("bits_in %% 8 = %d: writes %s bits, %d are due" % (used, w, n))
        elif n and not (isinstance(v, tuple) and v[0] == "fillmask" and (v[1] & 0xff) == (1 << n) - 1):
            bad.append("bits_in %% 8 = %d: value is %s, expected fill & %#x" % (used, ("fill & %#x" % v[1]) if isinstance(v, tuple) and v[0] == "fillmask" else ("not a mask of the captured bits" if v is None or v == ("fill",) else v), (1 << n) - 1))
    rep.add("W6", "pad-replays-captured-bits", not bad, where,
            "single masked write: for every phase 1..7 writes 8-phase bits of fill & (2^n - 1), nothing when aligned" if not bad else "; ".join(bad[:3]))



def w9(F, rep):
    """Padding is written in exactly two places and with the captured bits: BitWriter::pad is called for a stored block's
    header filler (block.padding_bits) and from flush_with_padding(padding); flush_with_padding is called by the code that
    drives the writer with the captured end-of-stream padding, never by the writer on its own and never with a constant."""
    pads, flushes = [], []
    for name, b in sorted(F.bodies.items()):
        for bb, t in b.calls():
            cn = strip_generics(callee_def(t))
            if cn.endswith("BitWriter::pad"):
                pads.append((name.replace(P, ""), flow.describe(b, t["args"][1]), b.where(bb)))
            elif cn.endswith("DeflateWriter::flush_with_padding"):
                flushes.append((name.replace(P, ""), flow.describe(b, t["args"][1]), flow.const_eval(b, t["args"][1]), b.where(bb)))
    ok_p = len(pads) == 2 and sorted(p[0].split("::")[-1] for p in pads) == ["encode_block", "flush_with_padding"] and \
        any(re.search(r"\.padding_bits$", p[1]) for p in pads) and any(re.match(r"^arg<u8>", p[1]) for p in pads)
    rep.add("W9", "pad-called-for-stored-filler-and-final-flush-only", ok_p, pads[0][2] if pads else "", "BitWriter::pad call sites: %s" % [(p[0].split("::")[-1], p[1]) for p in pads])
    inside = [f for f in flushes if f[0].startswith("deflate_writer::")]
    consts = [f for f in flushes if f[2] is not None]
    rep.add("W9", "final-padding-comes-from-the-driver", bool(flushes) and not inside and not consts, flushes[0][3] if flushes else "",
            "flush_with_padding call sites: %s" % [(f[0].split("::")[-1], f[1][:80]) for f in flushes])


def w7(F, rep):
    """The codes a block's tokens are written with are the codes of that block's own header, computed the way the parser
    computes them: (a) encode_block hands encode_block_with_decoder a HuffmanWriter built *in this call* from
    block.huffman_encoding (or the fixed one) — nothing kept from an earlier block; (b) the writer and the parser both expand
    the run-length header through the one shared routine get_literal_distance_lengths, .0 for literals and .1 for distances."""
    b = F.body(P + "deflate_writer::DeflateWriter::encode_block")
    where = "%s:%s" % (b.file, b.line)
    DYN = re.compile(r"^branch\((preflate_rs::)?huffman_encoding::HuffmanWriter::start_dynamic_huffman_table\(arg<&mut preflate_rs::deflate_writer::DeflateWriter>\.bitwriter, arg<&preflate_rs::preflate_token::PreflateTokenBlock>\.huffman_encoding, .*\)\) as Continue\.0$")
    FIX = re.compile(r"^(preflate_rs::)?huffman_encoding::HuffmanWriter::start_fixed_huffman_table\(\)$")
    calls = [(bb, t) for bb, t in b.calls() if strip_generics(callee_def(t)).endswith("::encode_block_with_decoder")]
    rep.floor("W7", "token-encoding-calls", len(calls), 1)

    def origins(op, depth=0):
        """Descriptors of everything the writer handed over can be: one per definition when it is chosen in a `match`."""
        pl = op_place(op)
        if pl is None or depth > 6:
            return [flow.describe(b, op)]
        ds = b.defs(pl["l"])
        if pl["p"] == ["*"] and len(ds) == 1 and ds[0][2] == "assign" and ds[0][3]["k"] in ("ref", "rawptr"):
            return origins({"c": ds[0][3]["place"]}, depth + 1)         # a reborrow: look at what is borrowed
        if len(ds) <= 1 or pl["p"]:
            d0 = ds[0] if ds else None
            if d0 and d0[2] == "assign" and d0[3]["k"] in ("ref", "rawptr") and not pl["p"]:
                return origins({"c": d0[3]["place"]}, depth + 1)
            if d0 and d0[2] == "assign" and d0[3]["k"] == "use" and not pl["p"] and op_place(d0[3]["op"]) is not None and len(b.defs(op_place(d0[3]["op"])["l"])) > 1:
                return origins(d0[3]["op"], depth + 1)
            return [flow.describe(b, op)]
        out = []
        for d0 in ds:
            if d0[2] == "assign":
                out.append(flow.describe_rvalue(b, d0[3], names=False))
            elif d0[2] == "call":
                out.append("%s(%s)" % (strip_generics(callee_def(d0[3])), ", ".join(flow.describe(b, a) for a in d0[3]["args"])))
            else:
                out.append("?")
        return out
    kinds = set()
    for i, (bb, t) in enumerate(calls):
        ds = origins(t["args"][2])
        ok = bool(ds) and all(DYN.match(d) or FIX.match(d) for d in ds)
        kinds |= {"dyn" if DYN.match(d) else "fix" for d in ds if DYN.match(d) or FIX.match(d)}
        rep.add("W7", "codes-from-this-blocks-header#%d" % i, ok, b.where(bb), "encode_block_with_decoder(.., %s)" % [d[:160] for d in ds])
    rep.add("W7", "both-kinds-of-code-table-built-here", kinds == {"dyn", "fix"}, where, "writers handed to the token encoder: %s" % sorted(kinds))
    a = F.adts.get(P + "deflate_writer::DeflateWriter")
    held = [f["name"] for f in a["variants"][0]["fields"] if "Huffman" in f["ty"]] if a else ["?"]
    rep.add("W7", "writer-keeps-no-code-tables", not held, where, "DeflateWriter fields holding Huffman state across blocks: %s" % held)
    SH = r"(deref\()?(preflate_rs::)?huffman_encoding::HuffmanOriginalEncoding::get_literal_distance_lengths\(arg<&preflate_rs::huffman_encoding::HuffmanOriginalEncoding>\)\.%d\)?"
    for fn, callee in ((P + "huffman_encoding::HuffmanWriter::start_dynamic_huffman_table", "calc_huffman_codes"),
                       (P + "huffman_encoding::HuffmanReader::create_from_original_encoding", "calculate_huffman_code_tree")):
        fb = F.body(fn)
        ds = [flow.describe(fb, t["args"][0]) for bb, t in fb.calls() if strip_generics(callee_def(t)).endswith("::" + callee)]
        ok = len(ds) == 2 and re.match("^" + SH % 0 + "$", ds[0]) is not None and re.match("^" + SH % 1 + "$", ds[1]) is not None
        rep.add("W7", "shared-header-expansion:%s" % fn.split("::")[-1], ok, "%s:%s" % (fb.file, fb.line), "%s(%s)" % (callee, [d[:140] for d in ds]))
        # ... and the expanded lengths reach the code construction untouched: nothing borrows them mutably on the way
        muts = []
        for bb, t in fb.calls():
            cn = strip_generics(callee_def(t))
            if cn.endswith("::" + callee) or not t["args"]:
                continue
            a0 = t["args"][0]
            p0 = op_place(a0)
            if p0 is None or not fb.local_ty(p0["l"]).startswith("&mut "):
                continue
            if re.search(r"get_literal_distance_lengths\(.*\)\.[01]", flow.describe(fb, a0)):
                muts.append("%s at %s" % (cn.split("::")[-1], fb.where(bb)))
        rep.add("W7", "expanded-lengths-not-modified:%s" % fn.split("::")[-1], not muts, "%s:%s" % (fb.file, fb.line),
                "mutable uses of the expanded code lengths before the codes are built: %s" % muts)


def w11(F, rep):
    """The parsed token is a lossless record of (length 3..258, distance 1..32768, irregular-258 flag): the constructor stores
    the three arguments (the length possibly biased by 3) in fields wide enough for the whole range, each accessor returns
    its field unmasked, and the flag setter touches the flag only.  A packed representation that borrows a bit of the
    distance word loses distance 32768.  ⚠ enumerated record shape; anything else fails closed."""
    T = P + "preflate_token::PreflateTokenReference"
    adt = F.adts.get(T)
    where = ""
    if not adt or adt.get("kind") != "struct":
        rep.add("W11", "token-record-lossless", False, where, "PreflateTokenReference is not a plain struct")
        return
    fields = adt["variants"][0]["fields"]
    nb = F.body(T + "::new")
    where = "%s:%s" % (nb.file, nb.line)
    aggs = [s["r"] for bb in nb.normal_blocks() for s in nb.stmts(bb) if s["k"] == "assign" and s["r"]["k"] == "agg" and (s["r"].get("adt") or "").endswith("PreflateTokenReference")]
    why = []
    role = {}
    if len(aggs) != 1 or len(aggs[0]["ops"]) != len(fields):
        why.append("constructor does not build the record in one aggregate")
    else:
        for f, o in zip(fields, aggs[0]["ops"]):
            d = flow.describe(nb, o)
            bits = {"u8": 8, "u16": 16, "u32": 32, "u64": 64, "usize": 64}.get(f["ty"], 0)
            if re.match(r"^arg<u32>#1$", d) and bits >= 16:
                role["dist"] = f["name"]
            elif re.match(r"^Sub\(arg<u32>#0, K3\)(\.0)?$", d) and bits >= 8:
                role["len"] = (f["name"], 3)
            elif re.match(r"^arg<u32>#0$", d) and bits >= 16:
                role["len"] = (f["name"], 0)
            elif re.match(r"^arg<bool>(#0)?$", d) and f["ty"] == "bool":
                role["irr"] = f["name"]
        for k in ("dist", "len", "irr"):
            if k not in role:
                why.append("constructor stores no field for %s at full range" % k)

    def ret(fn):
        b = F.body(T + "::" + fn)
        return [flow.describe_rvalue(b, s["r"], names=False) for bb in b.normal_blocks() for s in b.stmts(bb) if s["k"] == "assign" and s["p"]["l"] == 0 and not s["p"]["p"]]
    A = r"arg<&(mut )?preflate_rs::preflate_token::PreflateTokenReference>"
    if not why:
        r = ret("dist")
        if not (len(r) == 1 and re.match(r"^%s\.%s$" % (A, role["dist"]), r[0])):
            why.append("dist() returns %s" % r)
        r = ret("len")
        fl, bias = role["len"]
        want = r"^Add\(%s\.%s, K3\)(\.0)?$" % (A, fl) if bias else r"^%s\.%s$" % (A, fl)
        if not (len(r) == 1 and re.match(want, r[0])):
            why.append("len() returns %s" % r)
        r = ret("get_irregular258")
        if not (len(r) == 1 and re.match(r"^%s\.%s$" % (A, role["irr"]), r[0])):
            why.append("get_irregular258() returns %s" % r)
        sb = F.body(T + "::set_irregular258")
        wr = [(s["p"], flow.describe_rvalue(sb, s["r"], names=False)) for bb in sb.normal_blocks() for s in sb.stmts(bb) if s["k"] == "assign" and s["p"]["p"] and s["p"]["l"] == 1]
        if not (len(wr) == 1 and any(isinstance(e, dict) and e.get("n") == role["irr"] for e in wr[0][0]["p"]) and re.match(r"^arg<bool>(#0)?$", wr[0][1])):
            why.append("set_irregular258 writes %s" % [(str(p["p"]), d) for p, d in wr])
    rep.add("W11", "token-record-lossless", not why, where, "; ".join(why) if why else "fields %s; accessors return them unmasked" % role)


def run(ctx, rep):
    F = ctx.lib
    rep.explanation = ("The serialiser is checked against the parser and the RFC without going through the predictor: exact piecewise summaries of the "
                       "quantize functions over the whole token alphabet (all 256 lengths, all 32768 distances) against the base/extra tables; must-pass-"
                       "through rules on the block writer (length symbol then distance symbol on every path through a reference, extra bits from the same "
                       "code, value<2^width for constant writes); block-type code map and final flag; bit-level protocol inclusion of the dynamic header; "
                       "capture-implies-replay for block and token fields.")
    rep.trusted = ["calc_huffman_codes agrees with calculate_huffman_code_tree (not decided)", "BitWriter packs LSB-first as BitReader unpacks (C03/T5 reads single bytes)"]
    w1(F, rep)
    w2(F, rep)
    w2b(ctx, rep)
    w3(F, rep)
    w4(F, rep)
    w5(F, rep)
    w6(F, rep)
    w7(F, rep)
    w9(F, rep)
    w11(F, rep)
    from .c03 import t11, t13
    t11(F, rep)
    t13(F, rep)
    # W12: the writer is total on what the reader produced: no new error result on the path that re-emits the tokens (the
    # count shared with C02/M11 and C08/P11 covers DeflateWriter and the header writer)
    from . import c04 as _c04
    _c04.rejections_rule(ctx, rep, "W12")
    # W8: what the parser captures as padding are exactly the bits left in the current byte, taken with the bit reader's own
    # read primitive (same rule as C03/T5 padding-count; a capture computed by hand from the reader's fields is not accepted)
    from . import c03
    from ..core import Report
    tmp = Report("tmp", "quick")
    c03.t5b(F, tmp)
    for o in tmp.obs:
        o.rule = "W8"
        rep.obs.append(o)
    # W10: reader and writer derive their codes from the same lengths by two routines (tree / code table); they agree because
    # both implement the canonical assignment over *complete* codes — the reader's construction and validity check must not grow
    # special cases the writer's routine does not have (same rule as C03/T9)
    tmp2 = Report("tmp", "quick")
    c03.t9(F, tmp2)
    for o in tmp2.obs:
        o.rule = "W10"
        rep.obs.append(o)
