"""C06 — embedded streams in supported wrappers are found and expanded (recogniser conformance).

G1 CONST: the two-byte signature table covers the zlib/zip/gzip/IDAT signatures and maps each to its handler.
G2 exhaustiveness: every Signature variant has an arm of the scanner from which a non-literal chunk can be pushed.
G3 FLOW: in each arm the accept predicate is implied by "more than 1024 bytes of plaintext".
G4 layout: zlib payload starts at index+2; gzip header skipping follows RFC 1952 (CM, flag masks in order, field
   kinds); zip local header fields have the APPNOTE widths/order, method 8, name and extra both skipped; IDAT
   look-back 4, type at +4, data at +8, CRC after the data, stride len+12.
G5 AFF: a failed probe advances the cursor by exactly one byte; an accepted probe resumes at the stream end.
Not decided: that an accepted stream is found at the right offset when look-alikes overlap; acceptance itself.
"""
import json, os, re
from .. import flow, alpha
from ..facts import op_place, callee_def, const_bytes, op_const
from ..common import strip_generics, PC
from .c03 import _var_def
from . import scan

P = "preflate_rs::"
SD = P + "scan_deflate::"
SPEC = json.load(open(os.path.join(os.path.dirname(os.path.dirname(os.path.dirname(os.path.abspath(__file__)))), "spec", "wrappers.json")))


def _edge_arm(b, sb, tgt):
    return {x for x in b.reachable_from(tgt) if b.edge_dominates(sb, tgt, x)}


def g1(F, rep):
    b = F.body(SD + "next_signature")
    where = "%s:%s" % (b.file, b.line)
    sig = _var_def(b, "sig")
    ok_sig = len(sig) == 1 and re.match(r"^from_le_bytes\(\S*array\{var\(src\)\[var\(i\)\], var\(src\)\[Add\(var\(i\), K1\)(\.0)?\]\}\)$", sig[0]) is not None
    d = [flow.describe(b, {"l": l, "p": []}) for l in b.locals_named("sig")]
    # the aggregate is an array of two indexed bytes
    arr = None
    for l in b.locals_named("sig"):
        dd = b.single_def(l)
        if dd and dd[2] == "call":
            o = flow.origin(b, dd[3]["args"][0], through=("use",))
            for _, _, r in o.exprs:
                if r["k"] == "agg" and r.get("ak") == "array":
                    arr = [flow.describe(b, x, names=True) for x in r["ops"]]
    ok_sig = arr is not None and len(arr) == 2 and arr[0] == "var(src)[var(i)]" and re.match(r"^var\(src\)\[Add\(var\(i\), K1\)(\.0)?\]$", arr[1]) is not None
    if not ok_sig and arr is not None and len(arr) == 2:
        # window form: the two bytes of `src.windows(2)`'s element
        for l in b.locals_named("sig"):
            dd = b.single_def(l)
            if dd and dd[2] == "call":
                o = flow.origin(b, dd[3]["args"][0], through=("use",))
                for _, _, r in o.exprs:
                    if r["k"] == "agg" and r.get("ak") == "array" and len(r["ops"]) == 2:
                        u = [flow.describe(b, x) for x in r["ops"]]
                        W = r"^next\(.*windows\((deref\()?arg<&\[u8\]>\)?, K2\).*\)( as Some)?\.0\.1\[K%d\]$"
                        ok_sig = re.match(W % 0, u[0]) is not None and re.match(W % 1, u[1]) is not None
    rep.add("G1", "signature=le16(src[i],src[i+1])", ok_sig, where, "sig := u16::from_le_bytes(%s)" % arr)
    got = {}
    for sb in sorted(b.normal_blocks()):
        st = b.term(sb)
        if st["k"] == "switch" and flow.describe(b, st["d"], names=True) == "var(sig)":
            for v, tgt in st["targets"]:
                for bb in sorted(_edge_arm(b, sb, tgt)):
                    for s in b.stmts(bb):
                        if s["k"] == "assign" and s["r"]["k"] == "agg" and s["r"].get("adt") == SD + "Signature":
                            got["0x%04X" % v] = s["r"]["vname"]
    missing = {k: v for k, v in SPEC["signatures_le16"].items() if got.get(k) != v}
    rep.add("G1", "signature-table", not missing, where, "recognised %s%s" % (got, "" if not missing else "; missing/mis-mapped %s" % missing))
    rep.floor("G1", "signatures", len(got), 7)
    # the loop visits every offset: for i in *index .. len-1, and stores i on a hit
    rng = None
    for bb in b.normal_blocks():
        for s in b.stmts(bb):
            if s["k"] == "assign" and s["r"]["k"] == "agg" and s["r"].get("adt") == "std::ops::Range":
                rng = [flow.describe(b, x, names=True) for x in s["r"]["ops"]]
    ok = rng is not None and rng[0] in ("var(index)", "deref(var(index))") and re.match(r"^Sub\(len\(var\(src\)\), K1\)(\.0)?$", rng[1]) is not None
    if not ok and rng is None:
        # window form: every pair of adjacent bytes from *index on
        idef = [flow.describe(b, {"l": l, "p": []}) for l in b.locals_named("i")]
        ok = len(idef) == 1 and re.match(r"^next\((into_iter\()?skip\(enumerate\(windows\((deref\()?arg<&\[u8\]>\)?, K2\)\), (deref\()?arg<&mut usize>\)?\)\)?\)( as Some)?\.0\.0$", idef[0]) is not None
        rng = idef
    rep.add("G1", "scan-range=index..len-1", ok, where, "for i in %s" % rng)


def g2_g3(F, rep):
    b = F.body(SD + "split_into_deflate_streams")
    where = "%s:%s" % (b.file, b.line)
    a = F.adts.get(SD + "Signature")
    disc = {v["discr"]: v["name"] for v in a["variants"]}
    arms = {}
    for sb in sorted(b.normal_blocks()):
        st = b.term(sb)
        if st["k"] == "switch" and flow.describe(b, st["d"], names=True) == "discr(var(signature))":
            for v, tgt in st["targets"]:
                if v in disc:
                    arms[disc[v]] = (sb, tgt)
    chunk = SD + "BlockChunk"
    for vname in sorted(disc.values()):
        if vname not in arms:
            rep.add("G2", "handler:" + vname, False, where, "no arm of the scanner handles Signature::%s" % vname)
            continue
        sb, tgt = arms[vname]
        arm = _edge_arm(b, sb, tgt)
        pushes = []
        for bb, t in b.calls():
            if bb in arm and strip_generics(callee_def(t)).endswith("Vec::push"):
                o = flow.origin(b, t["args"][1], through=("use",))
                for _, _, r in o.exprs:
                    if r["k"] == "agg" and r.get("adt") == chunk and r["vname"] != "Literal":
                        pushes.append((bb, r["vname"]))
        rep.add("G2", "handler:" + vname, bool(pushes), b.where(tgt), "arm can push %s" % sorted({p[1] for p in pushes}))
        # G3: each stream push lies on the true side of `len > c` with c <= 1024 (or `>= c`, c <= 1025)
        for pbb, pv in pushes:
            best = None
            for s2 in sorted(arm):
                st2 = b.term(s2)
                if st2["k"] != "switch":
                    continue
                d = flow.describe(b, st2["d"], names=True)
                m = re.match(r"^(Gt|Ge)\((len\(var\(\w+\)\.plain_text\)|var\(length\)|var\(\w+\)\.total_chunk_length), K(\d+)\)$", d)
                if not m:
                    continue
                c = int(m.group(3))
                if b.edge_dominates(s2, st2["otherwise"], pbb):
                    implied = (m.group(1) == "Gt" and c <= SPEC["min_plaintext"]) or (m.group(1) == "Ge" and c <= SPEC["min_plaintext"] + 1)
                    best = (d, implied)
            # other conditions on the accepting path that could reject a long stream
            rep.add("G3", "threshold:%s" % vname, best is not None and best[1], b.where(pbb),
                    "stream chunk is pushed on the true edge of `%s`" % (best[0] if best else "<no size test found>") + ("" if best and best[1] else " — not implied by plaintext > 1024"))
            # every other branch between the arm entry and the push must be a success test of a probe (Ok/is_ok), the index>=4 look-back test or the size test
            extra = []
            for s2 in sorted(arm):
                st2 = b.term(s2)
                if st2["k"] != "switch" or pbb not in b.reachable_from(s2) or s2 == pbb:
                    continue
                d = flow.describe(b, st2["d"], names=True)
                if re.match(r"^(Gt|Ge)\(", d) and ("plain_text" in d or "length" in d or "total_chunk_length" in d):
                    continue
                # the IDAT look-back test: the 4-byte length field must lie before the signature and (after the D9 fix)
                # not inside a stream that was already emitted — excluded by the property ("bytes that do not themselves form an
                # acceptable stream overlapping it")
                if re.match(r"^discr\(", d):
                    # the outcome of a probe (`if let Ok(..) = decoder(..)`), of the header skipper or of `?` - not the
                    # outcome of anything else: `match data.first()` inside a plausibility helper is a further condition
                    # (seed10-c06a: a pre-filter on the first payload byte with the wrong mask)
                    pd = op_place(st2["d"])
                    dd = b.single_def(pd["l"]) if pd is not None and not pd["p"] else None
                    srcs = _discr_sources(b, dd) if dd and dd[2] == "assign" and dd[3]["k"] == "discr" else ["?"]
                    bad = [c for c in srcs if not re.search(r"(Try>?::branch|from_residual|decompress_deflate_stream|parse_zip_stream|parse_idat|skip_gzip_header|next_signature|Iterator::next|into_iter|result::Result::(ok|as_ref|map_err|is_ok)|option::Option::(as_ref|ok_or))$", c) and c != "?"]
                    if not bad:
                        continue
                    extra.append("outcome of %s" % bad[0])
                    continue
                if re.match(r"^is_ok\(", d) or d == "Ge(var(index), K4)" or re.match(r"^Ge\(var\(index\), Add\(var\(prev_index\), K4\)(\.0)?\)$", d):
                    continue
                if re.match(r"^var\(_\d+\)$", d) and _is_drop_flag(b, st2["d"]):   # drop flags: compiler-made, only ever assigned constants
                    continue
                # (after the D11 fix) the IDAT payload must be exactly the stream: `compressed_size == payload.len()` only
                # rejects payloads with bytes between the last block and the Adler-32, which the property does not cover
                # (it embeds S itself as the payload) and which the container could not represent
                if vname == "IDAT" and re.match(r"^(Eq|Ne)\(var\(res\)\.compressed_size, len\(var\(payload\)\)\)$", d):
                    continue
                extra.append(d)
            rep.add("G3", "no-extra-accept-condition:%s" % vname, not extra, b.where(tgt), "additional conditions on the accepting path: %s" % extra)
    rep.floor("G2", "signature-variants", len(disc), 4)


def _arg_desc(b, t, i):
    return flow.describe(b, t["args"][i], names=True)


def g4(F, rep):
    b = F.body(SD + "split_into_deflate_streams")
    # ---- zlib: payload at index + 2 ------------------------------------------------------------
    probes = [(bb, t) for bb, t in b.calls() if strip_generics(callee_def(t)) == PC + "decompress_deflate_stream"]
    descs = [_arg_desc(b, t, 0) for _, t in probes]
    # the payload offset may be written in place or held in a local first; every local of that name is then judged by its own definitions
    ZL, GZ = r"^Add\(var\(index\), K2\)(\.0)?$", r"^Add\(var\(index\), position\(var\(cursor\)\)\)(\.0)?$"
    per_local = []
    for l in b.locals_named("start"):
        ds = [flow.describe_rvalue(b, payload, names=True) if kind == "assign" else "call" for _, _, kind, payload in b.defs(l)]
        ds = [d for d in ds if d != "var(start)"] or ds[:1]
        per_local.append(ds)
    via = any(re.match(r"^index\(var\(src\), RangeFrom\{var\(start\)\}\)$", d) for d in descs)
    # other arms may keep an offset of their own under the same name (`index + header_size` for zip): any `index + x` is an
    # offset from the signature; only the zlib and gzip forms may feed a probe (counted below)
    OFF = r"^Add\(var\(index\), .+\)(\.0)?$"
    all_known = all(ds and all(re.match(OFF, d) for d in ds) for ds in per_local)
    per_probe = [ds for ds in per_local if all(re.match(ZL, d) or re.match(GZ, d) for d in ds)]
    zl_direct = any(re.match(r"^index\(var\(src\), RangeFrom\{Add\(var\(index\), K2\)(\.0)?\}\)$", d) for d in descs)
    n_via = sum(1 for d in descs if re.match(r"^index\(var\(src\), RangeFrom\{var\(start\)\}\)$", d))
    zl_local = via and all_known and n_via == len(per_probe) and any(ds and all(re.match(ZL, d) for d in ds) for ds in per_local)
    rep.add("G4", "zlib:payload-at-index+2", zl_direct or zl_local, b.where(probes[0][0]) if probes else "",
            "probe inputs: %s; start := %s" % (descs, per_local))
    rep.add("G4", "gzip:payload-after-header", via and all_known and any(ds and all(re.match(GZ, d) for d in ds) for ds in per_local), "", "start := %s" % per_local)
    cur = [t for bb, t in b.calls() if strip_generics(callee_def(t)) == "std::io::Cursor::new"]
    rep.add("G4", "gzip:cursor-at-signature", len(cur) == 1 and re.match(r"^index\(var\(src\), RangeFrom\{var\(index\)\}\)$", _arg_desc(b, cur[0], 0)) is not None, "", "Cursor::new(%s)" % (_arg_desc(b, cur[0], 0) if cur else None))
    # ---- gzip header -----------------------------------------------------------------------------
    _gzip(F, rep)
    # ---- zip ---------------------------------------------------------------------------------------
    z = F.body(SD + "ZipLocalFileHeader::create_and_load")
    zw = "%s:%s" % (z.file, z.line)
    rd = sorted([(bb, t) for bb, t in z.calls() if t["callee"].get("trait") == "byteorder::ReadBytesExt"], key=lambda x: len(z.dominators().get(x[0], ())))
    widths = [{"read_u32": 4, "read_u16": 2, "read_u64": 8, "read_u8": 1}.get(t["callee"]["def"].split("::")[-1]) for _, t in rd]
    le = all("LittleEndian" in (t["callee"].get("inst", "") + t["callee"].get("args", "")) or t["callee"]["def"].endswith("read_u8") for _, t in rd)
    rep.add("G4", "zip:local-header-field-widths", widths == SPEC["zip"]["field_widths"] and le, zw, "fields read in order with widths %s little-endian=%s (APPNOTE: %s)" % (widths, le, SPEC["zip"]["field_widths"]))
    # each read lands in the struct field of the same position
    agg = [s["r"] for bb in z.normal_blocks() for s in z.stmts(bb) if s["k"] == "assign" and s["r"]["k"] == "agg" and s["r"].get("adt") == SD + "ZipLocalFileHeader"]
    pos_ok = False
    if len(agg) == 1:
        order = []
        for o in agg[0]["ops"]:
            org = flow.origin(z, o)
            cs = [bb for bb, _ in org.calls if any(bb == r[0] for r in rd)] or [bb for bb, t in org.calls]
            # trace through `?`: the payload's Try::branch argument
            d = flow.describe(z, o)
            order.append(d)
        names = agg[0]["fields"]
        pos_ok = names == ["local_file_header_signature", "version_needed_to_extract", "general_purpose_bit_flag", "compression_method", "last_mod_file_time",
                           "last_mod_file_date", "crc32", "compressed_size", "uncompressed_size", "file_name_length", "extra_field_length"]
    rep.add("G4", "zip:field-order", pos_ok, zw, "struct fields filled in declaration order %s" % (agg[0]["fields"] if agg else None))
    pz = F.body(SD + "parse_zip_stream")
    pw = "%s:%s" % (pz.file, pz.line)
    sigc = F.const_int(SD + "ZIP_LOCAL_FILE_HEADER_SIGNATURE")
    rep.add("G4", "zip:signature-constant", sigc == SPEC["zip"]["signature"], pw, "ZIP_LOCAL_FILE_HEADER_SIGNATURE = 0x%08x" % sigc)
    tests = [flow.describe(pz, pz.term(sb)["d"], names=True) for sb in pz.normal_blocks() if pz.term(sb)["k"] == "switch"]
    dcalls = [bb for bb, t in pz.calls() if strip_generics(callee_def(t)).endswith("decompress_deflate_stream")]

    def _only_when_equal(pattern, k):
        """The decoder is reached only along the `== k` outcome of a test of `pattern` against k (written as == or !=)."""
        for sb in sorted(pz.normal_blocks()):
            st = pz.term(sb)
            if st["k"] != "switch" or len(st["targets"]) != 1:
                continue
            m = re.match(r"^(Eq|Ne)\((.*), K(\d+)\)$", flow.describe(pz, st["d"], names=True))
            if not m or int(m.group(3)) != k or not re.match(pattern, m.group(2)):
                continue
            eq_edge = st["otherwise"] if m.group(1) == "Eq" else st["targets"][0][1]
            if dcalls and all(pz.edge_dominates(sb, eq_edge, c) for c in dcalls):
                return True
        return False
    rep.add("G4", "zip:signature-checked", _only_when_equal(r"^var\(signature\)$|^var\(zip_local_file_header\)\.local_file_header_signature$", SPEC["zip"]["signature"]), pw,
            "the decoder is only reached when the signature equals 0x%08x; tests: %s" % (SPEC["zip"]["signature"], [d for d in tests if "signature" in d]))
    rep.add("G4", "zip:method-8", _only_when_equal(r"^var\(zip_local_file_header\)\.compression_method$", 8), pw,
            "the decoder is only reached when compression_method == 8; tests: %s" % [d for d in tests if "compression_method" in d])
    fn = [flow.describe(pz, t["args"][0], names=True) + "," + flow.describe(pz, t["args"][1], names=True) for bb, t in pz.calls() if strip_generics(callee_def(t)).endswith("vec::from_elem")]
    rep.add("G4", "zip:file-name-skipped", any("file_name_length" in d for d in fn) and any(t["callee"]["def"].endswith("Read::read_exact") for bb, t in pz.calls()), pw, "name buffer sized by %s and filled with read_exact" % fn)
    sk = [flow.describe(pz, t["args"][1]) for bb, t in pz.calls() if t["callee"]["def"].endswith("Seek::seek")]
    rep.add("G4", "zip:extra-field-skipped", len(sk) == 1 and "Current" in sk[0] and "extra_field_length" in sk[0], pw, "seek(%s)" % sk)
    st_ = _var_def(pz, "deflate_start_position")
    rep.add("G4", "zip:payload-at-stream-position", len(st_) == 1 and "stream_position(var(binary_reader))" in st_[0], pw, "deflate_start_position := %s" % st_)
    zd = [flow.describe(pz, t["args"][0], names=True) for bb, t in pz.calls() if strip_generics(callee_def(t)).endswith("decompress_deflate_stream")]
    rep.add("G4", "zip:payload-to-end-of-input", len(zd) >= 1 and all(re.match(r"^index\(var\(contents\), RangeFrom\{var\(deflate_start_position\)\}\)$", d) for d in zd), pw,
            "the decoder gets everything from the payload start on (the local header's size fields are 0 for streamed entries): %s" % zd)
    # ---- IDAT ----------------------------------------------------------------------------------------
    rs = _var_def(b, "real_start")
    rep.add("G4", "png:look-back-4", len(rs) == 1 and re.match(r"^Sub\(var\(index\), K4\)(\.0)?$", rs[0]) is not None, "", "real_start := %s" % rs)
    pi = F.body(P + "idat_parse::parse_idat")
    iw = "%s:%s" % (pi.file, pi.line)
    ct = _var_def(pi, "chunk_type")
    rep.add("G4", "png:type-at+4..+8", len(ct) == 1 and re.match(r"^index\(var\(png_idat_stream\), Range\{Sum\(var\(pos\), K4\), Sum\(var\(pos\), K8\)\}\)$", flow.canon_sums(ct[0])) is not None, iw, "chunk_type := %s" % ct)
    ck = _var_def(pi, "chunk")
    rep.add("G4", "png:data-at+8", len(ck) == 1 and re.match(r"^index\(var\(png_idat_stream\), Range\{Sum\(var\(pos\), K8\), Sum\(var\(chunk_len\), var\(pos\), K8\)\}\)$", flow.canon_sums(ck[0])) is not None, iw, "chunk := %s" % ck)
    # the zlib stream is the concatenation of the *whole* payload of every chunk; header and Adler-32 are split off the
    # concatenation (chunk boundaries may fall anywhere, also inside the 2-byte header or the 4-byte checksum)
    ex = [flow.describe(pi, t["args"][1], names=True) for bb, t in pi.calls() if strip_generics(callee_def(t)).endswith("extend_from_slice")
          and flow.describe(pi, t["args"][0], names=True) == "var(deflate_stream)"]
    rep.add("G4", "png:whole-chunk-appended", ex == ["var(chunk)"], iw, "deflate_stream.extend_from_slice(%s)" % ex)
    zh = _var_def(pi, "idat_zlib_header")
    rep.add("G4", "png:zlib-header-from-concatenation", len(zh) == 1 and re.match(r"^array\{index\(var\(deflate_stream\), K0\), index\(var\(deflate_stream\), K1\)\}$", zh[0]) is not None, iw, "idat_zlib_header := %s" % zh)
    body = [flow.describe(pi, t["args"][0], names=True) for bb, t in pi.calls() if strip_generics(callee_def(t)).endswith("to_vec")]
    ok_body = body == ["index(var(deflate_stream), Range{K2, Sub(len(var(deflate_stream)), K4).0})"] or body == ["index(var(deflate_stream), Range{K2, Sub(len(var(deflate_stream)), K4)})"]
    if not ok_body and not body:
        # in place: truncate(len - 4) then drain(..2), in that order, and the trimmed vector is what is returned
        tr = [(bb, flow.describe(pi, t["args"][1], names=True)) for bb, t in pi.calls() if strip_generics(callee_def(t)).endswith("Vec::truncate") and flow.describe(pi, t["args"][0], names=True) == "var(deflate_stream)"]
        dr = [(bb, flow.describe(pi, t["args"][1], names=True)) for bb, t in pi.calls() if strip_generics(callee_def(t)).endswith("Vec::drain") and flow.describe(pi, t["args"][0], names=True) == "var(deflate_stream)"]
        ok_body = (len(tr) == 1 and len(dr) == 1 and re.match(r"^Sub\(len\(var\(deflate_stream\)\), K4\)(\.0)?$", tr[0][1]) is not None and
                   re.match(r"^RangeTo\{K2\}$", dr[0][1]) is not None and pi.dominates(tr[0][0], dr[0][0]))
        body = ["truncate(%s); drain(%s)" % (tr[0][1] if tr else None, dr[0][1] if dr else None)]
    rep.add("G4", "png:stream=concatenation[2..len-4]", ok_body, iw, "returned stream := %s" % body)
    cl = _var_def(pi, "chunk_len")
    ok_len = len(cl) == 1 and "from_be_bytes" in cl[0]
    rep.add("G4", "png:length-big-endian", ok_len, iw, "chunk_len := %s" % [x[:120] for x in cl])
    # "IDAT" comparisons
    idat = 0
    for bb in range(pi.n):
        for s in pi.stmts(bb):
            if s["k"] == "assign" and s["r"]["k"] == "use":
                k = op_const(s["r"]["op"])
                if k is not None and const_bytes(k) == b"IDAT":
                    idat += 1
    rep.add("G4", "png:type-is-IDAT", idat >= 2, iw, "%d comparisons against b\"IDAT\"" % idat)
    # stride: pos += chunk_len + 12
    stride = False
    for l in pi.locals_named("pos"):
        for dbb, idx, kind, payload in pi.defs(l):
            if kind == "assign" and payload["k"] in ("use",):
                d = flow.describe(pi, payload["op"], names=True)
                if re.match(r"^Sum\(var\(chunk_len\), var\(pos\), K12\)$", flow.canon_sums(d)):
                    stride = True
    rep.add("G4", "png:stride=len+12", stride, iw, "pos += chunk_len + 12")
    arrays = []
    for bb, t in pi.calls():
        if callee_def(t).endswith("from_be_bytes"):
            o = flow.origin(pi, t["args"][0], through=("use",))
            for _, _, r in o.exprs:
                if r["k"] == "agg" and r.get("ak") == "array":
                    arrays.append([flow.canon_sums(flow.describe(pi, x, names=True)) for x in r["ops"]])
    want_len = [r"^var\(png_idat_stream\)\[var\(pos\)\]$"] + [r"^var\(png_idat_stream\)\[Sum\(var\(pos\), K%d\)\]$" % k for k in (1, 2, 3)]
    want_crc = [r"^var\(png_idat_stream\)\[Sum\(var\(chunk_len\), var\(pos\), K%d\)\]$" % k for k in (8, 9, 10, 11)]

    def has(want):
        return any(len(a) == 4 and all(re.match(w, x) for w, x in zip(want, a)) for a in arrays)
    rep.add("G4", "png:length-at+0..+4", has(want_len), iw, "big-endian length assembled from %s" % (arrays[0] if arrays else None))
    rep.add("G4", "png:crc-after-data", has(want_crc), iw, "big-endian CRC assembled from %s" % (arrays[-1] if arrays else None))


def _region_dfa(F, fn, start, stop, scope):
    from .. import proto, lts
    M = proto.Machine(F, alpha.Consume(scope), "r")
    b = F.body(fn)
    M.stops = {(fn, x) for x in b.reachable_from(stop)}     # everything at or after the join
    n, tr, acc = _explore_from(M, fn, start)
    return lts.canonical_dfa(n, tr, acc)


def _explore_from(M, fn, start):
    from .. import lts
    from collections import deque
    cache = {}
    s0 = ((fn, start, ()),)
    ids = {s0: 0}
    trans, acc = {}, set()
    dq = deque([s0])
    while dq:
        s = dq.popleft()
        for it in M.frontier(s, cache):
            if it[0] == "exit":
                if it[1] != "Err":
                    acc.add(ids[s])
                continue
            _, label, where, binder, nxt = it
            if nxt not in ids:
                ids[nxt] = len(ids)
                dq.append(nxt)
            trans.setdefault(ids[s], []).append((label, ids[nxt]))
    return len(ids), trans, acc


def _spec_dfa(kind):
    from .. import lts
    if kind == "2 bytes":
        return lts.canonical_dfa(2, {0: [(("fixed", 2), 1)]}, {1})
    if kind == "len16le+bytes":
        return lts.canonical_dfa(3, {0: [(("fixed", 2), 1)], 1: [(("var",), 2)]}, {2})
    if kind == "zero-terminated":
        return lts.canonical_dfa(2, {0: [(("fixed", 1), 1)], 1: [(("fixed", 1), 1)]}, {1})
    raise KeyError(kind)


def _gzip(F, rep):
    g = F.body(SD + "skip_gzip_header")
    gw = "%s:%s" % (g.file, g.line)
    spec = SPEC["gzip"]
    scope = [n for n in F.bodies if n.startswith(SD)]
    # the first thing consumed is the 10-byte fixed header
    from .. import proto
    M = proto.Machine(F, alpha.Consume(scope), "r")
    first = set()
    for it in M.frontier(M.initial(SD + "skip_gzip_header"), {}):
        if it[0] == "event":
            first.add(it[1])
    rep.add("G4", "gzip:fixed-header-10", first == {("fixed", spec["fixed_header"])}, gw, "first consumption: %s" % sorted(first))
    # which local holds the header bytes: the buffer of that first read
    hdr = None
    for bb, t in sorted(g.calls(), key=lambda x: len(g.dominators().get(x[0], ()))):
        if t["callee"].get("trait") == "std::io::Read" and t["callee"]["def"].endswith("read_exact"):
            hdr = alpha.buffer_shape(g, t["args"][1])[2]
            break

    def byte_of_header(op):
        """k if the operand is (a copy of) header[k]"""
        o = flow.origin(g, op, through=("use",))
        # describe without names expands user variables: header is an array local filled by read_exact
        p = op_place(op)
        seen = set()
        while p is not None and p["l"] not in seen:
            seen.add(p["l"])
            idx = [e for e in p["p"] if isinstance(e, dict) and "i" in e]
            if p["l"] == hdr and idx:
                return flow.const_eval(g, {"c": {"l": idx[0]["i"], "p": []}})
            d = g.single_def(p["l"])
            if d and d[2] == "assign" and d[3]["k"] == "use":
                p = op_place(d[3]["op"])
            else:
                ds = [x for x in g.defs(p["l"]) if x[2] == "assign" and x[3]["k"] == "use"]
                p = op_place(ds[0][3]["op"]) if len(ds) == 1 and len(g.defs(p["l"])) == 1 else None
        return None

    cm = None
    tests = []
    for sb in sorted(g.normal_blocks(), key=lambda x: len(g.dominators().get(x, ()))):
        st = g.term(sb)
        if st["k"] != "switch":
            continue
        dp = op_place(st["d"])
        if dp is None:
            continue
        d = g.single_def(dp["l"])
        if not d or d[2] != "assign" or d[3]["k"] != "binop" or d[3]["op"] not in ("Ne", "Eq"):
            continue
        r = d[3]
        c = flow.const_eval(g, r["r"])
        lp = op_place(r["l"])
        if c is None or lp is None:
            continue
        ld = g.single_def(lp["l"])
        f = [x for v, x in st["targets"] if v == 0]
        if ld and ld[2] == "assign" and ld[3]["k"] == "binop" and ld[3]["op"] == "BitAnd" and c == 0:
            k = byte_of_header(ld[3]["l"])
            mask = flow.const_eval(g, ld[3]["r"])
            if k is not None and mask is not None and f:
                set_edge, clear_edge = (st["otherwise"], f[0]) if r["op"] == "Ne" else (f[0], st["otherwise"])
                tests.append((sb, k, mask, set_edge, clear_edge))
        else:
            k = byte_of_header(r["l"])
            if k is not None and f:
                from .guard import _leads_only_to_err
                bad_edge = st["otherwise"] if r["op"] == "Ne" else f[0]
                cm = (k, c, _leads_only_to_err(F, g, bad_edge))
    rep.add("G4", "gzip:method-byte", cm is not None and cm[0] == spec["cm_offset"] and cm[1] == spec["cm_deflate"] and cm[2], gw,
            "header[%s] must equal %s else Err: %s" % (cm[0] if cm else None, cm[1] if cm else None, cm[2] if cm else None))
    got = []
    for sb, k, mask, set_edge, clear_edge in tests:
        try:
            rows = _region_dfa(F, SD + "skip_gzip_header", set_edge, clear_edge, scope)
        except Exception as e:
            rows = "UNRECOGNISED-IDIOM: %s" % e
        got.append((k, mask, rows))
    want = [(spec["flg_offset"], mask, _spec_dfa(kind)) for name, mask, kind in spec["optional_in_order"]]
    ok = [(k, m) for k, m, _ in got] == [(k, m) for k, m, _ in want] and all(a[2] == b[2] for a, b in zip(got, want))
    rep.add("G4", "gzip:optional-fields-in-order", ok, gw,
            "flag tests on header[k] in dominance order (k, mask): %s — RFC 1952: %s; field shapes %s" % (
                [(k, m) for k, m, _ in got], [(k, m) for k, m, _ in want],
                "match" if all(len(got) == len(want) and a[2] == b[2] for a, b in zip(got, want)) else "differ: %s" % [(m, r) for k, m, r in got]))


def g7(F, rep):
    """The expanded container carries the plaintext: in write_chunk_block every path through the DeflateStream / IDATDeflate
    arm that produces a result passes through write_all(<that variant's>.plain_text)."""
    from .. import err
    b = F.body(PC + "write_chunk_block")
    sw = None
    for bb in sorted(b.normal_blocks()):
        t = b.term(bb)
        if t["k"] != "switch":
            continue
        p = op_place(t["d"])
        d = b.single_def(p["l"]) if p is not None and not p["p"] else None
        if d and d[2] == "assign" and d[3]["k"] == "discr" and d[3]["place"]["l"] == 1 and d[3]["place"]["p"] in ([], ["*"]):
            sw = t
            break
    rep.add("G7", "variant-dispatch", sw is not None, b.where(0), "write_chunk_block dispatches on the BlockChunk variant")
    if sw is None:
        return
    adt = F.adts.get(SD + "BlockChunk")
    prods = err.result_producers(b, F)
    n = 0
    for v in adt["variants"]:
        if v["name"] == "Literal":
            continue
        entry = dict((x, y) for x, y in sw["targets"]).get(v["discr"])
        if entry is None:
            rep.add("G7", "arm:" + v["name"], False, b.where(0), "no arm for this variant")
            continue
        pat = re.compile(r"^deref\((deref\()?arg<[^>]*BlockChunk>\)? as %s\.\d+\.plain_text\)$|^deref\(arg<[^>]*BlockChunk> as %s\.\d+\.plain_text\)$" % (re.escape(v["name"]), re.escape(v["name"])))
        W = set()
        for bb, t in b.calls():
            if strip_generics(callee_def(t)).endswith("Write::write_all") and len(t["args"]) > 1 and pat.match(flow.describe(b, t["args"][1])):
                W.add(bb)
        n += len(W)
        # success continuation of those writes: blocks only reachable through a write
        free = b.reachable_from(entry, avoid=W)
        leaks = [(bb, what) for bb, what in prods if bb in free]
        rep.add("G7", "plaintext-carried:" + v["name"], bool(W) and not leaks, b.where(entry),
                "%d write(s) of %s.plain_text; results produced without passing one: %s" % (len(W), v["name"], [(b.where(bb), w) for bb, w in leaks][:3]))
    rep.floor("G7", "plaintext-writes", n, 2)
    # ... and what the scanner found is what gets written: expand_zlib_chunks hands every recorded chunk to write_chunk_block
    # as it is (no chunk is rebuilt or downgraded on the way)
    e = F.body(PC + "expand_zlib_chunks")
    wc = [(bb, t) for bb, t in e.calls() if strip_generics(callee_def(t)).endswith("::write_chunk_block")]
    ds = [flow.describe(e, t["args"][0]) for bb, t in wc]
    rebuilt = [e.where(bb) for bb in sorted(e.normal_blocks()) for s in e.stmts(bb)
               if s.get("k") == "assign" and (s.get("r") or {}).get("k") == "agg" and (s.get("r") or {}).get("adt") == SD + "BlockChunk"]
    rep.add("G7", "recorded-chunks-written-unchanged", len(wc) == 1 and re.match(r"^next\(into_iter\(.*\)\) as Some\.0$", ds[0]) is not None and not rebuilt,
            "%s:%s" % (e.file, e.line), "write_chunk_block(%s, ..); BlockChunk values constructed in expand_zlib_chunks: %s" % ([d[:120] for d in ds], rebuilt))


def _is_drop_flag(b, op):
    """A compiler-made bool that is only ever assigned constants (drop flag of a conditionally moved value)."""
    p = op_place(op)
    if p is None or p["p"] or b.local_name(p["l"]):
        return False
    ds = b.defs(p["l"])
    return bool(ds) and all(d[2] == "assign" and d[3]["k"] == "use" and op_const(d[3]["op"]) is not None for d in ds)


_IDAT_DECISIONS = [
    (r"^Lt\(len\(var\(png_idat_stream\)\), K12\)$", "input shorter than one chunk frame"),
    (r"^ne\(index\(var\(png_idat_stream\), Range\{K4, K8\}\), const:.*\)$", "first chunk is not IDAT"),
    (r"^Le\(Sum\(var\(pos\), K12\), len\(var\(png_idat_stream\)\)\)$", "loop: another chunk frame fits"),
    (r"^ne\(var\(chunk_type\), const:.*\)$", "next chunk is not IDAT: end of the run"),
    (r"^Gt\(Sum\(var\(chunk_len\), var\(pos\), K12\), len\(var\(png_idat_stream\)\)\)$", "chunk runs past the input: end of the run"),
    (r"^(Eq|Ne)\(var\(chunk_len\), K0\)$", "empty chunk: end of the run (D10)"),
    (r"^(Ne|Eq)\(.*from_be_bytes\(array\{var\(png_idat_stream\)\[Sum\(var\(chunk_len\), var\(pos\), K8\).*$", "the computed CRC (however it is computed) against the four stored CRC bytes"),
    (r"^(Gt|Ge)\(var\(deflate_info_dump_level\), K\d+\)$", "logging"),
    (r"^Lt\(len\(var\(deflate_stream\)\), K6\)$", "payload shorter than zlib header + Adler-32"),
]


def g8(F, rep):
    """parse_idat accepts every run of consecutive, intact IDAT chunks (any chunking, any zlib header the deflate parser then
    accepts): the conditions under which it stops collecting or refuses are exactly the enumerated ones.  A further test (on
    the zlib header bytes, on chunk sizes ...) makes some PNGs silently fall back to a literal copy.  ⚠ closed world."""
    b = F.body(P + "idat_parse::parse_idat")
    extra = []
    n = 0
    for sb in sorted(b.normal_blocks()):
        st = b.term(sb)
        if st["k"] != "switch" or st.get("exp") or _is_drop_flag(b, st["d"]):
            continue
        from .c04 import _panics as _pn
        if any(_pn(b, x) for x in [y for _, y in st["targets"]] + [st["otherwise"]]) or flow.const_eval(b, st["d"]) is not None:
            continue                     # an assertion (looked after by the failure-site rules) / `cfg!(debug_assertions)`
        p = op_place(st["d"])
        dd = b.single_def(p["l"]) if p is not None and not p["p"] else None
        if dd and dd[2] == "assign" and dd[3]["k"] == "discr":
            continue                     # match on an enum / Option (iterator plumbing)
        d = flow.canon_sums(flow.describe(b, st["d"], names=True))
        n += 1
        if not any(re.match(pat, d) for pat, _ in _IDAT_DECISIONS):
            extra.append("%s at %s" % (d[:120], b.where(sb)))
    rep.add("G8", "idat-walk-decisions-enumerated", not extra, "%s:%s" % (b.file, b.line),
            "%d decisions, all among the %d enumerated ones" % (n, len(_IDAT_DECISIONS)) if not extra else "decisions outside the enumerated set: %s" % extra[:3])
    rep.floor("G8", "idat-decisions", n, 6)


_ZIP_DECISIONS = [
    (r"^(Ne|Eq)\((var\(signature\)|var\(zip_local_file_header\)\.local_file_header_signature), K\d+\)$", "local file header signature"),
    (r"^(Ne|Eq)\(var\(zip_local_file_header\)\.compression_method, K8\)$", "method 8 = deflate"),
    (r"^(Gt|Ge)\(var\(deflate_start_position\), len\(var\(contents\)\)\)$", "name / extra field run past the input (D-fix guard)"),
    (r"^(Le|Lt)\(var\(deflate_start_position\), len\(var\(contents\)\)\)$", "name / extra field run past the input (D-fix guard)"),
]


def g9(F, rep):
    """parse_zip_stream accepts every local file header with the signature and method 8 whose payload the deflate parser
    accepts — whatever the name, extra field, flags, sizes or version fields hold (names are only UTF-8 when flag bit 11 is
    set, sizes are 0 for streamed entries ...).  Its data-dependent decisions are exactly the enumerated ones.  ⚠ closed world."""
    b = F.body(SD + "parse_zip_stream")
    extra = []
    n = 0
    for sb in sorted(b.normal_blocks()):
        st = b.term(sb)
        if st["k"] != "switch" or _is_drop_flag(b, st["d"]):
            continue
        p = op_place(st["d"])
        dd = b.single_def(p["l"]) if p is not None and not p["p"] else None
        if dd and dd[2] == "assign" and dd[3]["k"] == "discr":
            # `?` on a read / seek, `if let Ok(res) = decoder(..)`: outcomes of I/O on the cursor and of the decoder are the
            # permitted rejections; a match on the outcome of anything else (a validation helper) is a further condition
            calls = _discr_sources(b, dd)
            bad = [c for c in calls if not re.search(r"(Try>?::branch|create_and_load|read_exact|Seek::seek|stream_position|decompress_deflate_stream|from_residual)$", c)]
            if bad:
                extra.append("outcome of %s at %s" % (bad[0], b.where(sb)))
            continue
        if st.get("exp"):
            continue
        d = flow.describe(b, st["d"], names=True)
        n += 1
        if not any(re.match(pat, d) for pat, _ in _ZIP_DECISIONS):
            extra.append("%s at %s" % (d[:120], b.where(sb)))
    rep.add("G9", "zip-header-decisions-enumerated", not extra, "%s:%s" % (b.file, b.line),
            "%d decisions, all among the %d enumerated ones" % (n, len(_ZIP_DECISIONS)) if not extra else "decisions outside the enumerated set: %s" % extra[:3])
    rep.floor("G9", "zip-decisions", n, 2)


def _discr_sources(b, dd):
    """Callee names whose result the discriminant read `dd` inspects (through moves / Try::branch)."""
    out = []
    pl = dd[3].get("place") or dd[3].get("p")
    if pl is None:
        return ["?"]
    seen, work = set(), [pl["l"]]
    while work:
        l = work.pop()
        if l in seen:
            continue
        seen.add(l)
        for d in b.defs(l):
            if d[2] == "call":
                n = strip_generics(callee_def(d[3]))
                out.append(n)
                if re.search(r"Try>?::branch$|result::Result::(ok|as_ref|map_err|is_ok)$|option::Option::(as_ref|ok_or)$", n):
                    for a in d[3]["args"]:
                        q = op_place(a)
                        if q is not None:
                            work.append(q["l"])
            elif d[2] == "assign" and d[3]["k"] in ("use", "ref"):
                q = op_place(d[3]["op"]) if d[3]["k"] == "use" else d[3]["place"]
                if q is not None:
                    work.append(q["l"])
    return out or ["?"]


def g11(F, rep):
    """The scanner is handed the caller's whole input, once: a wrapper is found "at any offset" only if the slice the scanner
    walks is the input itself - a window, a prefix or a per-piece call loses every stream that crosses (or outgrows) a piece."""
    n = 0
    for name, b in sorted(F.bodies.items()):
        cs = [(bb, t) for bb, t in b.calls() if strip_generics(callee_def(t)) == SD + "split_into_deflate_streams"]
        for k, (bb, t) in enumerate(cs):
            n += 1
            d = flow.describe(b, t["args"][0])
            whole = re.match(r"^(deref\()*arg<&(mut )?\[u8\]>\)*$", d or "") is not None
            looped = any(bb in b.reachable_from(s2) for s2 in b.succ(bb))
            rep.add("G11", "scanner-sees-the-whole-input:%s#%d" % (name.replace("preflate_rs::", ""), k), whole and not looped and len(cs) == 1, b.where(bb),
                    "split_into_deflate_streams(%s, ..)%s%s" % (flow.describe(b, t["args"][0], names=True), " inside a loop" if looped else "", "" if len(cs) == 1 else "; %d calls" % len(cs)))
    rep.floor("G11", "scanner-call-sites", n, 1)


def run(ctx, rep):
    F = ctx.lib
    rep.explanation = ("The recogniser is compared with the wrapper specifications (spec/wrappers.json typed in from RFC 1950/1952, APPNOTE 4.3.7, PNG): "
                       "signature table, handler exhaustiveness, acceptance threshold implied by >1024 plaintext bytes with no extra accept condition, "
                       "header-skip arithmetic and field layouts on canonical def-use descriptors, and the cursor step by affine dataflow. Each is a "
                       "necessary condition: a wrong value makes that wrapper silently never found while all round-trip tests stay green.")
    rep.trusted = ["spec/wrappers.json typed in from the specifications", "acceptance of the embedded stream itself (C02/C05 behaviour)"]
    g1(F, rep)
    g2_g3(F, rep)
    g4(F, rep)
    g7(F, rep)
    g8(F, rep)
    g9(F, rep)
    # G10: the gzip header skipper refuses one thing of its own — a compression method other than deflate; everything else it
    # returns is an I/O error of the cursor.  A length limit on FNAME / FCOMMENT / FEXTRA is a member RFC 1952 allows, refused.
    from .. import err as _err
    gb = F.body(SD + "skip_gzip_header")
    own = _err.error_constructions(F, gb)
    rep.add("G10", "gzip-header-one-rejection", len(own) <= 1, "%s:%s" % (gb.file, gb.line), "errors constructed by skip_gzip_header itself: %s (the method byte test)" % own)
    g11(F, rep)
    scan.a4_g5_for(ctx, rep, ("G5",))
