"""C03 — recovered plaintext and consumed length agree with a reference inflater (structural clauses).

T1 CONST: the length/distance base and extra-bit tables, the code-length order and the alphabet sizes equal RFC 1951.
T2 FLOW: decode_block composes them as the RFC specifies (len = 3 + BASE[l] + bits(EXTRA[l]) with one l = sym - 257 < 29,
   dist = 1 + DBASE[d] + bits(DEXTRA[d]) with d < 30; literal iff sym < 256; end of block iff sym == 256).
T3 PART: the fixed-Huffman length map equals the RFC's (rules/part.py).
T4 CONST/FLOW: block-type map, stored-block LEN/NLEN check, dynamic header widths/offsets, repeat-code adjustments.
T5 WHO/FLOW: compressed_size is the byte cursor after the last block's padding; the bit reader pulls single bytes on demand.
Not decided: canonical Huffman construction / tree walk and the window copy (array algorithms, value-level).
"""
import json, os, re
from .. import flow
from ..facts import op_place, callee_def
from ..common import strip_generics

P = "preflate_rs::"
SPEC = json.load(open(os.path.join(os.path.dirname(os.path.dirname(os.path.dirname(os.path.abspath(__file__)))), "spec", "rfc1951.json")))
K = P + "preflate_constants::"


def _var_def(b, name):
    """Named descriptors of all full assignments to the user variable `name`."""
    out = []
    for l in b.locals_named(name):
        for bb, idx, kind, payload in b.defs(l):
            if kind == "assign":
                out.append(flow.describe_rvalue(b, payload, names=True))
            elif kind == "call":
                out.append("call")
    # a same-named variable of an inlined helper handed on unchanged is one definition, not two
    if len(out) > 1:
        out = [d for d in out if d != "var(%s)" % name] or out[:1]
    return out


def t1(F, rep):
    mm = F.const_int(K + "MIN_MATCH")
    rep.add("T1", "MIN_MATCH", mm == SPEC["min_match"], "", "MIN_MATCH=%d" % mm)
    rep.add("T1", "MAX_MATCH", F.const_int(K + "MAX_MATCH") == SPEC["max_match"], "", "MAX_MATCH=%d" % F.const_int(K + "MAX_MATCH"))
    lb = F.const_array(K + "LENGTH_BASE_TABLE")
    rep.add("T1", "length-base", [mm + x for x in lb] == SPEC["length_base"], "", "MIN_MATCH + LENGTH_BASE_TABLE = %s" % [mm + x for x in lb])
    rep.add("T1", "length-extra", F.const_array(K + "LENGTH_EXTRA_TABLE") == SPEC["length_extra"], "", str(F.const_array(K + "LENGTH_EXTRA_TABLE")))
    db = F.const_array(K + "DIST_BASE_TABLE")
    rep.add("T1", "dist-base", [1 + x for x in db] == SPEC["dist_base"], "", "1 + DIST_BASE_TABLE = %s" % [1 + x for x in db])
    rep.add("T1", "dist-extra", F.const_array(K + "DIST_EXTRA_TABLE") == SPEC["dist_extra"], "", str(F.const_array(K + "DIST_EXTRA_TABLE")))
    rep.add("T1", "code-length-order", F.const_array(K + "TREE_CODE_ORDER_TABLE") == SPEC["code_length_order"], "", str(F.const_array(K + "TREE_CODE_ORDER_TABLE")))
    for nm, want in (("LITERAL_COUNT", 256), ("NONLEN_CODE_COUNT", 257), ("LEN_CODE_COUNT", 29), ("DIST_CODE_COUNT", 30), ("CODETREE_CODE_COUNT", 19)):
        v = F.const_int(K + nm)
        rep.add("T1", "count:" + nm, v == want, "", "%s=%d (RFC: %d)" % (nm, v, want))


def t2(F, rep):
    b = F.body(P + "deflate_reader::DeflateReader::<R>::decode_block")
    where = "%s:%s" % (b.file, b.line)
    lc = _var_def(b, "lcode")
    rep.add("T2", "lcode=sym-257", lc == ["Sub(var(lit_len), K257).0"] or lc == ["Sub(var(lit_len), K257)"], where, "lcode := %s" % lc)
    ln = _var_def(b, "len")
    want = r"^Add\(Add\(K3, const:preflate_constants::LENGTH_BASE_TABLE\[var\(lcode\)\]\)(\.0)?, branch\(read_bits\(var\(self\), into\(const:preflate_constants::LENGTH_EXTRA_TABLE\[var\(lcode\)\]\)\)\)(\.0)?\)(\.0)?$"
    rep.add("T2", "len=3+BASE[l]+bits(EXTRA[l])", len(ln) == 1 and re.match(want, ln[0]) is not None, where, "len := %s" % ln)
    dc = _var_def(b, "dcode")
    rep.add("T2", "dcode=distance-symbol", len(dc) == 1 and re.match(r"^branch\(fetch_next_distance_char\(", dc[0]) is not None, where, "dcode := %s" % dc)
    ds = _var_def(b, "dist")
    wantd = r"^Add\(Add\(K1, const:preflate_constants::DIST_BASE_TABLE\[var\(dcode\)\]\)(\.0)?, branch\(read_bits\(var\(self\), into\(const:preflate_constants::DIST_EXTRA_TABLE\[var\(dcode\)\]\)\)\)(\.0)?\)(\.0)?$"
    rep.add("T2", "dist=1+DBASE[d]+bits(DEXTRA[d])", len(ds) == 1 and re.match(wantd, ds[0]) is not None, where, "dist := %s" % ds)
    # literal / end-of-block tests and what they guard
    lit_sw = eob_sw = None
    for sb in sorted(b.normal_blocks()):
        st = b.term(sb)
        if st["k"] == "switch":
            d = flow.describe(b, st["d"], names=True)
            if d in ("Lt(var(lit_len), K256)", "Le(var(lit_len), K255)"):
                lit_sw = (sb, st)
            if d == "Eq(var(lit_len), K256)":
                eob_sw = (sb, st)
    ok_lit = False
    if lit_sw:
        sb, st = lit_sw
        wl = [bb for bb, t in b.calls() if strip_generics(callee_def(t)).endswith("::write_literal")]
        ok_lit = bool(wl) and all(b.edge_dominates(sb, st["otherwise"], x) for x in wl)
    rep.add("T2", "literal-iff-sym<256", ok_lit, where, "write_literal is guarded by the true edge of `lit_len < 256`")
    ok_eob = False
    if eob_sw and lit_sw:
        sb, st = eob_sw
        f = [x for v, x in st["targets"] if v == 0]
        refs = [bb for bb, t in b.calls() if strip_generics(callee_def(t)).endswith("::write_reference")]
        ok_eob = bool(f) and bool(refs) and all(b.edge_dominates(sb, f[0], x) for x in refs) and b.edge_dominates(lit_sw[0], [x for v, x in lit_sw[1]["targets"] if v == 0][0], sb)
    rep.add("T2", "end-of-block-iff-sym==256", ok_eob, where, "`lit_len == 256` ends the block; references only on its false edge")
    # len/dist reach write_reference in this order
    for bb, t in b.calls():
        if strip_generics(callee_def(t)).endswith("::write_reference"):
            a = [flow.describe(b, x, names=True) for x in t["args"][1:]]
            rep.add("T2", "write_reference(dist,len)", a == ["var(dist)", "var(len)"], b.where(bb), "arguments %s" % a)
    wr = F.body(P + "deflate_reader::DeflateReader::<R>::write_reference")
    st_ = _var_def(wr, "start")
    rep.add("T2", "copy-source=len-dist", len(st_) == 1 and re.match(r"^Sub\(len\(.*plain_text\), var\(dist\)\)(\.0)?$", st_[0]) is not None, "%s:%s" % (wr.file, wr.line), "start := %s" % st_)


def t4(F, rep):
    b = F.body(P + "deflate_reader::DeflateReader::<R>::read_block")
    where = "%s:%s" % (b.file, b.line)
    a = F.adts.get(P + "preflate_token::BlockType")
    # block-type map: switch value -> BlockType variant constructed in that arm
    got = {}
    for sb in sorted(b.normal_blocks()):
        st = b.term(sb)
        if st["k"] == "switch" and re.match(r"^(var\(mode\)|branch\(read_bits\(.*K2\)\))", flow.describe(b, st["d"], names=True)):
            for v, tgt in st["targets"]:
                reach = b.reachable_from(tgt)
                for bb in sorted(reach):
                    t = b.term(bb)
                    if t["k"] == "call" and strip_generics(callee_def(t)).endswith("PreflateTokenBlock::new"):
                        vv = flow.resolve_variant(b, t["args"][0])
                        if vv and b.edge_dominates(sb, tgt, bb):
                            got[str(v)] = vv[1]
    rep.add("T4", "block-type-map", got == SPEC["block_types"], where, "switch value -> BlockType: %s (RFC: %s)" % (got, SPEC["block_types"]))
    md = _var_def(b, "mode")
    rep.add("T4", "block-type-2bits-after-final-bit", len(md) == 1 and "read_bits(var(self), K2)" in md[0], where, "mode := %s" % md)
    # stored: 16 + 16 bits
    for nm in ("len", "ilen"):
        d = _var_def(b, nm)
        rep.add("T4", "stored-%s-16bits" % nm, len(d) == 1 and "read_bits(var(self), K16)" in d[0], where, "%s := %s" % (nm, d))
    # dynamic header
    h = F.body(P + "huffman_encoding::HuffmanOriginalEncoding::read")
    for (nm, bits, off), var in zip(SPEC["header_fields"], ("hlit", "hdist", "hclen")):
        d = _var_def(h, var)
        want = "Add(branch(get(var(bit_reader), K%d)).0, K%d).0" % (bits, off)
        rep.add("T4", "header:" + nm, d == [want] or d == [want.replace(".0", "")], "%s:%s" % (h.file, h.line), "%s := %s (RFC: %d bits + %d)" % (var, d, bits, off))
    # order hlit, hdist, hclen: their get() calls dominate one another
    gets = [(bb, flow.const_eval(h, t["args"][1])) for bb, t in h.calls() if t["callee"].get("def", "").endswith("ReadBits::get")]
    first3 = sorted(gets, key=lambda x: len(h.dominators().get(x[0], ())))[:3]
    rep.add("T4", "header-order-5-5-4", [w for _, w in first3] == [5, 5, 4], "%s:%s" % (h.file, h.line), "first three reads: %s bits" % [w for _, w in first3])
    w3 = [w for _, w in gets if w == 3]
    rep.add("T4", "code-length-code-3bits", len(w3) >= 1, "%s:%s" % (h.file, h.line), "code length alphabet lengths are read with 3 bits")
    # repeat-code adjustments and TreeCodeType discriminants
    t = F.adts.get(P + "huffman_encoding::TreeCodeType")
    disc = {v["name"]: v["discr"] for v in t["variants"]} if t else {}
    rep.add("T4", "tree-code-discriminants", {k: disc.get(k) for k in ("Repeat", "ZeroShort", "ZeroLong")} == {"Repeat": 16, "ZeroShort": 17, "ZeroLong": 18}, "", str(disc))
    g = F.body(P + "huffman_encoding::HuffmanOriginalEncoding::get_tree_code_adjustment")
    amap = {}
    for sb in sorted(g.normal_blocks()):
        st = g.term(sb)
        if st["k"] == "switch":
            for v, tgt in st["targets"]:
                for bb in sorted(g.reachable_from(tgt)):
                    for s in g.stmts(bb):
                        # the pair built for this discriminant: returned at once, or collected in a local first
                        if s["k"] == "assign" and not s["p"]["p"] and s["r"]["k"] == "agg" and len(s["r"].get("ops", [])) == 2 and g.edge_dominates(sb, tgt, bb):
                            vals = [flow.const_eval(g, o) for o in s["r"]["ops"]]
                            if all(x is not None for x in vals):
                                amap[str(v)] = vals
    rep.add("T4", "repeat-code-adjustments", amap == SPEC["repeat_codes"], "%s:%s" % (g.file, g.line), "discriminant -> (subtract, bits): %s (RFC: %s)" % (amap, SPEC["repeat_codes"]))
    # symbol -> tree code mapping in the reader
    sm = {}
    for sb in sorted(h.normal_blocks()):
        st = h.term(sb)
        if st["k"] == "switch" and flow.describe(h, st["d"], names=True) == "var(w_next)":
            for v, tgt in st["targets"]:
                for s in h.stmts(tgt):
                    if s["k"] == "assign" and s["r"]["k"] == "agg" and s["r"].get("adt", "").endswith("TreeCodeType"):
                        sm[v] = s["r"]["discr"]
    rep.add("T4", "repeat-symbol-map", sm == {16: 16, 17: 17, 18: 18}, "%s:%s" % (h.file, h.line), "symbol -> TreeCodeType discriminant %s" % sm)


def t4b(F, rep):
    """RFC 1951 3.2.7: the literal/length and distance code lengths form ONE sequence (repeat codes may cross the
    boundary); it is split at HLIT only after the whole run-length sequence has been expanded."""
    b = F.body(P + "huffman_encoding::HuffmanOriginalEncoding::get_literal_distance_lengths")
    where = "%s:%s" % (b.file, b.line)
    rets = [flow.describe_rvalue(b, s["r"], names=True) for bb in b.normal_blocks() for s in b.stmts(bb)
            if s["k"] == "assign" and s["p"]["l"] == 0 and not s["p"]["p"]]
    m = None
    if len(rets) == 1:
        m = re.match(r"^tuple\{to_vec\(index\(var\((\w+)\), Range\{K0, var\(self\)\.num_literals\}\)\), to_vec\(index\(var\((\w+)\), RangeFrom\{var\(self\)\.num_literals\}\)\)\}$", rets[0])
    ok = m is not None and m.group(1) == m.group(2)
    # all three kinds of run-length items append to that same vector
    tgt = set()
    n_push = 0
    for bb, t in b.calls():
        if re.search(r"(Vec::(push|resize|extend_from_slice|extend|append)|Extend>?::extend)$", strip_generics(callee_def(t))):
            n_push += 1
            tgt.add(flow.describe(b, t["args"][0], names=True))
    ok2 = ok and n_push >= 3 and tgt == {"var(%s)" % m.group(1)}
    rep.add("T4", "ld-lengths-one-sequence-split-at-hlit", ok and ok2, where,
            "returns %s; %d appends (push / resize / extend) into %s" % (rets, n_push, sorted(tgt)))


def t5(F, rep):
    b = F.body(P + "process::parse_deflate")
    where = "%s:%s" % (b.file, b.line)
    cs = _var_def(b, "compressed_size")
    rep.add("T5", "compressed_size=cursor-position", len(cs) == 1 and re.match(r"^position\(var\(input_stream\)\)$", cs[0]) is not None, where, "compressed_size := %s" % cs)
    pos = [bb for bb, t in b.calls() if strip_generics(callee_def(t)) == "std::io::Cursor::position"]
    pad = [bb for bb, t in b.calls() if strip_generics(callee_def(t)).endswith("::read_eof_padding")]
    rb = [bb for bb, t in b.calls() if strip_generics(callee_def(t)).endswith("::read_block")]
    ok = len(pos) == 1 and len(pad) == 1 and bool(rb) and b.dominates(pad[0], pos[0]) and all(pos[0] not in b.reachable_from(pos[0]) - {pos[0]} or True for _ in [0]) and not any(x in b.reachable_from(pos[0]) for x in rb)
    rep.add("T5", "position-after-padding-and-blocks", ok, where, "Cursor::position() is read after read_eof_padding and cannot be followed by another read_block")
    # the cursor wraps the caller's slice unchanged
    cur = [t for bb, t in b.calls() if strip_generics(callee_def(t)) == "std::io::Cursor::new"]
    rep.add("T5", "cursor-over-input", len(cur) == 1 and flow.describe(b, cur[0]["args"][0], names=True) == "var(compressed_data)", where, "Cursor::new(%s)" % (flow.describe(b, cur[0]["args"][0], names=True) if cur else None))
    # who touches binary_reader: only read_u8
    n = 0
    bad = []
    for name, fb in F.bodies.items():
        if not name.startswith(P + "bit_reader::"):
            continue
        for bb, t in fb.calls():
            for a in t["args"][:1]:
                # the receiver is (a reborrow of) the field itself, not a value computed from it
                o = flow.origin(fb, a)
                direct = any(r["k"] in ("ref", "rawptr") for _, _, r in o.exprs) or o.args
                if not ("binary_reader" in o.via_fields) or o.calls:
                    continue
                n += 1
                m = t["callee"].get("def", "").split("::")[-1]
                one_byte = False
                if m == "read_exact" and len(t["args"]) == 2:
                    # read_exact(&mut [0u8; 1]) is what read_u8 does
                    bo = flow.origin(fb, t["args"][1])
                    tys = {fb.local_ty(x) for x in getattr(bo, "locals", set())} if hasattr(bo, "locals") else set()
                    dsc = flow.describe(fb, t["args"][1])
                    ap2 = op_place(t["args"][1])
                    cur2, hops2 = ap2, 0
                    while cur2 is not None and hops2 < 5:
                        ty2 = flow.strip_lifetimes(fb.local_ty(cur2["l"]))
                        if re.search(r"\[u8; 1\]", ty2):
                            one_byte = True
                            break
                        d2 = fb.single_def(cur2["l"])
                        if not d2 or d2[2] != "assign":
                            break
                        cur2 = op_place(d2[3]["op"]) if d2[3]["k"] in ("use", "cast") else (d2[3]["place"] if d2[3]["k"] in ("ref", "rawptr") else None)
                        hops2 += 1
                if m != "read_u8" and not one_byte:
                    bad.append("%s calls %s on binary_reader" % (name.split("::")[-1], m))
    rep.add("T5", "bit-reader-single-byte-reads", n >= 2 and not bad, "src/bit_reader.rs", "%d uses of binary_reader, all read_u8 (no read-ahead)" % n if not bad else "; ".join(bad))


def t6(F, rep):
    """A block is decoded with the trees of its own header (RFC 1951 3.2.7: each dynamic block carries its codes): the
    HuffmanReader handed to decode_block is built in the same call from the header just read (or is the fixed one), and the
    reader keeps no Huffman state between blocks.  A cache made symmetrically in reader and writer survives every round trip."""
    b = F.body(P + "deflate_reader::DeflateReader::<R>::read_block")
    DYN = re.compile(r"^branch\((preflate_rs::)?huffman_encoding::HuffmanReader::create_from_original_encoding\((var\(\w+\)|_\d+)\.huffman_encoding\)\) as Continue\.0$")
    FIX = re.compile(r"^branch\((preflate_rs::)?huffman_encoding::HuffmanReader::create_fixed\(\)\) as Continue\.0$")
    calls = [(bb, t) for bb, t in b.calls() if strip_generics(callee_def(t)).endswith("::decode_block")]
    rep.floor("T6", "decode_block-calls", len(calls), 2)
    for i, (bb, t) in enumerate(calls):
        d = flow.describe(b, t["args"][1])
        blk = flow.describe(b, t["args"][2])
        ok = bool(FIX.match(d))
        m = DYN.match(d)
        if m:
            ok = ("var(%s)" % m.group(2)[4:-1] if m.group(2).startswith("var(") else m.group(2)) == blk or m.group(2) == blk
        rep.add("T6", "trees-from-this-blocks-header#%d" % i, ok, b.where(bb), "decode_block(.., %s, %s)" % (d[:170], blk))
    # the header the trees are built from is the one read from the input in this call
    hdr = [flow.describe(b, t["args"][0]) for bb, t in b.calls() if strip_generics(callee_def(t)).endswith("HuffmanOriginalEncoding::read")]
    rep.add("T6", "header-read-from-input", hdr == ["arg<&mut preflate_rs::deflate_reader::DeflateReader<R>>.input"], "%s:%s" % (b.file, b.line), "HuffmanOriginalEncoding::read(%s)" % hdr)
    a = F.adts.get(P + "deflate_reader::DeflateReader")
    held = [f["name"] for f in a["variants"][0]["fields"] if "Huffman" in f["ty"]] if a else ["?"]
    rep.add("T6", "reader-keeps-no-code-tables", not held, "%s:%s" % (b.file, b.line), "DeflateReader fields holding Huffman state across blocks: %s" % held)


def t8(F, rep):
    """Canonical-code decoding consumes at least one bit per symbol (RFC 1951 3.2.7: a single used code is coded with one
    bit, not zero): every non-error result of decode_symbol lies behind a successful `get(1)`.  And the decoder's trees are
    built from the header's code lengths as expanded by the shared routine, with nothing patched in between (a dummy code
    added for the decoder's convenience changes the canonical assignment of every other code)."""
    from .. import err
    b = F.body(P + "huffman_helper::decode_symbol")
    gets = [(bb, t) for bb, t in b.calls() if strip_generics(callee_def(t)).endswith("::get") and len(t["args"]) == 2 and flow.const_eval(b, t["args"][1]) == 1]
    prods = [pb for pb, _ in err.result_producers(b, F)]
    ok = bool(gets) and bool(prods)
    for pb in prods:
        if not any((ti := err.try_info(b, t["dest"]["l"])) and any(b.edge_dominates(a, s2, pb) for a, s2 in ti["continue_edges"]) for bb, t in gets):
            ok = False
    rep.add("T8", "symbol-costs-at-least-one-bit", ok, "%s:%s" % (b.file, b.line), "%d result site(s) of decode_symbol, each behind `get(1)?` (%d such reads)" % (len(prods), len(gets)))
    from . import c07
    from ..core import Report
    tmp = Report("tmp", "quick")
    c07.w7(F, tmp)
    for o in tmp.obs:
        if "create_from_original_encoding" in str(o.instance):
            o.rule = "T8"
            rep.obs.append(o)


def t9(F, rep):
    """The canonical-code tree has one construction: calculate_huffman_code_tree produces its result in one place, from the
    node array built by the general algorithm, behind the validity check.  A shortcut result for a special shape of alphabet
    (one code, two one-bit codes ...) is a second, unchecked definition of the code assignment."""
    from .. import err
    b = F.body(P + "huffman_helper::calculate_huffman_code_tree")
    prods = err.result_producers(b, F)
    vals = []
    for pb, _ in prods:
        for s in b.stmts(pb):
            if s.get("k") == "assign" and s["p"]["l"] == 0 and not s["p"]["p"]:
                vals.append(flow.describe_rvalue(b, s["r"], names=True))
    valid = [(bb, t) for bb, t in b.calls() if strip_generics(callee_def(t)).endswith("is_valid_huffman_code_lengths")]
    rep.add("T9", "single-construction-of-the-code-tree", len(prods) == 1 and len(valid) == 1 and b.dominates(valid[0][0], prods[0][0]),
            "%s:%s" % (b.file, b.line), "result sites: %s; validity checks: %d" % (vals, len(valid)))
    # ... and the validity check accepts exactly the complete codes: its decisions are the enumerated ones
    v = F.body(P + "huffman_helper::is_valid_huffman_code_lengths")
    extra = []
    n = 0
    for sb in sorted(v.normal_blocks()):
        st = v.term(sb)
        if st["k"] != "switch" or st.get("exp"):
            continue
        p = op_place(st["d"])
        dd = v.single_def(p["l"]) if p is not None and not p["p"] else None
        if dd and dd[2] == "assign" and dd[3]["k"] == "discr":
            continue
        d = flow.describe(v, st["d"], names=True)
        n += 1
        if not any(re.match(pat, d) for pat in _VALID_DECISIONS):
            extra.append("%s at %s" % (d[:100], v.where(sb)))
    rep.add("T9", "validity-check-decisions-enumerated", not extra and n >= 3, "%s:%s" % (v.file, v.line),
            "%d decisions" % n if not extra else "decisions outside the enumerated set: %s" % extra[:3])


_VALID_DECISIONS = [r"^is_empty\(var\(code_lengths\)\)$", r"^(Ge|Gt)\((cast\()?var\(length\)\)?, K1[56]\)$", r"^(Lt|Le)\(var\(internal_nodes\), K-?[01]\)$",
                    # the over-subscription test written before the subtraction instead of after it
                    r"^(Gt|Lt)\((var\(length_count\)\[var\(i\)\]|var\(internal_nodes\)), (var\(length_count\)\[var\(i\)\]|var\(internal_nodes\))\)$"]


def t7(F, rep):
    """LZ77 copy (RFC 1951 3.2.3): a <length, distance> pair copies `length` bytes starting `distance` bytes back in the
    output.  write_reference must take its source from `plain_text.len() - dist` with the decoded distance itself (no clamp,
    no offset) and append byte by byte from there, or — for non-overlapping copies only — in one block of `len` bytes."""
    b = F.body(P + "deflate_reader::DeflateReader::<R>::write_reference")
    where = "%s:%s" % (b.file, b.line)
    PT = r"arg<&mut preflate_rs::deflate_reader::DeflateReader<R>>\.plain_text"
    START = r"Sub\(len\(%s\), (cast\()?arg<u32>#0\)?\)(\.0)?" % PT
    IDX = r"next\(into_iter\(Range\{K0, (cast\()?arg<u32>#1\)?\}\)\) as Some\.0"
    pushes = [(bb, t) for bb, t in b.calls() if strip_generics(callee_def(t)).endswith("Vec::push") and re.match("^%s$" % PT, flow.describe(b, t["args"][0]))]
    within = [(bb, t) for bb, t in b.calls() if strip_generics(callee_def(t)).endswith("Vec::extend_from_within")]
    other = [strip_generics(callee_def(t)) for bb, t in b.calls() if re.search(r"Vec::(extend|extend_from_slice|insert|truncate|resize|append|drain|set_len)$", strip_generics(callee_def(t)))]
    # the pushed byte is plain_text[start + i]: look at the index call itself (nested descriptors are abbreviated)
    idxc = [(bb, t) for bb, t in b.calls() if re.search(r"Index(Mut)?>?::index(_mut)?$", strip_generics(callee_def(t))) and re.match("^%s$" % PT, flow.describe(b, t["args"][0]))]
    # run-length form: a distance-1 reference repeats the last byte, so `resize(len + n, plain_text[len - 1])` behind
    # `dist == 1` is the same copy
    LAST = r"Sub\(len\(%s\), (K1|(cast\()?arg<u32>#0\)?)\)(\.0)?" % PT
    resizes = [(bb, t) for bb, t in b.calls() if strip_generics(callee_def(t)).endswith("Vec::resize") and re.match("^%s$" % PT, flow.describe(b, t["args"][0]))]
    ok_resize = True
    for bb, t in resizes:
        shape = (re.match(r"^Add\(len\(%s\), (cast\()?arg<u32>#1\)?\)(\.0)?$" % PT, flow.describe(b, t["args"][1])) is not None
                 and re.match(r"^index\(%s, %s\)$" % (PT, LAST), flow.describe(b, t["args"][2])) is not None)
        guarded = False
        for sb in sorted(b.normal_blocks()):
            st = b.term(sb)
            if st["k"] == "switch" and len(st["targets"]) == 1:
                g = flow.describe(b, st["d"])
                if re.match(r"^Eq\((cast\()?arg<u32>#0\)?, K1\)$", g) and b.edge_dominates(sb, st["otherwise"], bb):
                    guarded = True
                if re.match(r"^Ne\((cast\()?arg<u32>#0\)?, K1\)$", g) and b.edge_dominates(sb, st["targets"][0][1], bb):
                    guarded = True
        ok_resize = ok_resize and shape and guarded
    if resizes and ok_resize:
        other = [o for o in other if not o.endswith("Vec::resize")]
        idxc = [(bb, t) for bb, t in idxc if re.match("^%s$" % LAST, flow.describe(b, t["args"][1])) is None]
    ok_idx = bool(idxc) and all(re.match(r"^Add\(%s, (cast\()?%s\)?\)(\.0)?$" % (START, IDX), flow.describe(b, t["args"][1])) is not None for bb, t in idxc)
    ok_push = bool(pushes) and ok_idx and all(flow.describe(b, t["args"][1]).startswith("index(") for bb, t in pushes)
    ok_within = True
    for bb, t in within:
        d = flow.describe(b, t["args"][1])
        shape = re.match(r"^Range\{%s, Add\(%s, (cast\()?arg<u32>#1\)?\)(\.0)?\}$" % (START, START), d) is not None
        guarded = False
        for sb in sorted(b.normal_blocks()):
            st = b.term(sb)
            if st["k"] == "switch" and len(st["targets"]) == 1:
                g = flow.describe(b, st["d"])
                if re.match(r"^Ge\((cast\()?arg<u32>#0\)?, (cast\()?arg<u32>#1\)?\)$", g) and b.edge_dominates(sb, st["otherwise"], bb):
                    guarded = True
                if re.match(r"^Lt\((cast\()?arg<u32>#0\)?, (cast\()?arg<u32>#1\)?\)$", g) and b.edge_dominates(sb, st["targets"][0][1], bb):
                    guarded = True
        ok_within = ok_within and shape and guarded
    good = (ok_push if pushes else bool(within)) and ok_within and not other
    rep.add("T7", "window-copy-from-len-minus-dist", good, where,
            "pushes: %s; block copies: %s; run fills: %s; other mutations: %s" % ([flow.describe(b, t["args"][1])[:150] for bb, t in pushes], [flow.describe(b, t["args"][1])[:150] for bb, t in within], [flow.describe(b, t["args"][2])[:150] for bb, t in resizes], other))


def t5b(F, rep):
    """Padding reads take exactly the bits still buffered.  After any read the bit reader holds 0..7 unread bits of the
    current byte; the stored-block header and the end of the stream skip to the byte boundary by reading *those* bits. A
    request for more (8 when aligned) would pull the next byte in — compressed_size one too large, or a byte of stored data
    taken for padding; a request for fewer leaves the cursor inside the byte."""
    from ..phase import PhaseEval
    E = PhaseEval(F, "bit_count")
    sites = []
    rb = F.body(P + "deflate_reader::DeflateReader::<R>::read_eof_padding")
    for bb, t in rb.calls():
        if strip_generics(callee_def(t)).endswith("::get") and len(t["args"]) == 2:
            sites.append(("read_eof_padding", rb, bb, t["args"][1]))
    blk = F.body(P + "deflate_reader::DeflateReader::<R>::read_block")
    for bb, t in blk.calls():
        if strip_generics(callee_def(t)).endswith("::read_bits") and len(t["args"]) == 2 and flow.const_eval(blk, t["args"][1]) is None:
            sites.append(("read_block", blk, bb, t["args"][1]))
    rep.floor("T5", "padding-read-sites", len(sites), 2)
    for nm, b, bb, op in sites:
        got = [E.ev(b, op, bc) for bc in range(8)]
        rep.add("T5", "padding-count=buffered-bits:" + nm, got == list(range(8)), b.where(bb),
                "bits requested for 0..7 buffered bits: %s (must be 0..7: exactly what is left of the current byte)" % got)


_EXACT_READ = re.compile(r"^(read_exact|read_u8|read_u16|read_u24|read_u32|read_u64|by_ref)$")


def t14(F, rep):
    """A symbol is what the walk of the code tree says it is: each of HuffmanReader's two fetch functions returns the result of
    one `decode_symbol` call on the tree built from the block's code lengths, on every path and with no decision of its own.
    A shortcut for "flat" codes that reads n bits and takes them as the symbol (seed10-c03a) is a second decoder whose answer
    differs from zlib's as soon as an unused symbol lies among the used ones."""
    want = {"fetch_next_literal_code": "lit_huff_code_tree", "fetch_next_distance_char": "dist_huff_code_tree"}
    n = 0
    for name, b in sorted(F.bodies.items()):
        m = re.search(r"huffman_encoding::HuffmanReader::(fetch_next_\w+)$", name)
        if not m or m.group(1) not in want:
            continue
        n += 1
        cs = [(bb, t) for bb, t in b.calls() if strip_generics(callee_def(t)).endswith("huffman_helper::decode_symbol")]
        others = [strip_generics(callee_def(t)) for bb, t in b.calls() if (bb, t) not in cs and not (t.get("exp"))
                  and not re.search(r"ops::Deref(Mut)?::deref(_mut)?$|::as_slice$|::as_ref$|::borrow$", strip_generics(callee_def(t)))]
        sw = [b.where(bb) for bb in sorted(b.normal_blocks()) if b.term(bb)["k"] == "switch"]
        tree = flow.describe(b, cs[0][1]["args"][1], names=True) if len(cs) == 1 else ""
        ok = len(cs) == 1 and not sw and want[m.group(1)] in tree and not others
        rep.add("T14", "symbol-is-the-tree-walk:" + m.group(1), ok, "%s:%s" % (b.file, b.line),
                "%d decode_symbol call(s) on %s; decisions of its own at %s; other calls %s" % (len(cs), tree[:80] or "-", sw or "none", others[:3] or "none"))
    rep.floor("T14", "fetch-functions", n, 2)


def t13(F, rep):
    """The header reader records the code-length symbol it read and nothing else: every TreeCodeType value built in
    HuffmanOriginalEncoding::read sits on the edge of the symbol test that names it (16 -> Repeat, 17 -> ZeroShort, 18 ->
    ZeroLong, <= 15 -> Code).  A second place that builds one — "a 16 after a zero is really a zero run" — makes the writer
    emit a different symbol than the one that was read: same lengths, different bits."""
    h = F.body(P + "huffman_encoding::HuffmanOriginalEncoding::read")
    where = "%s:%s" % (h.file, h.line)
    t = F.adts.get(P + "huffman_encoding::TreeCodeType")
    names = {v["discr"]: v["name"] for v in t["variants"]} if t else {}
    edges = {}           # discriminant -> (switch block, target) of the symbol test
    for sb in sorted(h.normal_blocks()):
        st = h.term(sb)
        if st["k"] != "switch":
            continue
        d = flow.describe(h, st["d"], names=True) or ""
        if d == "var(w_next)":
            for v, tgt in st["targets"]:
                if v in (16, 17, 18):
                    edges.setdefault(v, []).append((sb, tgt))
        m = re.match(r"^(Le|Lt|Gt|Ge)\(var\(w_next\), K(\d+)\)$", d)
        if m and len(st["targets"]) == 1 and st["targets"][0][0] == 0:
            op, k = m.group(1), int(m.group(2))
            if (op, k) in (("Le", 15), ("Lt", 16)):
                edges.setdefault("Code", []).append((sb, st["otherwise"]))
            elif (op, k) in (("Gt", 15), ("Ge", 16)):
                edges.setdefault("Code", []).append((sb, st["targets"][0][1]))
    n = 0
    for bb in sorted(h.normal_blocks()):
        for s_ in h.stmts(bb):
            if s_["k"] == "assign" and s_["r"]["k"] == "agg" and s_["r"].get("adt", "").endswith("TreeCodeType"):
                n += 1
                dv = s_["r"]["discr"]
                nm = names.get(dv, str(dv))
                key = dv if dv in (16, 17, 18) else "Code"
                ok = any(tgt == bb or h.edge_dominates(sb, tgt, bb) for sb, tgt in edges.get(key, []))
                rep.add("T13", "tree-code-built-only-under-its-symbol:%s#%d" % (nm, sum(1 for o in rep.obs if o.rule == "T13" and (":%s#" % nm) in o.instance)), ok, h.where(bb),
                        "TreeCodeType::%s built %s" % (nm, "on the edge of the symbol test that names it" if ok else "outside the symbol test: the recorded item no longer says which symbol was read"))
    rep.floor("T13", "tree-code-constructions", n, 4)


def t11(F, rep):
    """The deflate reader takes bytes from its source only through all-or-error reads (read_u8 / read_exact behind `?`).
    A counted or to-end read (`read`, `take(n).read_to_end`, `bytes()`) returns Ok on a short source, so a stream cut inside
    a stored block would be accepted with fewer bytes than its LEN says — consumed length and rewritten bytes then disagree
    with the input."""
    n = 0
    for name, b in sorted(F.bodies.items()):
        if not re.match(r"^(<)?preflate_rs::(bit_reader|deflate_reader)::", name):
            continue
        seen = {}
        for bb, t in b.calls():
            c = t["callee"]
            tr = c.get("trait")
            if tr not in ("std::io::Read", "byteorder::ReadBytesExt", "std::io::BufRead"):
                continue
            m = c["def"].split("::")[-1]
            n += 1
            seen[m] = seen.get(m, 0) + 1
            rep.add("T11", "exact-read:%s:%s@%d" % (name.replace("preflate_rs::", ""), m, seen[m]), bool(_EXACT_READ.match(m)), b.where(bb), "%s::%s" % (tr, m))
    rep.floor("T11", "reader-source-reads", n, 1)


def t12(F, rep):
    """parse_deflate looks at its input through the reader only.  (a) The slice is used for nothing but `Cursor::new`: a test on
    the length of the whole buffer makes the verdict on a stream depend on the unrelated bytes behind it.  (b) The block loop
    is left — other than by an error — only because the block just read was the final one: any other bound returns Ok with the
    plaintext and the consumed length of a prefix of the stream.  (c) It constructs no error of its own."""
    from .. import err, lin
    b = F.body(P + "process::parse_deflate")
    where = "%s:%s" % (b.file, b.line)
    other = []
    for u in flow.uses(b, 1):
        if u[0] == "stmt":
            s0 = u[3]
            if s0["k"] == "assign" and s0["r"]["k"] in ("use", "ref", "cast") and not s0["p"]["p"]:
                # a copy / reborrow: must end in Cursor::new as well
                for u2 in flow.uses(b, s0["p"]["l"]):
                    if u2[0] == "stmt":
                        s1 = u2[3]
                        if s1["k"] == "assign" and s1["r"]["k"] in ("use", "ref", "cast") and not s1["p"]["p"]:
                            continue
                        other.append(flow.describe_rvalue(b, s1["r"], names=True)[:80])
                    elif u2[2]["k"] == "call" and not strip_generics(callee_def(u2[2])).endswith("Cursor::new") and u2[2]["k"] != "drop":
                        other.append(strip_generics(callee_def(u2[2])))
            else:
                other.append(flow.describe_rvalue(b, s0["r"], names=True)[:80] if s0["k"] == "assign" else s0["k"])
        elif u[2]["k"] == "call" and not strip_generics(callee_def(u[2])).endswith("Cursor::new"):
            other.append(strip_generics(callee_def(u[2])))
    rep.add("T12", "input-only-through-the-reader", not other, where, "uses of the input slice other than Cursor::new: %s" % other)
    rb = [bb for bb, t in b.calls() if strip_generics(callee_def(t)).endswith("::read_block")]
    ok_loop, why = False, "no read_block call"
    if len(rb) == 1:
        heads = lin.loop_heads(b)
        loops = [lin.natural_loop(b, h, heads[h]) for h in heads if rb[0] in lin.natural_loop(b, h, heads[h])]
        if len(loops) == 1:
            L = loops[0]
            exits = []
            for x in sorted(L):
                st = b.term(x)
                if st["k"] != "switch":
                    continue
                out = [y for y in [z for _, z in st["targets"]] + [st["otherwise"]] if y not in L]
                if not out:
                    continue
                p0 = op_place(st["d"])
                d0 = b.single_def(p0["l"]) if p0 is not None and not p0["p"] else None
                if d0 and d0[2] == "assign" and d0[3]["k"] == "discr":
                    continue                         # the `?` of read_block
                if st.get("exp") and any("Loop" in e or "QuestionMark" in e for e in st["exp"]) and flow.describe(b, st["d"], names=True) in ("var(last)", "Not(var(last))"):
                    exits.append("last")
                    continue
                exits.append(flow.describe(b, st["d"], names=True)[:100])
            ok_loop = bool(exits) and all(e in ("last", "var(last)", "Not(var(last))") for e in exits)
            why = "non-error exits of the block loop: %s" % exits
        else:
            why = "read_block is not inside exactly one loop"
    rep.add("T12", "block-loop-ends-on-the-final-block-only", ok_loop, where, why)
    own = err.own_errors(F, b)
    rep.add("T12", "no-error-of-its-own", not own, where, "errors constructed by parse_deflate itself: %s" % own)


def run(ctx, rep):
    F = ctx.lib
    rep.explanation = ("The decoder's data (RFC 1951 tables, counts, fixed-Huffman map, repeat codes, header field widths) is compared with a "
                       "specification file typed in from the RFC, and the way decode_block/read_block compose that data is checked on canonical "
                       "def-use descriptors of the MIR; the literal/distance code lengths are decoded as one run-length sequence and split at HLIT; compressed_size is shown to be the byte cursor after the final padding with a bit reader "
                       "that never reads ahead. A table or composition error made symmetrically in reader and writer — invisible to any round-trip "
                       "test — violates one of these. The canonical-code construction and tree walk are value-level and not decided.")
    rep.trusted = ["spec/rfc1951.json was typed in from RFC 1951", "calculate_huffman_code_tree / decode_symbol implement canonical Huffman decoding (not decided)"]
    t1(F, rep)
    t2(F, rep)
    from . import part
    part.t3(ctx, rep)
    t4(F, rep)
    t4b(F, rep)
    t5(F, rep)
    t5b(F, rep)
    t6(F, rep)
    t7(F, rep)
    t11(F, rep)
    t12(F, rep)
    t13(F, rep)
    t14(F, rep)
    t8(F, rep)
    t9(F, rep)
    # T10: what is decoded is the caller's byte string from its first byte (no header guessed away in front of it), and the
    # reported compressed_size is the parser's own (C02/M2-M3 flow rules, run here for their C03 consequence)
    from . import c02
    from ..core import Report
    tmp = Report("tmp", "quick")
    c02._m2_m3(F, tmp)
    for o in tmp.obs:
        if o.rule == "M3":
            o.rule = "T10"
            rep.obs.append(o)
    pc = F.body(P + "preflate_container::decompress_deflate_stream")
    cs = []
    for bb in sorted(pc.normal_blocks()):
        for s in pc.stmts(bb):
            r = s.get("r") or {}
            if s.get("k") == "assign" and r.get("k") == "agg" and str(r.get("adt", "")).endswith("DecompressResult"):
                cs.append(flow.describe(pc, r["ops"][r["fields"].index("compressed_size")]))
    rep.add("T10", "compressed_size-is-the-parsers", bool(cs) and all(re.match(r"^.*\.compressed_size$", d) and "Add" not in d and "Sub" not in d for d in cs),
            "%s:%s" % (pc.file, pc.line), "DecompressResult.compressed_size := %s" % cs)
