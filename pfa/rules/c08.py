"""C08 — reconstruction never depends on the estimated parameters being right (header clauses).

P1 PROTO-A: L(PreflateParameters::write) ⊆ L(PreflateParameters::read) with widths and value refinement
   (conditional fields follow their code point).
P2 exhaustiveness: every code point the writer can emit for an enum-valued field is mapped by the reader.
P3 UB: every value written fits its width (rules/ub.py).
P4 FLOW: the parameters used for analysis are exactly the ones serialised; reconstruction uses exactly the ones read.
P5 field correspondence: the k-th written field and the k-th decoded value are the same field.
Not decided: that prediction under an arbitrary parameter vector yields decodable corrections (value-level).
"""
import re
from .. import flow, proto, alpha, err
from ..facts import op_place, callee_def
from ..common import strip_generics, PC, macro_names
from . import c02

PP = "preflate_rs::preflate_parameter_estimator::PreflateParameters::"
P = "preflate_rs::"


def run(ctx, rep):
    F = ctx.lib
    rep.explanation = (
        "The parameter header is checked as a protocol (writer sequence included in the reader's, conditional fields bound "
        "to their code points), for code-point exhaustiveness, for field-to-position correspondence, for width overflow by "
        "upper-bound inference over all construction sites of each field, and for single-sourcing of the parameters on both "
        "sides, and analysis and reconstruction drive the shared predictor state with the same operation sequence (P6). These are necessary for `parameters read back equal the ones written` for every parameter vector.")
    rep.trusted = ["decode_value(n) returns what encode_value(v, n) wrote when v < 2^n (C10)"]
    res, W, R = c02.m1(F, rep, rule="P1", wentry=PP + "write", rentry=PP + "read", floors=False)
    rep.floor("P1", "header-fields-writer", len(W.static_sites(PP + "write")), 20)
    rep.floor("P1", "header-fields-reader", len(R.static_sites(PP + "read")), 18)
    if not res["violations"]:
        rep.floor("P1", "writer-ok-exit", res["ok_exits"], 1)
    _p2_p5(F, rep, res, W, R)
    _p4(F, rep)
    from . import ub
    ub.p3(ctx, rep)
    # P6: under every parameter vector analysis and reconstruction drive the shared predictor with the same state
    # operations at the same points of the correction stream (the mirror-image mechanism the property rests on)
    c02.m1s(F, rep, "P6")
    # P7: the hop count written under any parameter vector names the same chain entry when it is read back
    from . import sib
    sib.m4(F, rep, "P7")
    sib.resets(F, rep, "P9")
    from . import c02 as _c02, c04 as _c04
    _c02.m10(F, rep, "P10")
    _c04.rejections_rule(ctx, rep, "P11")
    p12(F, rep)


def _mentions(o, l):
    """Does the statement / terminator tree `o` mention local l as (the base of) a place?"""
    if isinstance(o, dict):
        if o.get("l") == l and isinstance(o.get("p"), list):
            return True
        return any(_mentions(v, l) for k, v in o.items() if k not in ("exp", "callee"))
    if isinstance(o, list):
        return any(_mentions(v, l) for v in o)
    return False


def p12(F, rep, rule="P12"):
    """What only the analysis knows must not steer the shared predictor.  `predict_block` and `recreate_block` drive the same
    `TokenPredictor` methods; where the reconstruction side can only hand a constant `None` for an `Option` parameter (it does
    not have the token yet) and the analysis side hands the real thing, the callee must not use that parameter outside log
    output: a result that depends on it is a prediction the reconstruction cannot repeat, so `Ok` corrections come out that
    no parameters can replay (seed10-c08a: `repredict_reference` fell back on the wanted reference when the match finder
    found none)."""
    from .. import flow
    TP = P + "token_predictor::"
    from . import c04 as _c04
    recon = set(_c04.pure_leaves(F)[2])
    sites = {}
    for name, b in sorted(F.bodies.items()):
        if not name.startswith(TP):
            continue
        for bb, t in b.calls():
            c = t["callee"]
            cd = callee_def(t)
            if not cd.startswith(TP) or cd not in F.bodies:
                continue
            for i, a in enumerate(t["args"]):
                try:
                    o = flow.origin(b, a, through=("use",))
                    aggs = [r for _, _, r in o.exprs if r["k"] == "agg"]
                except Exception:
                    aggs = []
                is_none = len(aggs) == 1 and aggs[0].get("adt") == "std::option::Option" and aggs[0].get("vname") == "None"
                sites.setdefault((cd, i), []).append((name, is_none, b.where(bb)))
    n = 0
    for (cd, i), ss in sorted(sites.items()):
        if not any(x[1] for x in ss) or all(x[1] for x in ss):
            continue
        # a hint parameter: None from the reconstruction path, a value from callers the reconstruction never runs
        # (the other direction - `commit_token`'s output block, None while analysing - is data the analysis does not need)
        if any((x[0] in recon) != x[1] for x in ss):
            continue
        n += 1
        cb = F.bodies[cd]
        l = i + 1
        uses = []
        for bb in sorted(cb.normal_blocks()):
            for st in list(cb.stmts(bb)) + [cb.term(bb)]:
                if st.get("exp") and any(m in ("println", "print", "eprintln", "format", "format_args", "debug_assert", "debug_assert_eq", "log") for m in macro_names(st.get("exp"))):
                    continue
                if st.get("k") in ("storage_live", "storage_dead", "nop"):
                    continue
                if _mentions(st, l):
                    uses.append(cb.where(bb))
        short = cd.replace(P, "")
        rep.add(rule, "analysis-only-hint-unused:%s#%d" % (short, i), not uses, "%s:%s" % (cb.file, cb.line),
                "parameter %d of %s is None from %s and a value from %s; used at %s" % (
                    i, short, sorted({x[0].replace(P, "") for x in ss if x[1]}), sorted({x[0].replace(P, "") for x in ss if not x[1]}), sorted(set(uses))[:4] or "no place outside log output"))
    # the one instance on the reference tree; a tree where the parameter is gone has nothing to check
    need = 1 if any(k.endswith("::repredict_reference") and F.bodies[k].argc >= 2 for k in F.bodies) else 0
    rep.floor(rule, "hint-parameters", n, need)


def _written_values(F, wb, t):
    """Set of values the writer may pass as `value` of encode_value, or None when unknown."""
    op = t["args"][1]
    c = flow.const_eval(wb, op)
    if c is not None:
        return {c}, "constant"
    o = flow.origin(wb, op)
    # enum discriminant cast: x as u16 where x: enum
    p = op_place(op)
    if p is not None:
        d = wb.single_def(p["l"])
        if d and d[2] == "assign" and d[3]["k"] == "cast" and d[3]["ck"] == "IntToInt":
            src = op_place(d[3]["op"])
            if src is not None:
                d2 = wb.single_def(src["l"])
                if d2 and d2[2] == "assign" and d2[3]["k"] == "discr":
                    ty = _place_ty(F, wb, d2[3]["place"])
                    a = F.adts.get(ty or "")
                    if a and a["kind"] == "enum":
                        return {v["discr"] for v in a["variants"]}, "discriminants of " + ty
        if d and d[2] == "call" and strip_generics(callee_def(d[3])).endswith("From::from") and wb.local_ty(op_place(d[3]["args"][0])["l"]) == "bool":
            return {0, 1}, "u16::from(bool)"
    return None, "run-time value"


def _place_ty(F, b, place):
    ty = b.local_ty(place["l"])
    for e in place["p"]:
        if e == "*":
            ty = re.sub(r"^&(mut )?", "", ty)
        elif isinstance(e, dict) and "f" in e:
            a = F.adts.get(re.sub(r"<.*$", "", ty))
            if not a:
                return None
            fs = a["variants"][0]["fields"]
            ty = fs[e["f"]]["ty"]
        else:
            return None
    return ty


def _reader_switch_values(rb, dest):
    """Values the reader distinguishes for the decoded local (switch arms / equality tests), and whether
    the remaining values lead to Err."""
    al, sk = flow.track(rb, {dest}, casts=("IntToInt",))
    vals = set()
    n_sw = 0
    for s in sk:
        if s[0] == "switch":
            n_sw += 1
            for v, _ in s[2]["targets"]:
                vals.add(v)
        elif s[0] == "expr":
            r = s[3]["r"]
            if r["k"] == "binop" and r["op"] in ("Eq", "Ne"):
                for o in (r["l"], r["r"]):
                    c = flow.const_eval(rb, o)
                    if c is not None and (op_place(o) is None or op_place(o)["l"] not in al):
                        vals.add(c)
    return vals, n_sw


_UBE = {}


def _ub_engine(F):
    from . import ub
    if id(F) not in _UBE:
        _UBE[id(F)] = ub.engine(F)
    return _UBE[id(F)]


def _reader_rejects(F, rb, dest):
    """(operator, constant, where) of every test `value OP constant` on the decoded local (through integer casts and
    From/Into) whose true edge can only end in an error."""
    from .. import err
    prods = {bb for bb, _ in err.result_producers(rb, F)}

    def from_dest(op, depth=0):
        p = op_place(op)
        if p is None or p["p"] or depth > 8:
            return False
        if p["l"] == dest:
            return True
        d = rb.single_def(p["l"])
        if not d:
            return False
        if d[2] == "assign" and d[3]["k"] in ("use", "cast"):
            return from_dest(d[3]["op"], depth + 1)
        if d[2] == "call" and re.search(r"convert::(From::from|Into::into)$", strip_generics(callee_def(d[3]))) and d[3]["args"]:
            return from_dest(d[3]["args"][0], depth + 1)
        return False
    out = []
    for sb in sorted(rb.normal_blocks()):
        st = rb.term(sb)
        if st["k"] != "switch" or len(st["targets"]) != 1:
            continue
        p = op_place(st["d"])
        dd = rb.single_def(p["l"]) if p is not None and not p["p"] else None
        if not (dd and dd[2] == "assign" and dd[3]["k"] == "binop" and dd[3]["op"] in ("Lt", "Le", "Gt", "Ge")):
            continue
        l, r = dd[3]["l"], dd[3]["r"]
        kl, kr = flow.const_eval(rb, l), flow.const_eval(rb, r)
        op = dd[3]["op"]
        if kr is not None and kl is None and from_dest(l):
            k = kr
        elif kl is not None and kr is None and from_dest(r):
            k, op = kl, {"Lt": "Gt", "Le": "Ge", "Gt": "Lt", "Ge": "Le"}[op]
        else:
            continue
        true_edge = st["otherwise"]
        false_edge = st["targets"][0][1]
        t_err = not (prods & rb.reachable_from(true_edge))
        f_err = not (prods & rb.reachable_from(false_edge))
        if t_err and not f_err:
            out.append((op, k, rb.where(sb)))
        elif f_err and not t_err:
            out.append(({"Lt": "Ge", "Le": "Gt", "Gt": "Le", "Ge": "Lt"}[op], k, rb.where(sb)))
    return out


def _p2_p5(F, rep, res, W, R):
    wb = F.body(PP + "write")
    rb = F.body(PP + "read")
    pairs = {}
    for wl, rl, ww, rw in res["matched"]:
        if wl[0] == "val":
            pairs.setdefault(ww, set()).add(rw)
    n2 = n5 = 0
    for ww in sorted(pairs, key=lambda w: W.site_info[w][1]):
        fn, wbb = W.site_info[ww]
        if fn != PP + "write":
            continue
        wt = wb.term(wbb)
        width = flow.const_eval(wb, wt["args"][2])
        vals, how = _written_values(F, wb, wt)
        wo = flow.origin(wb, wt["args"][1])
        wfields = [f for f in _field_path(wb, wt["args"][1])]
        for rw in sorted(pairs[ww]):
            rfn, rbb = R.site_info[rw]
            if rfn != PP + "read":
                continue
            rt = rb.term(rbb)
            dest = rt["dest"]["l"]
            sv, n_sw = _reader_switch_values(rb, dest)
            # ---- P2
            if vals is not None and n_sw > 0 and how != "constant":
                n2 += 1
                missing = sorted(v for v in vals if v not in sv)
                rep.add("P2", "code-points:%s" % (how.split("::")[-1] if "discriminants" in how else (wfields[-1] if wfields else how)), not missing, ww,
                        "writer may emit %s (%s); reader maps %s%s" % (sorted(vals), how, sorted(sv), "" if not missing else "; unmapped: %r" % missing))
            # ---- P8: a range check on the decoded value must admit everything the writer can emit for this field
            for (op, k, where8) in _reader_rejects(F, rb, dest):
                ubw = _ub_engine(F).operand(wb, wt["args"][1], wbb)
                lo_rej = {"Gt": k + 1, "Ge": k}.get(op)         # values >= lo_rej are refused
                if lo_rej is not None:
                    rep.add("P8", "reader-admits-writer-range:%s" % (wfields[-1] if wfields else ww), ubw < lo_rej, where8,
                            "the reader refuses values >= %d of this field; the writer can emit up to %s" % (lo_rej, ubw))
                else:
                    rep.add("P8", "reader-admits-writer-range:%s" % (wfields[-1] if wfields else ww), False, where8,
                            "UNRECOGNISED-IDIOM: the reader refuses values by %s %d; only upper limits are understood" % (op, k))
            # ---- P5
            if wfields:
                rfields = _agg_fields_reached(rb, dest)
                if rfields:
                    n5 += 1
                    ok = wfields[-1] in rfields
                    rep.add("P5", "field:%s" % wfields[-1], ok, ww,
                            "written from field path %s (width %s); the value decoded at %s lands in field(s) %s" % (".".join(wfields), width, rw.split("(")[-1].rstrip(")"), sorted(rfields)))
    if not res["violations"]:
        rep.floor("P2", "enum-valued-fields", n2, 2)
        rep.floor("P5", "field-pairs", n5, 12)
    # constant code points written per switch (hash algorithm, add policy): each must be mapped by the reader
    groups = {}
    for wl, rl, ww, rw in res["matched"]:
        if wl[0] == "val" and wl[2] is not None:
            groups.setdefault(rw, set()).add(wl[2])
    for rw, consts in sorted(groups.items()):
        rfn, rbb = R.site_info[rw]
        if rfn != PP + "read":
            continue
        dest = rb.term(rbb)["dest"]["l"]
        sv, n_sw = _reader_switch_values(rb, dest)
        if n_sw == 0 and not sv:
            continue
        if len(consts) < 2:
            continue
        missing = sorted(c for c in consts if c not in sv)
        nm = _user_name(rb, dest) or ("width%s" % flow.const_eval(rb, rb.term(rbb)["args"][1]))
        rep.add("P2", "constant-code-points:%s" % nm, not missing, rw, "writer constants %s, reader arms %s" % (sorted(consts), sorted(sv)))


def _field_path(b, op, depth=0):
    """Field names on the way from a struct/enum payload to this operand (through copies/casts/From::from)."""
    p = op_place(op)
    if p is None or depth > 8:
        return []
    names = [e["n"] for e in p["p"] if isinstance(e, dict) and "f" in e and "n" in e]
    ds = b.defs(p["l"])
    sub = []
    for bb, idx, kind, payload in ds:
        if kind == "assign" and payload["k"] in ("use", "cast"):
            s = _field_path(b, payload["op"], depth + 1)
            if s:
                sub = s
        elif kind == "assign" and payload["k"] == "agg" and payload.get("ak") == "tuple":
            # `let (a, b) = match .. { .. => (x, y) }`: component i of the tuple comes from operand i
            fi = [e["f"] for e in p["p"] if isinstance(e, dict) and "f" in e and "n" not in e]
            if len(fi) == 1 and fi[0] < len(payload["ops"]):
                s = _field_path(b, payload["ops"][fi[0]], depth + 1)
                if s:
                    sub = s
        elif kind == "call":
            n = strip_generics(callee_def(payload))
            if re.search(r"(From::from|Into::into|TryFrom::try_from|Result::unwrap|Result::expect)$", n):
                s = _field_path(b, payload["args"][0], depth + 1)
                if s:
                    sub = s
    return sub + names


def _agg_fields_reached(b, local):
    """Names of aggregate fields the (possibly converted) value ends up in."""
    out = set()
    seen = set()
    work = [local]
    while work:
        l = work.pop()
        if l in seen:
            continue
        seen.add(l)
        for u in flow.uses(b, l):
            if u[0] == "stmt":
                s = u[3]
                r = s["r"]
                if s["k"] != "assign":
                    continue
                if r["k"] == "agg" and r.get("ak") == "adt" and r["adt"].startswith("preflate_rs::"):
                    for i, o in enumerate(r["ops"]):
                        p = op_place(o)
                        if p is not None and p["l"] == l and i < len(r["fields"]):
                            out.add(r["fields"][i])
                elif r["k"] == "agg" and r.get("ak") == "tuple" and not s["p"]["p"]:
                    # through a tuple: follow the same component out again
                    for i, o in enumerate(r["ops"]):
                        p = op_place(o)
                        if p is not None and p["l"] == l and not p["p"]:
                            for u2 in flow.uses(b, s["p"]["l"]):
                                if u2[0] == "stmt" and u2[3]["k"] == "assign" and u2[3]["r"]["k"] in ("use", "cast") and not u2[3]["p"]["p"]:
                                    q = op_place(u2[3]["r"]["op"])
                                    if q is not None and q["l"] == s["p"]["l"] and [e.get("f") for e in q["p"] if isinstance(e, dict)] == [i]:
                                        work.append(u2[3]["p"]["l"])
                elif r["k"] in ("use", "cast") or (r["k"] == "binop" and r["op"] in ("Ne", "Eq", "Gt")):
                    if not s["p"]["p"]:
                        work.append(s["p"]["l"])
            else:
                t = u[2]
                if t["k"] == "call":
                    n = strip_generics(callee_def(t))
                    if re.search(r"(From::from|Into::into|TryFrom::try_from)$", n) and not t["dest"]["p"]:
                        work.append(t["dest"]["l"])
    return out


def _p4(F, rep):
    b = F.body(PC + "decompress_deflate_stream")
    wr = [(bb, t) for bb, t in b.calls() if strip_generics(callee_def(t)) == PP + "write"]
    em = [(bb, t) for bb, t in b.calls() if strip_generics(callee_def(t)) == "preflate_rs::process::encode_mispredictions"]
    rep.floor("P4", "write-call", len(wr), 1)
    rep.floor("P4", "encode_mispredictions-call", len(em), 1)
    if wr and em:
        from .c11 import _roots
        a = _roots(b, wr[0][1]["args"][0])
        c = _roots(b, em[0][1]["args"][1])
        same = bool(a) and a == c
        # the shared local is assigned once
        chain = _chain(b, wr[0][1]["args"][0]) | _chain(b, em[0][1]["args"][1])
        once = all(len([d for d in b.defs(l) if d[2] != "partial"]) == 1 and not [d for d in b.defs(l) if d[2] == "partial"] for l in chain)
        mutb = [1 for bb in range(b.n) for s in b.stmts(bb) if s["k"] == "assign" and s["r"]["k"] == "ref" and s["r"].get("mut") and s["r"]["place"]["l"] in chain]
        rep.add("P4", "analysis-uses-serialised-parameters", same and once and not mutb, b.where(wr[0][0]),
                "write(..) receives %r, encode_mispredictions(..) receives %r; assigned once=%s, mutably borrowed=%s" % (sorted(a), sorted(c), once, bool(mutb)))
    for fn in (PC + "recompress_deflate_stream", PC + "decompress_deflate_stream"):
        bd = F.body(fn)
        rd = [(bb, t) for bb, t in bd.calls() if strip_generics(callee_def(t)) == PP + "read"]
        dm = [(bb, t) for bb, t in bd.calls() if strip_generics(callee_def(t)) == "preflate_rs::process::decode_mispredictions"]
        rep.floor("P4", "read-call:" + fn.split("::")[-1], len(rd), 1)
        rep.floor("P4", "decode_mispredictions-call:" + fn.split("::")[-1], len(dm), 1)
        if rd and dm:
            from .c11 import _roots
            # payload of read(..)[.context()]?
            res_local = rd[0][1]["dest"]["l"]
            pay = set()
            ti = err.try_info(bd, res_local)
            if ti:
                pay |= ti["payload"]
            # through .context()
            al, sk = flow.track(bd, {res_local}, casts=())
            for s in sk:
                if s[0] == "call" and strip_generics(callee_def(s[3])).endswith("AddContext::context"):
                    t2 = err.try_info(bd, s[3]["dest"]["l"])
                    if t2:
                        pay |= t2["payload"]
            arg = _roots(bd, dm[0][1]["args"][0])
            rep.add("P4", "reconstruction-uses-read-parameters:" + fn.split("::")[-1], bool(arg) and arg <= pay, bd.where(dm[0][0]),
                    "decode_mispredictions receives %r; payload of PreflateParameters::read is %r" % (sorted(arg), sorted(pay)[:6]))


def _user_name(b, local):
    """Name of the user variable the temp is copied into (first hop), if any."""
    if b.local_name(local):
        return b.local_name(local)
    for u in flow.uses(b, local):
        if u[0] == "stmt" and u[3]["k"] == "assign" and u[3]["r"]["k"] == "use" and not u[3]["p"]["p"]:
            n = b.local_name(u[3]["p"]["l"])
            if n:
                return n
    return None


def _chain(b, opnd):
    """Every local on the copy/borrow chain from the operand back to its root."""
    out = set()

    def go(op):
        p = op_place(op) if ("c" in op or "m" in op) else (op if "l" in op else None)
        if p is None or p["l"] in out:
            return
        out.add(p["l"])
        for bb, idx, kind, payload in b.defs(p["l"]):
            if kind == "assign" and payload["k"] == "use" and op_place(payload["op"]) is not None and not any(
                    isinstance(e, dict) and "dc" in e for e in op_place(payload["op"])["p"]):
                go(payload["op"])
            elif kind == "assign" and payload["k"] in ("ref", "rawptr"):
                go(payload["place"])
    go(opnd)
    return out
