"""C12 — C ABI wrappers respect caller buffers, report status, never unwind into the caller.

Decided clauses (DESIGN.md §4/C12): F1 whole body under catch_unwind + status map, F2 pointer
provenance, F3 where the caller's output slice may flow, F4 the *result_size store dominates every Ok
and its value comes from a source bounded by the slice length, F5 no Result dropped, F6 the 128 MiB
constant, F7 exact signature (facts + witness crate in the thorough tier).
Not decided: the round-trip clause (reduces to C01).
"""
import re
from .. import flow, err
from ..facts import op_place, op_const, const_int, callee_def
from ..common import strip_generics, PC

SIG = 'unsafe extern "C" fn(*const u8, u64, *mut u8, u64, *mut u64) -> i32'
PARAM_ROLE = {1: "input_ptr", 2: "input_len", 3: "output_ptr", 4: "output_len", 5: "result_size"}
MIB128 = 128 * 1024 * 1024

# where the &mut [u8] over the caller's buffer may go (callee, argument index)
OUT_SINKS = [
    (r"^zstd::bulk::compress_to_buffer$", 1),
    (r"^zstd::bulk::Compressor::compress_to_buffer$", 2),
    (r"^std::io::Cursor::new$", 0),
]
CURSOR_OK = [
    (r"^preflate_rs::preflate_container::recreated_zlib_chunks$", 1),
    (r"^std::io::Cursor::position$", 0),
]


def run(ctx, rep):
    F = ctx.lib
    rep.explanation = (
        "For every #[no_mangle] extern \"C\" function: the only call of the outer body is catch_unwind (no panic can "
        "originate outside it), the status constants are 0 only on Ok(Ok) and negative otherwise, caller pointers reach "
        "only slice::from_raw_parts(_mut) paired with their own length and the single *result_size store, the mutable "
        "slice over the caller's buffer flows only into bounds-checked writers, the store dominates every Ok return "
        "and its value originates from the writer's own count, no Result is discarded, the intermediate capacity "
        "constant is >= 128 MiB. Sound for these clauses under Rust slice semantics.")
    rep.trusted = ["Rust slice semantics: all writes through &mut [u8] are bounds-checked",
                   "zstd-safe honours dst.len(); Cursor<&mut [u8]>::position() <= slice length after write_all",
                   "catch_unwind catches unwinding panics (profile must not set panic=abort)",
                   "dropping the panic payload does not itself panic"]
    shims = [(n, b) for n, b in sorted(F.bodies.items())
             if b.j.get("no_mangle") or str(b.j.get("abi", "")).startswith("C")]
    rep.floor("F0", "extern-C-shims", len(shims), 2)
    names = {n for n, _ in shims}
    for need in ("preflate_rs::WrapperCompressZip", "preflate_rs::WrapperDecompressZip"):
        if need not in names:
            rep.missing("F0", need)
    rep.add("F0", "panic-strategy-unwind", F.j.get("panic_strategy") == "Unwind", "",
            "panic strategy of the analysed build: %s" % F.j.get("panic_strategy"))
    for name, body in shims:
        _shim(F, rep, name, body)
    rep.floor("F6", "bounded-decompress-calls", sum(1 for o in rep.obs if o.rule == "F6"), 1)
    # ---- F8: the Cursor over the caller's buffer is handed to recreated_zlib_chunks; "undersized buffer => negative status"
    # needs its WriteZero error to come back, so nothing on that path may defer the writes behind an adaptor whose Drop
    # discards the flush error (same rule as C13/R5, over the generic functions that receive the destination).
    from . import c13
    scope = c13.generic_scope(F, PC + "recreated_zlib_chunks")
    rep.floor("F8", "destination-holding-functions", len(scope), 5)
    c13.r5(F, rep, "F8", scope)
    # ... and every write to it must be a write_all: a count-returning write (write, write_vectored) on a Cursor over a
    # too-small slice reports the shortfall only in the count, so ignoring it turns "buffer too small" into status 0
    nw = 0
    for name in scope:
        b = F.bodies[name]
        for bb, t in b.calls():
            tr = t["callee"].get("trait")
            if tr not in ("std::io::Write", "byteorder::WriteBytesExt"):
                continue
            m = t["callee"]["def"].split("::")[-1]
            nw += 1
            rep.add("F8", "destination-write:%s:%s@%s" % (name.split("::")[-1], m, c13._nth(b, bb, m)), bool(c13.WRITE_OK.match(m)), b.where(bb), "%s::%s" % (tr, m))
    rep.floor("F8", "destination-writes", nw, 2)
    rep.add("F8", "no-unflushed-buffering", not any(o.rule == "F8" and not o.ok and "buffered-destination" in str(o.instance) for o in rep.obs), "",
            "functions that hold the destination: %s" % [s.split("::")[-1] for s in scope])


def _shim(F, rep, name, body):
    short = name.split("::")[-1]
    where = "%s:%s" % (body.file, body.line)
    # ---- F7 signature ---------------------------------------------------------------------------
    sig = body.j.get("sig", "")
    rep.add("F7", "signature:" + short, sig == SIG and body.j.get("no_mangle") and body.j.get("vis") == "Public", where,
            "sig=%s no_mangle=%s vis=%s" % (sig, body.j.get("no_mangle"), body.j.get("vis")))
    # ---- F1 outer body --------------------------------------------------------------------------
    nb = body.normal_blocks()
    calls = [(bb, t) for bb, t in body.calls()]
    cu = [(bb, t) for bb, t in calls if strip_generics(callee_def(t)) == "std::panic::catch_unwind"]
    # `x.is_err()` / `x.is_ok()` on the outcome are pure queries of its discriminant (the `if let Err(_) = x` of the call form)
    other = [(bb, strip_generics(callee_def(t))) for bb, t in calls if strip_generics(callee_def(t)) != "std::panic::catch_unwind"
             and not re.match(r"^std::result::Result::(is_err|is_ok)$", strip_generics(callee_def(t)))]
    rep.add("F1", "only-catch_unwind:" + short, len(cu) == 1 and not other, where,
            "calls outside catch_unwind: %r" % other if other else "the outer body calls catch_unwind and nothing else")
    asserts = [bb for bb in nb if body.term(bb)["k"] == "assert"]
    rep.add("F1", "no-assert-outside:" + short, not asserts, where,
            "panicking assertion (overflow/bounds) outside catch_unwind at blocks %r" % asserts if asserts else "no Assert terminator in the outer body")
    if len(cu) != 1:
        rep.add("F1", "UNRECOGNISED-IDIOM:" + short, False, where, "cannot find the single catch_unwind call")
        return
    cbb, cterm = cu[0]
    res_local = cterm["dest"]["l"]
    # closure passed to catch_unwind
    clos = None
    o = flow.origin(body, cterm["args"][0])
    for _, _, r in o.exprs:
        if r["k"] == "agg" and r.get("ak") == "closure":
            clos = r
    if clos is None:
        rep.add("F1", "UNRECOGNISED-IDIOM:closure:" + short, False, where, "catch_unwind argument is not a closure literal")
        return
    # status constants
    _status(rep, body, short, where, res_local)
    # ---- closure: capture k -> outer parameter ---------------------------------------------------
    cap = {}
    for k, opnd in enumerate(clos["ops"]):
        oo = flow.origin(body, opnd)
        if len(oo.args) == 1 and not (oo.calls or oo.exprs or oo.consts):
            cap[k] = next(iter(oo.args))
    cbody = F.bodies.get(clos["def"])
    if cbody is None:
        rep.missing("F2", clos["def"])
        return
    roles = {k: PARAM_ROLE.get(p) for k, p in cap.items()}
    rep.add("F2", "captures:" + short, len(cap) == len(clos["ops"]) and all(roles.values()),
            where, "closure captures map to parameters %r" % roles)
    _closure(F, rep, short, cbody, {v: k for k, v in roles.items() if v})


def _status(rep, body, short, where, res_local):
    """0 only on Ok(Ok(_)); every other returned constant negative; nothing non-constant."""
    # switch edges: on discr(catch_unwind result) and discr(inner result)
    def discr_of(local):
        # local = discr(place rooted at X) -> X and its projection
        d = body.single_def(local)
        if d and d[2] == "assign" and d[3]["k"] == "discr":
            return d[3]["place"]
        return None
    ok_edges = []  # (bb, succ) edges meaning "this Result is Ok" / and err edges
    # the result may be handed on unchanged (moved into the parameter of an inlined helper)
    alias = {res_local}
    for _ in range(4):
        for bb in body.normal_blocks():
            for s in body.stmts(bb):
                if s["k"] == "assign" and s["r"]["k"] == "use" and not s["p"]["p"]:
                    p = op_place(s["r"]["op"])
                    if p and p["l"] in alias and not p["p"] and len(body.defs(s["p"]["l"])) == 1:
                        alias.add(s["p"]["l"])
    inner_locals = set()
    for bb in body.normal_blocks():
        for s in body.stmts(bb):
            if s["k"] == "assign" and s["r"]["k"] == "use":
                p = op_place(s["r"]["op"])
                if p and p["l"] in alias and any(isinstance(e, dict) and e.get("dc") == 0 for e in p["p"]):
                    inner_locals.add(s["p"]["l"])
    outer_ok, inner_ok = [], []
    for bb in body.normal_blocks():
        t = body.term(bb)
        if t["k"] != "switch":
            continue
        p = op_place(t["d"])
        if p is None:
            continue
        dp = discr_of(p["l"])
        if dp is None:
            continue
        tg = dict((v, b) for v, b in t["targets"])
        if dp["l"] in alias and not dp["p"]:
            if 0 in tg:
                outer_ok.append((bb, tg[0]))
        elif (dp["l"] in inner_locals and not dp["p"]) or (dp["l"] in alias and [e.get("dc") if isinstance(e, dict) else e for e in dp["p"]][:1] == [0]
                                                            and all(isinstance(e, dict) and ("dc" in e or e.get("f") == 0) for e in dp["p"]) and len(dp["p"]) <= 2):
            # inner Result<(), E>: Ok = 0
            if 0 in tg:
                inner_ok.append((bb, tg[0]))
            elif 1 in tg:
                inner_ok.append((bb, t["otherwise"]))
    # the inner result queried with is_err() / is_ok(): the branch on the returned bool
    for bb, t in body.calls():
        n = strip_generics(callee_def(t))
        m = re.match(r"^std::result::Result::(is_err|is_ok)$", n)
        if not m or not t["args"] or t["dest"]["p"]:
            continue
        ap = op_place(t["args"][0])
        d0 = body.single_def(ap["l"]) if ap is not None and not ap["p"] else None
        src = d0[3]["place"] if d0 and d0[2] == "assign" and d0[3]["k"] == "ref" else ap
        if src is None or not (src["l"] in inner_locals or (src["l"] in alias and src["p"])):
            continue
        for sb in body.normal_blocks():
            st = body.term(sb)
            sp = op_place(st["d"]) if st["k"] == "switch" else None
            if sp is not None and sp["l"] == t["dest"]["l"] and not sp["p"] and len(st["targets"]) == 1 and st["targets"][0][0] == 0:
                false_edge, true_edge = st["targets"][0][1], st["otherwise"]
                inner_ok.append((sb, false_edge if m.group(1) == "is_err" else true_edge))
    consts = []
    bad = []

    def status_defs(local, depth=0):
        for d in body.defs(local):
            bb = d[0]
            if bb not in body.normal_blocks():
                continue
            if d[2] == "assign" and not d[3] is None and d[3]["k"] == "use":
                v = flow.const_eval(body, d[3]["op"]) if op_place(d[3]["op"]) is None else None
                q = op_place(d[3]["op"])
                if v is not None:
                    consts.append((bb, v))
                elif q is not None and not q["p"] and depth < 4 and len(body.defs(q["l"])) >= 1 and not (1 <= q["l"] <= body.argc):
                    status_defs(q["l"], depth + 1)       # a copy: the constants are where the copied local is set
                else:
                    v2 = flow.const_eval(body, d[3]["op"])
                    if v2 is not None:
                        consts.append((bb, v2))
                    else:
                        bad.append(bb)
            elif d[2] == "arg":
                bad.append(bb)
            else:
                bad.append(bb)
    status_defs(0)
    rep.add("F1", "status-constants-only:" + short, not bad and consts, where,
            "non-constant status at blocks %r" % bad if bad else "status values %r" % sorted({v for _, v in consts}))
    for bb, v in consts:
        if v == 0:
            ok = any(body.edge_dominates(a, s, bb) for a, s in outer_ok) and any(body.edge_dominates(a, s, bb) for a, s in inner_ok)
            rep.add("F1", "status-0-only-on-Ok(Ok):" + short, ok, where,
                    "the block returning 0 is %sdominated by both Ok edges (catch_unwind result and inner result)" % ("" if ok else "NOT "))
        else:
            rep.add("F1", "status-negative:%s:%d" % (short, v), v < 0, where, "non-zero status %d must be negative" % v)
    rep.add("F1", "status-has-zero:" + short, any(v == 0 for _, v in consts), where, "a success status 0 exists")


def _cap_seeds(cbody, k):
    """Locals loaded from closure capture field k (the env is argument _1)."""
    seeds = set()
    for bb in range(cbody.n):
        for s in cbody.stmts(bb):
            if s["k"] == "assign" and s["r"]["k"] in ("use", "ref"):
                p = op_place(s["r"]["op"]) if s["r"]["k"] == "use" else s["r"]["place"]
                if p and p["l"] == 1:
                    fs = [e for e in p["p"] if isinstance(e, dict) and "f" in e]
                    if fs and fs[0]["f"] == k:
                        seeds.add(s["p"]["l"])
    return seeds


def _closure(F, rep, short, cb, cap_of):
    where = "%s:%s" % (cb.file, cb.line)
    # F9: the wrapper refuses nothing on its own — every failure status comes from zstd, the container code or the cursor on
    # the caller's buffer (a "cannot fit anyway" pre-check turns adequate buffers into failures)
    from .. import err as _err
    own = _err.own_errors(F, cb)
    rep.add("F9", "no-error-of-its-own:" + short, not own, where, "errors constructed by the wrapper body itself: %s" % own)
    # the env may only be used through field loads
    env_uses = [u for u in flow.uses(cb, 1)]
    bad_env = [u for u in env_uses if not (u[0] == "stmt" and u[3]["k"] == "assign" and u[3]["r"]["k"] in ("use", "ref"))]
    rep.add("F2", "env-only-field-loads:" + short, not bad_env, where, "closure environment used other than by loading a capture")
    tracked = {}
    for role in PARAM_ROLE.values():
        seeds = _cap_seeds(cb, cap_of[role]) if role in cap_of else set()
        tracked[role] = flow.track(cb, seeds) if seeds else (set(), [])
        if role in ("input_ptr", "output_ptr", "result_size"):
            rep.add("F2", "capture-loaded:%s:%s" % (short, role), bool(seeds), where, "capture for %s is %s" % (role, "read" if seeds else "never read"))

    def call_sinks(role):
        return [(s[1], s[2], s[3]) for s in tracked[role][1] if s[0] == "call"]

    def other_sinks(role):
        return [s for s in tracked[role][1] if s[0] not in ("call", "drop")]

    # ---- F2: pointers go to from_raw_parts(_mut) arg0 only, paired with their own length ---------
    pair = {"input_ptr": ("input_len", "std::slice::from_raw_parts"), "output_ptr": ("output_len", "std::slice::from_raw_parts_mut")}
    slices = {}
    for prole, (lrole, fn) in pair.items():
        cs = call_sinks(prole)
        ok = len(cs) == 1 and strip_generics(callee_def(cs[0][2])) == fn and cs[0][1] == 0 and not other_sinks(prole)
        rep.add("F2", "%s-only-%s:%s" % (prole, fn.split("::")[-1], short), ok, where,
                "uses of the caller pointer: %r %r" % ([(strip_generics(callee_def(t)), ai) for _, ai, t in cs], [s[0] for s in other_sinks(prole)]))
        ls = call_sinks(lrole)
        okl = len(ls) == 1 and ok and ls[0][0] == cs[0][0] and ls[0][1] == 1 and not other_sinks(lrole)
        rep.add("F2", "%s-paired-with-%s:%s" % (lrole, prole, short), okl, where,
                "the length given to %s must be the caller's own %s (uses: %r)" % (fn.split("::")[-1], lrole, [(strip_generics(callee_def(t)), ai) for _, ai, t in ls]))
        if ok:
            slices[prole] = cs[0][2]["dest"]["l"]
    # raw pointer arithmetic / writes anywhere in the closure
    rawops = []
    for bb, t in cb.calls():
        n = strip_generics(callee_def(t))
        if re.search(r"ptr::(write|copy|copy_nonoverlapping|read|swap|replace)|::(offset|add|sub|wrapping_add|wrapping_offset|byte_add)$|intrinsics::transmute|mem::transmute", n) and "const_ptr" in n + "mut_ptr" + n:
            rawops.append(n)
        elif re.search(r"^std::ptr::(write|copy|copy_nonoverlapping|read|swap|replace|write_bytes|write_unaligned|write_volatile)$|^std::mem::transmute$", n):
            rawops.append(n)
    rep.add("F2", "no-raw-pointer-ops:" + short, not rawops, where, "raw pointer operations in the shim: %r" % rawops)
    # ---- result_size: exactly one store, nothing else ----------------------------------------------
    rs = tracked["result_size"][1]
    stores = [s for s in rs if s[0] == "store"]
    others = [s for s in rs if s[0] not in ("store", "drop")]
    rep.add("F2", "result_size-single-store:" + short, len(stores) == 1 and not others, where,
            "%d store(s) through result_size, other uses: %r" % (len(stores), [s[0] for s in others]))
    # ---- F3: where the output slice flows ------------------------------------------------------
    writer_result = None   # ('zstd', call term) or ('cursor', cursor local)
    if "output_ptr" in slices:
        al, sk = flow.track(cb, {slices["output_ptr"]})
        bad = []
        for s in sk:
            if s[0] == "drop":
                continue
            if s[0] != "call":
                bad.append(s[0])
                continue
            n = strip_generics(callee_def(s[3]))
            if re.match(r"^core::slice::(len|is_empty)$", n):
                continue          # read-only observers of the slice header write nothing
            hit = [1 for pat, ai in OUT_SINKS if re.search(pat, n) and ai == s[2]]
            if not hit:
                bad.append("%s#%d" % (n, s[2]))
                continue
            if n == "std::io::Cursor::new":
                cur = s[3]["dest"]["l"]
                al2, sk2 = flow.track(cb, {cur})
                for s2 in sk2:
                    if s2[0] == "drop":
                        continue
                    if s2[0] != "call":
                        bad.append("cursor:" + s2[0])
                        continue
                    n2 = strip_generics(callee_def(s2[3]))
                    if not [1 for pat, ai in CURSOR_OK if re.search(pat, n2) and ai == s2[2]]:
                        bad.append("cursor->%s#%d" % (n2, s2[2]))
                    elif n2.endswith("Cursor::position"):
                        if writer_result is None or writer_result[0] != "cursor":
                            writer_result = ("cursor", [])
                        writer_result[1].append(s2[3])
            else:
                writer_result = ("zstd", s[3])
        rep.add("F3", "output-slice-sinks:" + short, not bad and writer_result is not None, where,
                "the caller's output slice reaches: %r" % bad if bad else "only bounds-checked writers (%s)" % (writer_result[0] if writer_result else "none found"))
    # ---- F4: store dominates every Ok; stored value comes from the writer ----------------------
    if len(stores) == 1:
        sbb = stores[0][1]
        oks = []
        for bb in cb.normal_blocks():
            for s in cb.stmts(bb):
                if s["k"] == "assign" and s["p"]["l"] == 0 and not s["p"]["p"] and s["r"]["k"] == "agg" and s["r"].get("vname") == "Ok":
                    oks.append(bb)
            t = cb.term(bb)
            if t["k"] == "call" and t["dest"]["l"] == 0 and not strip_generics(callee_def(t)).endswith("from_residual"):
                oks.append(bb)  # some other producer of the return value: must be dominated too
        rep.floor("F4", "ok-returns:" + short, len(oks), 1)
        for bb in oks:
            dom = cb.dominates(sbb, bb) or sbb == bb
            if sbb == bb:
                # same block: the store must precede the Ok aggregate
                idx_store = stores[0][2]
                idx_ok = max(i for i, s in enumerate(cb.stmts(bb)) if s["k"] == "assign" and s["p"]["l"] == 0) if any(
                    s["k"] == "assign" and s["p"]["l"] == 0 for s in cb.stmts(bb)) else 10 ** 6
                dom = idx_store < idx_ok
            rep.add("F4", "store-dominates-Ok:%s:bb%d" % (short, bb), dom, "%s:%s" % (cb.file, cb.term(bb).get("line")),
                    "*result_size is %sset on every path to this Ok" % ("" if dom else "NOT "))
        # value origin
        st = stores[0][3]
        vo = flow.origin(cb, st["r"]["op"] if st["r"]["k"] in ("use", "cast") else {"k": {}})
        src_ok = False
        detail = "stored value does not originate from the writer's count"
        if writer_result is not None:
            if writer_result[0] == "cursor":
                src_ok = bool(vo.calls) and all(any(t is w for w in writer_result[1]) for _, t in vo.calls) and not (vo.args or vo.consts or vo.exprs)
                detail = "stored value = Cursor::position() of the cursor over the caller's slice" if src_ok else detail
            else:
                # Ok payload of compress_to_buffer through `?`
                zt = writer_result[1]
                res_local = zt["dest"]["l"]
                chain = _try_payload_locals(cb, res_local)
                leaf = set()
                _payload_roots(cb, st["r"]["op"], leaf, set())
                src_ok = bool(leaf) and leaf <= chain
                detail = "stored value = Ok payload of compress_to_buffer on the caller's slice" if src_ok else detail + " (roots %r)" % sorted(leaf)
        rep.add("F4", "stored-value-source:" + short, src_ok, "%s:%s" % (cb.file, st.get("line")), detail)
    # ---- F5: no Result discarded or defaulted --------------------------------------------------
    n = 0
    for bb, t in err.result_calls(cb):
        n += 1
        cl = err.classify(cb, t["dest"]["l"])
        badk = [c for c in cl if c[0] == err.FORBIDDEN and not c[1].startswith(("unwrap()", "expect()"))]
        unk = [c for c in cl if c[0] in ("unknown", "passed", err.MATCH)]
        rep.add("F5", "result-consumed:%s:%s" % (short, strip_generics(callee_def(t))), not badk and not unk,
                "%s:%s" % (cb.file, t.get("line")), "; ".join("%s(%s)" % (k, d) for k, d, _ in cl))
    rep.floor("F5", "result-calls:" + short, n, 2)
    # ---- F6: capacity constant -----------------------------------------------------------------
    for bb, t in cb.calls():
        nme = strip_generics(callee_def(t))
        if re.search(r"^zstd::(bulk::decompress|bulk::Decompressor::decompress|stream::decode_all)$", nme):
            if nme.endswith("decode_all"):
                rep.add("F6", "capacity:" + short, False, "%s:%s" % (cb.file, t.get("line")), "decode_all has no capacity bound")
                continue
            v = flow.const_eval(cb, t["args"][-1])
            rep.add("F6", "capacity>=128MiB:" + short, v is not None and v >= MIB128, "%s:%s" % (cb.file, t.get("line")),
                    "capacity handed to %s evaluates to %r (need >= %d)" % (nme, v, MIB128))


def _try_payload_locals(cb, res_local):
    """Locals that hold the Ok payload of `res_local?` (through Try::branch -> Continue.0 -> copies/casts)."""
    out = set()
    al, sk = flow.track(cb, {res_local}, casts=())
    for s in sk:
        if s[0] == "call" and strip_generics(callee_def(s[3])).endswith("Try::branch"):
            cf = s[3]["dest"]["l"]
            for bb in range(cb.n):
                for st in cb.stmts(bb):
                    if st["k"] == "assign" and st["r"]["k"] == "use":
                        p = op_place(st["r"]["op"])
                        if p and p["l"] == cf and any(isinstance(e, dict) and e.get("dc") == 0 for e in p["p"]):
                            a2, _ = flow.track(cb, {st["p"]["l"]})
                            out |= a2
    return out


def _payload_roots(cb, op, leaf, seen):
    p = op_place(op)
    if p is None:
        leaf.add("const")
        return
    l = p["l"]
    if l in seen:
        return
    seen.add(l)
    ds = cb.defs(l)
    for bb, idx, kind, payload in ds:
        if kind == "assign" and payload["k"] in ("use", "cast") and op_place(payload["op"]) is not None:
            src = op_place(payload["op"])
            if any(isinstance(e, dict) and "dc" in e for e in src["p"]):
                leaf.add(l)  # payload extraction: this local is a root
            else:
                _payload_roots(cb, payload["op"], leaf, seen)
        else:
            leaf.add(l)
