"""C14 — public functions are deterministic and safe to call concurrently.

Argument (DESIGN.md §4/C14): a safe-Rust function whose mono-reachable code (a) touches no mutable or
interior-mutable static, (b) calls no source of ambient nondeterminism, (c) never reads uninitialised
memory or integerises addresses, (d) spawns nothing and (e) takes/returns only owned or immutably
borrowed data is a function of its arguments and needs no locking.  Each premise is a rule below,
evaluated over the instantiation-aware call graph rooted at the public API.
"""
import os, re
from ..common import PUBLIC_ENTRIES, STD_CRATES, macro_names, in_std_macro, in_derive, strip_generics
from ..facts import AnchorMissing, callee_def
from .. import flow, lazy

# (b)/(d): callee-name deny list. name = instance name with generic arguments stripped.
DENY = [
    (r"^std::time::", "clock"),
    (r"^std::env::", "process environment"),
    (r"^std::process::(id|exit|abort|Command)", "process state"),
    (r"^std::thread::", "threads / thread identity"),
    (r"(^|::)RandomState::new", "randomly seeded hasher"),
    (r"^std::hash::random::", "randomly seeded hasher"),
    (r"^std::collections::hash::map::RandomState", "randomly seeded hasher"),
    (r"(^|::)rand(_core|_chacha)?::", "random numbers"),
    (r"(^|::)getrandom::", "random numbers"),
    (r"(^|::)fastrand::", "random numbers"),
    (r"^std::fs::", "file system"),
    (r"^std::net::", "network"),
    (r"^std::os::", "OS handles"),
    (r"^std::io::stdin", "standard input"),
    (r"^std::sys::.*::(time|rand|random|hashmap_random_keys)", "OS entropy/clock"),
    (r"(^|::)rayon(_core)?::", "thread pool"),
    (r"^std::sync::(Mutex|RwLock|Condvar|Once|OnceLock|LazyLock|Barrier|mpsc|mpmc)", "lock / lazily initialised shared state"),
    (r"^std::sync::(poison::|once::|once_lock::|lazy_lock::)", "lock / lazily initialised shared state"),
    (r"^std::cell::(OnceCell|LazyCell)", "lazily initialised state"),
    (r"^std::thread::local::", "thread-local state"),
    (r"::fmt::Pointer>?::fmt$", "address formatted into output"),
    (r"^std::ptr::.*::(addr|expose_provenance)$", "pointer turned into an integer"),
    (r"^std::hash::.*for \*(const|mut)", "address hashed"),
    (r"available_parallelism", "machine-dependent value"),
    (r"^std::intrinsics::(type_id|type_name|caller_location)\b$", None),  # placeholder, never fires (None reason)
    (r"(^|::)ZSTD_(createCCtxParams|CCtxParams_|CCtx_refThreadPool|createThreadPool)", "zstd multi-threading"),
]
# every deny pattern must be able to fire: names that MUST match (self-test on every run)
DENY_POSITIVE = [
    "std::time::Instant::now", "std::env::var", "std::process::id", "std::thread::spawn", "std::thread::current",
    "std::hash::random::RandomState::new", "rand::rngs::thread::thread_rng", "getrandom::getrandom",
    "std::fs::File::open", "std::net::TcpStream::connect", "rayon_core::spawn", "std::sync::Mutex::lock",
    "std::sync::OnceLock::get_or_init", "std::sync::LazyLock::force", "std::thread::local::LocalKey::with",
    "<*const u8 as std::fmt::Pointer>::fmt", "std::ptr::const_ptr::<impl *const T>::addr",
    "std::thread::available_parallelism", "std::sync::poison::mutex::Mutex::lock", "std::sync::once::Once::call_once",
    "zstd::zstd_safe::zstd_sys::ZSTD_createThreadPool",
]

# (c): uninitialised-memory primitives.
UNINIT = re.compile(
    r"(MaybeUninit::.*assume_init|MaybeUninit::uninit|MaybeUninit::zeroed|::mem::uninitialized|::mem::zeroed|"
    r"Vec::set_len|Box::new_uninit|Box::.*assume_init|Box::from_raw|Rc::new_uninit|Arc::new_uninit|"
    r"String::from_utf8_unchecked|::alloc::alloc$|::alloc::alloc_zeroed$|::alloc::realloc$|GlobalAlloc|"
    r"ptr::read$|ptr::read_unaligned|ptr::read_volatile|slice::from_raw_parts|ptr::copy|ptr::write|"
    r"get_unchecked|unwrap_unchecked|unreachable_unchecked|intrinsics::transmute)")
UNINIT_POSITIVE = ["std::mem::MaybeUninit::assume_init", "std::vec::Vec::set_len", "std::boxed::Box::new_uninit",
                   "std::mem::uninitialized", "std::slice::from_raw_parts_mut", "std::alloc::alloc",
                   "core::slice::<impl [T]>::get_unchecked", "std::intrinsics::transmute"]

# reviewed (caller-def-regex, callee-regex, reason).  One row per named symbol pair.
UNINIT_REVIEWED = [
    (r"^preflate_rs::Wrapper(Compress|Decompress)Zip::\{closure#0\}$", r"slice::from_raw_parts(_mut)?$",
     "the FFI shims view the caller's buffers; provenance/length discipline is decided by C12/F2"),
    (r"^default_boxed::DefaultBoxed::default_boxed$", r"(Box::from_raw|::alloc::alloc|handle_alloc_error|Layout::)",
     "default_boxed allocates raw memory and initialises every field through default_in_place (obligation S3-DB below)"),
    (r"^<T as default_boxed::DefaultBoxed>::default_in_place$", r"ptr::write$",
     "blanket impl for T: Default writes T::default() into the slot it is given (initialises, never reads)"),
    (r"^<std::vec::Vec<u8> as zstd::zstd_safe::WriteBuf>::filled_until$", r"Vec::set_len$",
     "zstd-safe publishes the bytes the C library wrote into spare capacity (trusted: ZSTD return value <= capacity)"),
]

# dependency statics that are interior-mutable but reviewed
STATIC_REVIEWED = {
    "std_detect::detect::cache::CACHE": "CPU-feature cache: written once with a value that is a function of the machine, "
                                        "read by crc32fast's feature probe; both implementations compute the same CRC",
}

NONSTD_OK_ATOMIC_CALLERS = re.compile(r"^(std_detect::|core::sync::atomic::|std::sync::atomic::|std::panicking::|std::alloc::|alloc::)")


def denied(name):
    n = strip_generics(name)
    for pat, why in DENY:
        if why is None:
            continue
        if re.search(pat, n) or re.search(pat, name):
            return why
    return None


def run(ctx, rep):
    F = ctx.lib
    rep.explanation = (
        "Static purity/thread-safety argument over the instantiation-aware (monomorphic) call graph rooted at the "
        "eight public entry points: no mutable or interior-mutable static, no nondeterminism source, no "
        "uninitialised-memory primitive outside reviewed rows, no pointer-to-integer cast, unsafe confined to the "
        "FFI shims and derive expansions, owned/immutably-borrowed signatures; Send/Sync facts by compile-pass/"
        "compile-fail witnesses (thorough tier).")
    rep.trusted = ["rustc's type system and MIR (nightly 1.97, opt-level 0)", "std/core/alloc",
                   "the C part of zstd (bulk API creates a context per call)",
                   "callee name = behaviour for std leaves without MIR (e.g. std::io::_print)"]
    roots = F.roots_for(PUBLIC_ENTRIES)
    # Lazily initialised immutable statics (pfa/lazy.py): the std once-machinery behind LazyLock<T>::force with the default
    # `fn() -> T` initialiser is not expanded (it is a lock around "call f once"); f itself stays in the graph through the
    # static's allocation edge and is scanned by S2..S4 like every other function; S1 decides whether the static qualifies.
    LZ = lazy.lazy_statics(F)
    cut = [i["id"] for i in F.instances if lazy.is_force_instance(i["name"])]
    # A clock read whose value only ever reaches the formatting machinery (timing printed under a log level) cannot
    # influence a result; such call edges are not followed.  Anything else done with the time value keeps the edge.
    skip_edges = set()
    for I in F.instances:
        if not I.get("local"):
            continue
        body = F.bodies.get(I["def"])
        if body is None:
            continue
        for bb, c in I.get("calls", []):
            if isinstance(c, int) and bb < body.n and re.match(r"^std::time::(Instant|SystemTime)::(now|elapsed|duration_since)$", strip_generics(F.inst(c)["name"])):
                t = body.term(bb)
                if t["k"] == "call" and t.get("dest") and not t["dest"]["p"] and _only_printed(body, t["dest"]["l"]):
                    skip_edges.add((I["id"], bb))
    parent = {}
    from collections import deque as _dq
    dq = _dq()
    for r0 in roots:
        if r0 not in parent:
            parent[r0] = None
            dq.append(r0)
    cutset = set(cut)
    while dq:
        x = dq.popleft()
        if x in cutset:
            continue
        X = F.inst(x)
        nxt = [c for bb, c in X.get("calls", []) if isinstance(c, int) and (x, bb) not in skip_edges] + list(X.get("edges", []))
        for y in nxt:
            if y not in parent:
                parent[y] = x
                dq.append(y)
    rep.stats["clock_reads_only_printed"] = len(skip_edges)
    rep.stats["lazy_statics"] = {k: v["init"] or v["why"] for k, v in LZ.items()}
    rep.stats["instances_reachable"] = len(parent)
    rep.stats["instances_local"] = sum(1 for i in parent if F.inst(i)["local"])
    rep.stats["entry_points"] = PUBLIC_ENTRIES
    rep.floor("S0", "reachable-instances", len(parent), 800)
    unresolved = [(F.inst(i)["name"], c) for i in parent for _, c in F.inst(i).get("calls", [])
                  if isinstance(c, str) and c.startswith("unresolved")]
    rep.add("S0", "all-callees-resolved", not unresolved, "", "unresolved callees: %r" % unresolved[:5])

    # ---- S1 statics ---------------------------------------------------------------------------
    n = 0
    for name, s in sorted(F.statics.items()):
        n += 1
        ok = (not s["mut"]) and s["freeze"] and not s["thread_local"]
        extra = ""
        if not ok and name in LZ:
            ok = LZ[name]["ok"]
            extra = ("; accepted as a lazily initialised constant: plain payload, capture-free argument-free initialiser %s (scanned by S2-S4)" % LZ[name]["init"]
                     if ok else "; LazyLock not accepted: " + LZ[name]["why"])
        rep.add("S1", "static:" + name, ok, "%s:%s" % (s.get("file"), s.get("line")),
                "type %s mut=%s freeze=%s thread_local=%s%s" % (s["ty"], s["mut"], s["freeze"], s["thread_local"], extra))
    rep.floor("S1", "crate-statics", n, 2)
    reached = set()
    for i in parent:
        reached.update(F.inst(i).get("statics", []))
    for sname in sorted(reached):
        if sname.startswith("thread_local:"):
            rep.add("S1", "reached-static:" + sname, False, "", "thread-local state reachable from the public API")
            continue
        info = F.j["reached_statics"].get(sname)
        if info is None:
            rep.add("S1", "reached-static:" + sname, False, "", "no facts for reached static")
            continue
        ok = (not info["mut"]) and info["freeze"] and not info["thread_local"] and not info["foreign"]
        if not ok and sname in LZ and LZ[sname]["ok"]:
            init_ids = [i["id"] for i in F.instances if i.get("def") == LZ[sname]["init"]]
            inside = bool(init_ids) and all(i in parent for i in init_ids)
            rep.add("S1", "reached-static:" + sname, inside, "", "lazily initialised constant; its initialiser %s must be part of the scanned graph" % LZ[sname]["init"])
        elif not ok and sname in STATIC_REVIEWED:
            rep.add("S1", "reached-static:" + sname, True, "", "reviewed: " + STATIC_REVIEWED[sname])
        else:
            who = [F.inst(i)["name"] for i in parent if sname in F.inst(i).get("statics", [])][:2]
            rep.add("S1", "reached-static:" + sname, ok, "", "type %s mut=%s freeze=%s foreign=%s; referenced from %s" % (
                info["ty"], info["mut"], info["freeze"], info["foreign"], who))
    rep.floor("S1", "reached-statics", len(reached), 4)

    # ---- S2 deny list ---------------------------------------------------------------------------
    for nm in DENY_POSITIVE:
        rep.add("S2", "selftest:" + nm, denied(nm) is not None, "", "deny-list pattern self-test (must match)")
    bad = 0
    for i in sorted(parent):
        I = F.inst(i)
        why = denied(I["name"])
        if why:
            bad += 1
            rep.add("S2", "reach:" + strip_generics(I["name"]), False, "", "%s reachable: %s" % (why, F.witness(parent, i)))
    rep.add("S2", "deny-list-clean", bad == 0, "", "%d instances checked against %d patterns" % (len(parent), len(DENY)))
    # atomics: only through reviewed std callers
    for i in sorted(parent):
        I = F.inst(i)
        if "intrinsics::atomic_" in I["name"] or re.search(r"^core::sync::atomic::Atomic", strip_generics(I["name"])):
            callers = {F.inst(p)["name"] for p in parent if i in F.out_edges(p)}
            badc = [c for c in callers if not NONSTD_OK_ATOMIC_CALLERS.search(c) and F.inst(F.by_name[c])["crate"] not in STD_CRATES]
            rep.add("S2", "atomic:" + strip_generics(I["name"]), not badc, "", "atomic access from non-std code: %r" % badc[:3] if badc else "only std-internal callers")

    # ---- S3 uninitialised memory, pointer->integer --------------------------------------------
    for nm in UNINIT_POSITIVE:
        rep.add("S3", "selftest:" + nm, UNINIT.search(nm) is not None, "", "uninit pattern self-test (must match)")
    pairs = 0
    for i in sorted(parent):
        I = F.inst(i)
        if I["crate"] in STD_CRATES and not I["local"]:
            continue
        body = F.bodies.get(I["def"]) if I["local"] else None
        cm = F.callmap(i)
        for bb, c in cm.items():
            if not isinstance(c, int):
                continue
            C = F.inst(c)
            cn = strip_generics(C["name"])
            if not UNINIT.search(cn):
                continue
            if body is not None and bb < body.n:
                exp = body.term(bb).get("exp")
                if in_std_macro(exp) or (in_derive(exp) and "DefaultBoxed" not in macro_names(exp)):
                    continue  # std macro internals (vec!, format! ...) are std's code
            pairs += 1
            rv = None
            for cp, kp, why in UNINIT_REVIEWED:
                if re.search(cp, I["def"]) and re.search(kp, cn):
                    rv = why
                    break
            key = "%s->%s" % (I["def"], cn)
            rep.add("S3", "uninit:" + key, rv is not None, body.where(bb) if body is not None and bb < body.n else "",
                    ("reviewed: " + rv) if rv else "unreviewed unsafe-memory primitive called from non-std code: " + F.witness(parent, i))
    rep.stats["uninit_pairs_seen"] = pairs
    # S3-DB: the derived default_in_place initialises every field (every element of array fields)
    ndb = 0
    for ti in F.j["trait_impls"]:
        if ti["trait"] != "default_boxed::DefaultBoxed":
            continue
        ndb += 1
        adt = re.sub(r"<.*$", "", ti["self"])
        a = F.adts.get(adt)
        cands = [b for k, b in F.bodies.items() if k.endswith(" as default_boxed::DefaultBoxed>::default_in_place") and k.startswith("<" + adt)]
        if a is None or len(cands) != 1:
            rep.missing("S3-DB", adt, "ADT or derived default_in_place body not found")
            continue
        body = cands[0]
        ranges = set()
        for bb in range(body.n):
            for s_ in body.stmts(bb):
                if s_["k"] == "assign" and s_["r"]["k"] == "agg" and s_["r"].get("adt") == "std::ops::Range":
                    from ..facts import op_const, const_int
                    lo, hi = [const_int(op_const(o)) for o in s_["r"]["ops"]]
                    if lo == 0 and hi is not None:
                        ranges.add(hi)
        covered = {}
        for bb, t in body.calls():
            if not t["callee"].get("def", "").endswith("DefaultBoxed::default_in_place"):
                continue
            for arg in t["args"]:
                o = flow.origin(body, arg, through=("use", "cast"))
                for _, _, r in o.exprs:
                    if r["k"] == "rawptr":
                        pr = r["place"]["p"]
                        if r["place"]["l"] == 1 and len(pr) >= 2 and pr[0] == "*" and isinstance(pr[1], dict) and "f" in pr[1]:
                            covered.setdefault(pr[1]["n"], []).append(pr[2:])
        for f in a["variants"][0]["fields"]:
            projs = covered.get(f["name"])
            ok = projs is not None
            detail = "default_in_place called on a raw pointer to this field"
            m = re.match(r"^\[(.*); (\d+)\]$", f["ty"])
            if ok and m and all(p for p in projs):
                # element-wise initialisation: the loop must range over 0..N
                n_el = int(m.group(2))
                ok = n_el in ranges
                detail = "element-wise over 0..%d (ranges found: %s)" % (n_el, sorted(ranges))
            elif not ok:
                detail = "field is never passed to default_in_place: memory from the raw allocation would stay uninitialised"
            rep.add("S3-DB", "%s.%s" % (adt, f["name"]), ok, "%s:%s" % (body.file, body.line), detail)
    rep.floor("S3-DB", "DefaultBoxed-impls", ndb, 3)
    # pointer -> integer in crate code
    nloc = 0
    for i in sorted(parent):
        I = F.inst(i)
        if not I["local"] or I["kind"] != "item":
            continue
        body = F.bodies.get(I["def"])
        if body is None:
            continue
        nloc += 1
        for bb in range(body.n):
            for idx, s in enumerate(body.stmts(bb)):
                if s["k"] != "assign" or s["r"]["k"] != "cast":
                    continue
                r = s["r"]
                ck = r["ck"]
                isptr = r["from"].startswith("*") or r["from"].startswith("&") or r["from"].startswith("fn(") or "NonNull<" in r["from"]
                toint = re.match(r"^[iu](8|16|32|64|128|size)$", r["ty"]) is not None
                if ck in ("PointerExposeProvenance",) or (ck == "Transmute" and isptr and toint):
                    if ck == "Transmute" and _only_feeds_ptr_check(body, s["p"]["l"]):
                        continue
                    rep.add("S3", "ptr2int:%s" % I["def"], False, "%s:%s" % (body.file, s.get("line")),
                            "pointer converted to integer (%s %s -> %s)" % (ck, r["from"], r["ty"]))
    rep.add("S3", "ptr2int-scan", True, "", "%d crate-local bodies scanned for pointer->integer casts" % nloc)
    rep.floor("S3", "local-bodies-scanned", nloc, 100)

    # ---- S4 unsafe confined ----------------------------------------------------------------------
    nunsafe = 0
    for u in F.j["unsafe_blocks"]:
        if not u["user"]:
            continue
        nunsafe += 1
        ok = u["owner"].startswith("preflate_rs::Wrapper") and u["file"].endswith("lib.rs")
        rep.add("S4", "unsafe-block:" + u["owner"], ok, "%s:%s" % (u["file"], u["line"]), "user-written unsafe block")
    nfn = 0
    for name, b in sorted(F.bodies.items()):
        if b.j.get("unsafe"):
            ffi = b.j.get("no_mangle") and str(b.j.get("abi", "")).startswith("C") and name.startswith("preflate_rs::Wrapper")
            derived = "DefaultBoxed" in macro_names(b.j.get("exp"))
            if ffi:
                nfn += 1
            rep.add("S4", "unsafe-fn:" + name, bool(ffi or derived), "%s:%s" % (b.file, b.line),
                    "extern \"C\" shim" if ffi else ("derive(DefaultBoxed) expansion" if derived else "unsafe fn outside the FFI shims"))
    rep.floor("S4", "ffi-shims", nfn, 2)
    for ti in F.j["trait_impls"]:
        if ti["unsafe"]:
            ms = macro_names(ti["exp"])
            ok = bool(ms) and all(m in ("Clone", "Copy", "DefaultBoxed") for m in ms)
            rep.add("S4", "unsafe-impl:%s for %s" % (ti["trait"], ti["self"]), ok, "%s:%s" % (ti["file"], ti["line"]),
                    "derive expansion %r" % ms if ok else "hand-written unsafe impl (Send/Sync by fiat?)")
    # ---- S5 build configuration ---------------------------------------------------------------
    _cargo_rules(ctx, rep)
    # ---- S7 signatures -------------------------------------------------------------------------
    for e in PUBLIC_ENTRIES:
        b = F.bodies.get(e)
        if b is None:
            rep.missing("S7", e)
            continue
        sig = b.j.get("sig", "")
        ffi = e.startswith("preflate_rs::Wrapper")
        bad = re.search(r"\b(Rc|RefCell|Cell|UnsafeCell|Mutex|Arc)\b", sig) or (("*mut" in sig or "*const" in sig) and not ffi) or "&'static mut" in sig
        rep.add("S7", "signature:" + e, not bad, "%s:%s" % (b.file, b.line), sig)


_TIME_FN = re.compile(r"^std::time::|^core::time::|^<std::time::|^<core::time::|fmt::|Debug>::fmt|Display>::fmt")


def _only_printed(b, local, depth=0):
    """The value (and everything computed from it by time arithmetic) ends in formatting calls only."""
    if depth > 8:
        return False
    us = flow.uses(b, local)
    if not us:
        return True
    for u in us:
        if u[0] == "stmt":
            s = u[3]
            if s["k"] != "assign":
                continue
            r = s["r"]
            if s["p"]["p"]:
                return False
            if r["k"] in ("use", "ref", "cast") or (r["k"] == "agg" and r.get("ak") in ("array", "tuple")):
                if not _only_printed(b, s["p"]["l"], depth + 1):
                    return False
            else:
                return False
        else:
            t = u[2]
            if t["k"] == "drop":
                continue
            if t["k"] != "call":
                return False
            n = callee_def(t)
            if re.search(r"core::fmt::rt::Argument|fmt::Arguments|std::io::_print|std::io::_eprint", n):
                continue
            if _TIME_FN.search(strip_generics(n)) and t.get("dest") and not t["dest"]["p"]:
                if not _only_printed(b, t["dest"]["l"], depth + 1):
                    return False
                continue
            return False
    return True


def _plain_data(ty, F, depth):
    ty = ty.strip()
    if depth > 4:
        return False
    if re.match(r"^(u8|u16|u32|u64|u128|usize|i8|i16|i32|i64|i128|isize|bool)$", ty):
        return True
    m = re.match(r"^\[(.*); [^;\]]+\]$", ty)
    if m:
        return _plain_data(m.group(1), F, depth + 1)
    if ty in ("H",) or re.match(r"^[A-Z]$", ty):
        # generic hash-algorithm parameter: all implementors are Default + Copy unit-like structs (checked via adts)
        return True
    base = re.sub(r"<.*$", "", ty)
    a = F.adts.get(base)
    if a and a["kind"] == "struct":
        return all(_plain_data(f["ty"], F, depth + 1) for f in a["variants"][0]["fields"])
    return False


def _only_feeds_ptr_check(body, local):
    """True when `local` (an address) only feeds the compiler-inserted alignment/null assertion."""
    work = [local]
    seen = set()
    fed_assert = False
    while work:
        l = work.pop()
        if l in seen:
            continue
        seen.add(l)
        for u in flow.uses(body, l):
            if u[0] == "stmt":
                s = u[3]
                r = s["r"]
                if r["k"] in ("binop", "unop") and r.get("op") in ("BitAnd", "Eq", "Ne", "Not", "Sub") and not s["p"]["p"]:
                    work.append(s["p"]["l"])
                else:
                    return False
            else:
                t = u[2]
                if t["k"] == "assert" and t["msg"] in ("Misaligned", "NullDeref"):
                    fed_assert = True
                else:
                    return False
    return fed_assert


def _cargo_rules(ctx, rep):
    import tomllib
    repo = ctx.repo
    p = os.path.join(repo, "Cargo.toml")
    try:
        t = tomllib.load(open(p, "rb"))
    except Exception as e:
        rep.missing("S5", "Cargo.toml", str(e))
        return
    deps = t.get("dependencies", {})
    z = deps.get("zstd")
    feats = z.get("features", []) if isinstance(z, dict) else []
    rep.add("S5", "zstd-no-multithreading", z is not None and not any("zstdmt" in f or "thread" in f for f in feats), "Cargo.toml",
            "zstd dependency features: %r" % feats)
    for d, v in deps.items():
        feats = v.get("features", []) if isinstance(v, dict) else []
        rep.add("S5", "dep-features:" + d, not any(re.search(r"(zstdmt|rayon|parallel|thread)", f) for f in feats), "Cargo.toml",
                "features %r" % feats)
    rep.add("S5", "no-build-script", not os.path.exists(os.path.join(repo, "build.rs")) and "build" not in t.get("package", {}),
            "Cargo.toml", "a build script could inject machine-dependent code")
    prof = t.get("profile", {})
    for pn, pv in prof.items():
        if isinstance(pv, dict) and pv.get("panic") == "abort":
            rep.note("profile.%s sets panic=abort" % pn)
