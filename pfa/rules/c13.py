"""C13 — reconstruction tolerates fragmented I/O and fails cleanly on I/O errors.

Scope: the generic functions that receive the caller's source/destination, i.e. everything reachable
from recreated_zlib_chunks::<S,D> in the body-level call graph that has a type parameter
(recreated_zlib_chunks, read_chunk_block, read_varint, IdatContents::read_from_bytestream, recreate_idat).
R1 the only bare Read::read is the 1-byte EOF probe compared with 0; R2 every other source read is
read_exact/read_u8, every destination write is write_all; R3 no Result on this path is unwrapped,
discarded or defaulted; R4 inside one chunk every destination write lies behind the success edge of
the reconstruction of that chunk (a chunk is written only after it was fully reconstructed).
Not decided: that the bytes written before an error are a *correct* prefix (value-level, C01/C02).
"""
import re
from .. import flow, err
from ..facts import op_place, op_const, const_int, callee_def
from ..common import strip_generics, PC

IO_TRAITS = {"std::io::Read", "std::io::Write", "std::io::Seek", "std::io::BufRead",
             "byteorder::ReadBytesExt", "byteorder::WriteBytesExt"}
READ_OK = re.compile(r"^(read_exact|read_u8|read_i8|read_u16|read_u24|read_u32|read_u64|read_i16|read_i32|read_i64|read_to_end|by_ref)$")
WRITE_OK = re.compile(r"^(write_all|write_u8|write_u16|write_u32|write_u64|write_fmt|flush|by_ref)$")
COUNTED = re.compile(r"^(read|write|read_vectored|write_vectored|read_buf)$")


BUFFERED = re.compile(r"^std::io::(BufWriter|LineWriter)<")


def generic_scope(F, root):
    """Generic local bodies reachable from `root` through body-level callee definitions."""
    seen, order = set(), []
    work = [root]
    while work:
        n = work.pop()
        if n in seen or n not in F.bodies:
            continue
        seen.add(n)
        b = F.bodies[n]
        order.append(n)
        for bb, t in b.calls():
            c = t["callee"]
            d = c.get("resolved") if c.get("rlocal") else (c.get("def") if c.get("local") else None)
            if d and d in F.bodies and F.bodies[d].j.get("generic"):
                work.append(d)
    return [n for n in order if F.bodies[n].j.get("generic")]


def run(ctx, rep):
    F = ctx.lib
    rep.explanation = ("Who-may-call and error-discipline rules over the generic functions that hold the caller's Read/Write "
                       "objects during reconstruction: short reads/partial writes cannot be mistaken for completion because the only "
                       "count-returning call is the one-byte EOF probe (any other count-returning read must bound every later use of its buffer by the count); no I/O error can become a panic or be dropped; a chunk's bytes "
                       "reach the destination only after that chunk was completely reconstructed.")
    rep.trusted = ["std::io::Read::read_exact / Write::write_all retry short transfers and surface errors (std contract)",
                   "byteorder::ReadBytesExt::read_u8 is read_exact on one byte"]
    root = PC + "recreated_zlib_chunks"
    scope = generic_scope(F, root)
    rep.stats["scope"] = scope
    rep.floor("R0", "generic-io-functions", len(scope), 5)
    # mono cross-check: every local instance that mentions the concrete S/D types is an instance of a scoped definition
    for inst in F.instances_of(root):
        m = re.search(r"recreated_zlib_chunks::<(.*)>$", inst["name"])
        par = F.reach([inst["id"]])
        for i in par:
            I = F.inst(i)
            if I["local"] and I["kind"] == "item" and "impl " not in I["name"]:
                if F.bodies.get(I["def"]) is not None and F.bodies[I["def"]].j.get("generic") and I["def"] not in scope:
                    # generic local function reachable in the mono graph but not in the generic scope: does it take S/D?
                    sig = F.bodies[I["def"]].j.get("sig", "")
                    if re.search(r"impl (std::io::)?(Read|Write)|: (std::io::)?(Read|Write)", sig):
                        rep.add("R0", "scope-complete:" + I["def"], False, "", "generic I/O function reachable but not analysed")
    rep.add("R0", "scope-cross-check", True, "", "mono instances of %d instantiation(s) cross-checked against the generic scope" % len(F.instances_of(root)))

    n_read = n_write = n_probe = 0
    for name in scope:
        b = F.bodies[name]
        short = name.split("::")[-1]
        for bb, t in b.calls():
            c = t["callee"]
            tr = c.get("trait")
            if tr not in IO_TRAITS:
                continue
            m = c["def"].split("::")[-1]
            key = "%s:%s@%s" % (short, m, _nth(b, bb, m))
            if COUNTED.match(m):
                ok, why = _count_used(b, t)
                if ok is True and m.startswith("read"):
                    ok2, why2 = _buffer_bounded_by_count(b, bb, t)
                    rep.add("R1", "buffer-use-bounded-by-count:" + key, ok2, b.where(bb), why2)
                if m == "read" and ok == "probe":
                    n_probe += 1
                    rep.add("R1", "eof-probe:" + key, True, b.where(bb), why)
                else:
                    rep.add("R1", "counted-io:" + key, ok is True, b.where(bb), why)
            elif tr in ("std::io::Read", "byteorder::ReadBytesExt", "std::io::BufRead"):
                n_read += 1
                rep.add("R2", "source-read:" + key, bool(READ_OK.match(m)), b.where(bb), "%s::%s" % (tr, m))
            elif tr in ("std::io::Write", "byteorder::WriteBytesExt"):
                n_write += 1
                rep.add("R2", "destination-write:" + key, bool(WRITE_OK.match(m)), b.where(bb), "%s::%s" % (tr, m))
            else:
                rep.add("R2", "seek:" + key, False, b.where(bb), "seeking on the caller's stream is outside the reviewed idioms")
        # R3
        for bb, t in err.result_calls(b):
            cl = err.classify(b, t["dest"]["l"])
            ok = all(k == err.PROPAGATE for k, _, _ in cl)
            cn = strip_generics(callee_def(t))
            rep.add("R3", "result:%s:%s@%s" % (short, cn.split("::")[-1], _nth(b, bb, cn.split("::")[-1])), ok, b.where(bb),
                    "%s: %s" % (cn, "; ".join("%s(%s)" % (k, d) for k, d, _ in cl)))
        # explicit failure constructs on this path
        for bb, t in b.calls():
            cn = strip_generics(callee_def(t))
            if re.search(r"(Result|Option)::(unwrap|expect)$|panicking::(panic|panic_fmt|assert_failed)|panic::panic_", cn):
                rep.add("R3", "panic-site:%s:%s@%s" % (short, cn.split("::")[-1], _nth(b, bb, cn.split("::")[-1])), False, b.where(bb),
                        "explicit failure construct %s in a function that holds the caller's I/O objects" % cn)
    r5(F, rep, "R5", scope)
    r6(F, rep, "R6", root)
    # R3 (non-generic part): every explicit failure construct mono-reachable from the reconstruction entry — the error
    # conversions that `?` calls included — is a row of the reviewed table (same table as C01/A6)
    from . import site
    site.check_sites(F, rep, "R3", [root], 10)
    from . import lin as _lin
    _lin.x9(ctx, rep, "R7", [root])
    rep.floor("R1", "eof-probe", n_probe, 1)
    rep.floor("R2", "source-reads", n_read, 2)
    rep.floor("R2", "destination-writes", n_write, 2)
    # ---- R4 ordering ----------------------------------------------------------------------------
    b = F.body(PC + "read_chunk_block")
    rc = [(bb, t) for bb, t in b.calls() if strip_generics(callee_def(t)) == PC + "recompress_deflate_stream"]
    rep.floor("R4", "recompress-call", len(rc), 1)
    for rbb, rt in rc:
        ti = err.try_info(b, rt["dest"]["l"])
        reach = b.reachable_from(rbb)
        nW = 0
        for bb, t in b.calls():
            if bb == rbb:
                continue
            before = rbb in b.reachable_from(bb)
            if bb not in reach and not before:
                continue
            # a call that receives the destination (argument 2 of read_chunk_block)
            takes_dest = False
            for a in t["args"]:
                o = flow.origin(b, a)
                if 2 in o.args:
                    takes_dest = True
            if not takes_dest:
                continue
            nW += 1
            ok = (not before) and ti is not None and any(b.edge_dominates(a, s, bb) for a, s in ti["continue_edges"])
            rep.add("R4", "write-after-reconstruction:%s" % strip_generics(callee_def(t)).split("::")[-1], ok, b.where(bb),
                    "destination is touched only behind the success edge of recompress_deflate_stream(..)?")
        rep.floor("R4", "writes-after-recompress", nW, 2)


def r5(F, rep, rule, scope):
    # ---- R5 buffering adaptors ------------------------------------------------------------------
    # A BufWriter/LineWriter around the destination defers writes; its Drop flushes and *discards* the error. So a local
    # of such a type in a function that holds the destination must be flushed explicitly (flush()/into_inner()), the result
    # propagated, and that success must dominate every place where the function produces its non-error result.
    n_buf = 0
    for name in scope:
        b = F.bodies[name]
        short = name.split("::")[-1]
        for l in range(1, len(b.locals)):
            ty = b.local_ty(l)
            if not BUFFERED.match(ty):
                continue
            n_buf += 1
            flushes = []
            for bb, t in b.calls():
                cn = strip_generics(callee_def(t))
                if not re.search(r"(Write::flush|BufWriter::into_inner|LineWriter::into_inner|BufWriter::into_parts)$", cn) or not t["args"]:
                    continue
                rs = set()
                _roots_of(b, t["args"][0], rs, set())
                if l in rs:
                    flushes.append((bb, t))
            good_edges = []
            for bb, t in flushes:
                cl = err.classify(b, t["dest"]["l"])
                ti = err.try_info(b, t["dest"]["l"])
                if cl and all(k == err.PROPAGATE for k, _, _ in cl) and ti is not None:
                    good_edges.extend(ti["continue_edges"])
            # places where the function's result is produced other than by propagating an error
            bad = []
            born = set()
            for dbb, _, _, _ in b.defs(l):
                born |= b.reachable_from(dbb)
            for bb in sorted(b.normal_blocks()):
                if bb not in born:
                    continue          # results produced before the adaptor exists are not its concern
                prod = []
                for s in b.stmts(bb):
                    if s.get("k") == "assign" and s["p"]["l"] == 0 and not s["p"]["p"]:
                        r = s["r"]
                        if r.get("k") == "agg" and r.get("adt") == "std::result::Result" and r.get("vname") == "Err":
                            continue
                        prod.append(s)
                t = b.term(bb)
                if t["k"] == "call" and t.get("dest") and t["dest"]["l"] == 0 and not t["dest"]["p"]:
                    cn = strip_generics(callee_def(t))
                    if not cn.endswith("FromResidual::from_residual") and not re.search(r"err_exit_code$|Err$", cn):
                        prod.append(t)
                if prod and not any(b.edge_dominates(a, s2, bb) for a, s2 in good_edges):
                    bad.append(b.where(bb))
            rep.add(rule, "buffered-destination-flushed:%s:%s" % (short, ty.split("<")[0].split("::")[-1]), not bad, b.where(0),
                    "local _%d: %s — %d propagated flush(es); result produced without a dominating successful flush at %s" % (l, ty, len(good_edges), bad[:3])
                    if bad else "local _%d: %s is flushed with `?` before every non-error result" % (l, ty))
    rep.stats["buffering_adaptors_in_scope"] = n_buf


def r6(F, rep, rule, root):
    """Crate-local Read/Write adapters between the caller's objects and the chunk logic.  An adapter's `write`/`read` may
    forward to the inner object with a count-returning call (it has to), but then the count is the only truth about what
    was transferred: any other use of the same buffer as data (hashing it, copying it, counting its length) must be limited
    to `[..count]`.  Hashing the buffer that was *offered* goes wrong as soon as the destination accepts less."""
    n = 0
    seen = set()
    for inst in F.instances_of(root):
        for i in F.reach([inst["id"]]):
            I = F.inst(i)
            if not I.get("local"):
                continue
            m = re.match(r"^<(.*) as std::io::(Write|Read)>::(write|read)$", strip_generics(I["def"]) if I.get("def") else "")
            if not m or I["def"] in seen:
                continue
            seen.add(I["def"])
            b = F.bodies.get(I["def"])
            if b is None:
                continue
            n += 1
            short = I["def"].replace("preflate_rs::", "")
            bad = []
            for bb, t in b.calls():
                c = t["callee"]
                if c.get("trait") not in ("std::io::Write", "std::io::Read") or not COUNTED.match(c["def"].split("::")[-1]) or len(t["args"]) < 2:
                    continue
                buf_roots = set()
                _roots_of(b, t["args"][1], buf_roots, set())
                for ob, ot in b.calls():
                    if ob == bb:
                        continue
                    for a in ot["args"]:
                        rs = set()
                        _roots_of(b, a, rs, set())
                        if rs & buf_roots:
                            ok2 = False
                            if bb in b.reachable_from(ob) and ob != bb and not (ob in b.reachable_from(bb)):
                                ok2 = False          # used before the transfer: cannot be limited by its count
                            else:
                                ok2, _why = _buffer_bounded_by_count(b, bb, t)
                            if not ok2:
                                bad.append("%s gets the whole buffer (%s)" % (strip_generics(callee_def(ot)).split("::")[-1], b.where(ob)))
            rep.add(rule, "adapter-buffer-uses-limited-by-count:%s" % short, not bad, "%s:%s" % (b.file, b.line),
                    "; ".join(sorted(set(bad))[:3]) if bad else "forwards to the inner object and touches the buffer nowhere else")
    rep.add(rule, "io-adapters-examined", True, "", "%d crate-local Read/Write adapter method(s) reachable from %s" % (n, root.split("::")[-1]))


def _nth(b, bb, m):
    """Stable ordinal of this call among calls of the same method in the body (keys carry no line numbers)."""
    n = 0
    for bb2, t in b.calls():
        if strip_generics(callee_def(t)).split("::")[-1] == m:
            if bb2 == bb:
                return n
            n += 1
    return n


def _count_used(b, t):
    """For a count-returning read/write: is it the 1-byte EOF probe, or is the count used?"""
    buf = t["args"][1] if len(t["args"]) > 1 else None
    buf_ty = None
    if buf is not None:
        o = flow.origin(b, buf)
        for _, _, r in o.exprs:
            pass
        # origin through Unsize cast and &mut: look at root local type
        roots = set()
        _roots_ty(b, buf, roots, set())
        buf_ty = roots
    ti = err.try_info(b, t["dest"]["l"])
    if ti is None:
        cl = err.classify(b, t["dest"]["l"])
        return False, "count-returning I/O call whose result is not propagated: %r" % cl
    payload = ti["payload"]
    cmp0, other = 0, []
    for l in payload:
        for u in flow.uses(b, l):
            if u[0] == "stmt":
                s = u[3]
                r = s["r"]
                if r["k"] == "binop" and r["op"] in ("Eq", "Ne") and 0 in (flow.const_eval(b, r["l"]), flow.const_eval(b, r["r"])):
                    cmp0 += 1
                elif r["k"] == "use" and s["p"]["l"] in payload:
                    continue
                else:
                    other.append(r["k"] + ":" + str(r.get("op", "")))
            else:
                other.append(u[2]["k"])
    if buf_ty == {"[u8; 1]"} and cmp0 >= 1 and not other:
        return "probe", "bare read into a [u8; 1] buffer, count only compared with 0 (EOF test)"
    if other:
        return True, "count is used (%s)" % ", ".join(sorted(set(other))[:4])
    return False, "count-returning call on a buffer of type %s whose count is %s" % (sorted(buf_ty or []), "only compared with 0" if cmp0 else "ignored")


def _roots_ty(b, op, out, seen):
    p = op_place(op) if ("c" in op or "m" in op) else (op if "l" in op else None)
    if p is None:
        return
    l = p["l"]
    if l in seen:
        return
    seen.add(l)
    prog = False
    for bb, idx, kind, payload in b.defs(l):
        if kind == "assign" and payload["k"] in ("use", "cast") and op_place(payload["op"]) is not None:
            _roots_ty(b, payload["op"], out, seen)
            prog = True
        elif kind == "assign" and payload["k"] in ("ref", "rawptr"):
            _roots_ty(b, payload["place"], out, seen)
            prog = True
    if not prog:
        out.add(b.local_ty(l))


def _buffer_bounded_by_count(b, rbb, t):
    """After `n = read(&mut B[..])`, every later slice of B handed on as data is bounded by n."""
    ti = err.try_info(b, t["dest"]["l"])
    if ti is None:
        return False, "count not propagated"
    payload = ti["payload"]
    roots = set()
    _roots_of(b, t["args"][1], roots, set())
    if not roots:
        return False, "cannot identify the buffer"
    bad, n = [], 0
    reach = b.reachable_from(rbb)
    for bb2, t2 in b.calls():
        if bb2 not in reach or bb2 == rbb:
            continue
        nm = strip_generics(callee_def(t2))
        if not re.search(r"(Index::index|IndexMut::index_mut|index|index_mut)$", nm):
            continue
        r2 = set()
        _roots_of(b, t2["args"][0], r2, set())
        if not (r2 & roots):
            continue
        # is the slice consumed as data (passed to something other than another read into it)?
        al, sk = flow.track(b, {t2["dest"]["l"]})
        consumers = [strip_generics(callee_def(x[3])) for x in sk if x[0] == "call"]
        if all(re.search(r"Read::read(_exact)?$", c) for c in consumers) and consumers:
            continue
        n += 1
        # range end must derive from the count
        o = flow.origin(b, t2["args"][1], through=("use",))
        ends = []
        for _, _, rv in o.exprs:
            if rv["k"] == "agg" and rv.get("adt", "").startswith("std::ops::Range"):
                ends.append(rv["ops"][-1])
        ok = bool(ends)
        for e in ends:
            if not _le_count(b, e, payload, set()):
                ok = False
        if not ok:
            bad.append("%s slices the buffer with an end that does not come from the returned count (%s)" % (b.where(bb2), [flow.describe(b, e, names=True) for e in ends]))
    if bad:
        return False, "; ".join(bad[:2])
    return True, "%d later slice(s) of the buffer are bounded by the returned count" % n


def _roots_of(b, op, out, seen):
    p = op_place(op) if ("c" in op or "m" in op) else (op if "l" in op else None)
    if p is None:
        return
    l = p["l"]
    if l in seen:
        return
    seen.add(l)
    prog = False
    for bb, idx, kind, payload in b.defs(l):
        if kind == "assign" and payload["k"] in ("use", "cast") and op_place(payload["op"]) is not None:
            _roots_of(b, payload["op"], out, seen)
            prog = True
        elif kind == "assign" and payload["k"] in ("ref", "rawptr"):
            _roots_of(b, payload["place"], out, seen)
            prog = True
        elif kind == "call" and re.search(r"(Index::index|IndexMut::index_mut|index|index_mut|deref|deref_mut)$", strip_generics(callee_def(payload))):
            _roots_of(b, payload["args"][0], out, seen)
            prog = True
    if not prog:
        out.add(l)


def _deps(b, op, out, seen, depth=0):
    """All locals an operand's value is computed from (through copies, casts, arithmetic, min/max)."""
    p = op_place(op) if ("c" in op or "m" in op) else (op if isinstance(op, dict) and "l" in op else None)
    if p is None or depth > 12:
        return
    l = p["l"]
    if l in seen:
        return
    seen.add(l)
    out.add(l)
    for bb, idx, kind, payload in b.defs(l):
        if kind == "assign":
            for pl in flow.places_in(payload):
                _deps(b, pl, out, seen, depth + 1)
        elif kind == "call" and re.search(r"(cmp::min|Ord::min|From::from|Into::into)$", strip_generics(callee_def(payload))):
            for a in payload["args"]:
                _deps(b, a, out, seen, depth + 1)


def _le_count(b, op, payload, seen, depth=0):
    """The operand is the returned count, a copy/cast of it, or min(.., count)."""
    p = op_place(op) if ("c" in op or "m" in op) else (op if isinstance(op, dict) and "l" in op else None)
    if p is None or depth > 10 or p["p"] and not all(isinstance(e, dict) and e.get("f") == 0 for e in p["p"]):
        return False
    l = p["l"]
    if l in payload:
        return True
    if l in seen:
        return False
    seen.add(l)
    ds = b.defs(l)
    if not ds:
        return False
    for bb, idx, kind, payload_ in ds:
        if kind == "assign" and payload_["k"] in ("use", "cast"):
            if not _le_count(b, payload_["op"], payload, seen, depth + 1):
                return False
        elif kind == "call" and re.search(r"(cmp::min|Ord::min)$", strip_generics(callee_def(payload_))):
            if not any(_le_count(b, a, payload, set(seen), depth + 1) for a in payload_["args"]):
                return False
        elif kind == "call" and re.search(r"(From::from|Into::into)$", strip_generics(callee_def(payload_))):
            if not _le_count(b, payload_["args"][0], payload, seen, depth + 1):
                return False
        else:
            return False
    return True
