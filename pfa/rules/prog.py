"""C05/X7 — every loop on the analysis path has a recognised progress argument.

"Returns in bounded time" quantifies over run-time values and is not decided as such.  What is visible in the shape of the
code is *why* each loop ends, and that is checked for every natural loop of every function mono-reachable from
decompress_deflate_stream:

  iter     the loop is driven by a standard-library iterator over a finite source (Range, slice::Iter, array::IntoIter and
           their adaptors): the exit is the iterator's None
  reader   every cycle of the loop passes through a call that consumes input (bit reader, correction decoder) and whose
           failure leaves the loop: a finite input ends it
  counter  every cycle passes through a step `v = v +/- K`, `v <<= K`, `v >>= K` (K > 0) of one variable, and an exit of the
           loop tests that variable in the direction the step moves it
  reviewed a row of REVIEWED naming the measure (heap size, chain links ...) — value-level arguments this family cannot make

A loop that fits none of these is reported: a new loop without a visible measure, or an existing one whose step was moved
into a branch (`continue` before the increment) — the usual way a parser starts to hang on one rare input.  Keys carry the
function and the ordinal of the loop among the function's loops of the same class, no lines."""
import re
from .. import flow, lin
from ..facts import op_place, op_const, const_int, callee_def
from ..common import strip_generics

P = "preflate_rs::"

STD_ITER = re.compile(r"^(std|core)::(iter|slice|array|ops|vec|str|collections)::|^<(std|core|alloc)::(iter|slice|array|ops|vec|str|collections)::[^>]* as (std|core)::iter::(Iterator|DoubleEndedIterator)>::next|^(std|core)::iter::range::")
CONSUME = re.compile(r"(bit_reader::BitReader(::<[^>]*>)?::(get|read_byte)|deflate_reader::DeflateReader(::<[^>]*>)?::(read_bit|read_bits|read_block)|huffman_helper::decode_symbol|"
                     r"HuffmanReader::(fetch_next_literal_code|fetch_next_distance_char)|ReadBytesExt::read_u8|Read::read_exact)")

# (function, class-ordinal key) -> the measure that ends the loop; value-level, reviewed by reading the code
REVIEWED = {
    # (function, class): (number of such loops reviewed, the measure that ends them)
    ("<hash_chain_holder::HashChainHolderImpl<H> as hash_chain_holder::HashChainHolder>::calculate_hops", "chain"):
        (1, "chain walk: links point strictly backwards (u16 positions re-based by reshift), bounded by the window"),
    ("<hash_chain_holder::HashChainHolderImpl<H> as hash_chain_holder::HashChainHolder>::hop_match", "chain"):
        (1, "chain walk: links point strictly backwards, bounded by the window"),
    ("hash_chain_holder::HashChainHolderImpl::<H>::match_token_offset", "chain"):
        (1, "chain walk with max_chain countdown"),
    ("bit_reader::BitReader::<R>::get", "other"):
        (1, "each round adds min(bits still wanted, bits buffered) > 0 bits: the buffer is refilled (or the read fails) when it is empty"),
    ("bit_writer::BitWriter::flush_whole_bytes", "other"):
        (1, "emits one byte per round while >= 8 bits are buffered"),
    ("bit_writer::BitWriter::pad", "other"):
        (1, "decided exactly by C07/W6 (8 rounds at most)"),
    ("huffman_calc::calc_minzoxide::calculate_minimum_redundancy", "other"):
        (1, "transcription of miniz' in-place minimum-redundancy pass: `next` / `avbl` / `used` move monotonically over the n symbols"),
    ("huffman_calc::calc_zlib::calc_bit_lengths", "other"):
        (3, "zlib build_tree / gen_bitlen: the heap shrinks by one per round; the overflow repair walks bit lengths downwards"),
    ("huffman_calc::calc_zlib::pqdownheap", "other"):
        (1, "zlib pqdownheap: j doubles until it passes the heap length"),
    ("process::recreate_blocks", "other"):
        (1, "replays the block list the analysis recorded: ends when the plaintext is used up and the recorded end-of-stream flag says so (own corrections only; foreign corrections are not claimed)"),
    ("token_predictor::TokenPredictor::<'a>::recreate_block", "other"):
        (1, "current_token_count (stepped in commit_token) runs up to the block size, or the plaintext ends"),
    ("tree_predictor::reconstruct_ld_trees", "other"):
        (1, "the remaining-symbols slice shrinks by at least one entry per round"),
    ("huffman_helper::decode_symbol", "other"):
        (1, "one bit per step down a validated, complete tree (C05/X2 tree rules): depth <= 15"),
}


_SOURCES = re.compile(r"^(std|core|alloc)::(slice::(Iter|IterMut|Chunks|ChunksExact|Windows|RChunks)|ops::(Range|RangeInclusive)|array::IntoIter|vec::(IntoIter|Drain)|str::(Chars|Bytes|CharIndices)|"
                      r"collections::\w+::(Iter|IterMut|IntoIter|Keys|Values)|option::(Iter|IntoIter)|iter::(Once|Empty))$")
_ADAPTORS = re.compile(r"^(std|core)::iter::(Enumerate|Rev|Take|Skip|StepBy|Copied|Cloned|Zip|Chain|Peekable|Map|Filter|FilterMap|TakeWhile|SkipWhile|Inspect|Fuse)$")


def _split_generic(ty):
    """'a::B<X, Y<Z>>' -> ('a::B', ['X', 'Y<Z>'])"""
    i = ty.find("<")
    if i < 0 or not ty.endswith(">"):
        return ty, []
    head, inner = ty[:i], ty[i + 1:-1]
    args, depth, cur = [], 0, ""
    for ch in inner:
        if ch in "<([":
            depth += 1
        elif ch in ">)]":
            depth -= 1
        if ch == "," and depth == 0:
            args.append(cur.strip()); cur = ""
        else:
            cur += ch
    if cur.strip():
        args.append(cur.strip())
    return head, args


def _finite_iter(ty, depth=0):
    """The iterator type is a standard finite source, or standard adaptors (which never lengthen) over such sources."""
    head, args = _split_generic(ty)
    if _SOURCES.match(head):
        return True
    if _ADAPTORS.match(head) and args and depth < 6:
        n = 2 if head.endswith(("Zip", "Chain")) else 1
        if head.endswith("Zip"):
            return any(_finite_iter(a, depth + 1) for a in args[:2])      # zip ends with the shorter side
        return all(_finite_iter(a, depth + 1) for a in args[:n])
    return False


def _cycle_without(b, blocks, head, removed):
    """Is there a cycle through `head` inside `blocks` that avoids all of `removed`?"""
    if head in removed:
        return False
    seen, work = set(), [s for s in b.succ(head) if s in blocks and s not in removed]
    while work:
        x = work.pop()
        if x == head:
            return True
        if x in seen:
            continue
        seen.add(x)
        work.extend(s for s in b.succ(x) if s in blocks and s not in removed)
    return False


def _steps(b, blocks):
    """{variable local: [(block, direction)]} for self-updates v = v op K inside the loop (through the checked-op temp)."""
    out = {}
    for bb in blocks:
        for s in b.stmts(bb):
            if s.get("k") != "assign" or s["r"].get("k") != "binop" or s["p"]["p"]:
                continue
            r = s["r"]
            op = r["op"].replace("WithOverflow", "").replace("Unchecked", "")
            if op not in ("Add", "Sub", "Shl", "Shr", "Mul", "Div"):
                continue
            k = flow.const_eval(b, r["r"])
            xp = op_place(r["l"])
            if k is None and op in ("Add", "Mul"):
                k = flow.const_eval(b, r["l"])
                xp = op_place(r["r"])
            if k is None or xp is None or xp["p"]:
                continue
            if (op in ("Add", "Sub", "Shl", "Shr") and k <= 0) or (op in ("Mul", "Div") and k <= 1):
                continue
            t, x = s["p"]["l"], xp["l"]
            # stored back into x: directly, or `x = move t.0` somewhere in the loop
            back = t == x
            if not back:
                for b2 in blocks:
                    for s2 in b.stmts(b2):
                        if s2.get("k") == "assign" and s2["r"].get("k") == "use" and not s2["p"]["p"] and s2["p"]["l"] == x:
                            p = op_place(s2["r"]["op"])
                            if p is not None and p["l"] == t:
                                back = True
            if back:
                out.setdefault(x, []).append((bb, "up" if op in ("Add", "Shl", "Mul") else "down"))
    return out


def _exit_tests(b, blocks):
    """[(variable locals compared, op, which side)] for two-way switches with one successor outside the loop."""
    res = []
    for bb in blocks:
        t = b.term(bb)
        if t["k"] != "switch":
            continue
        succ = [x for _, x in t["targets"]] + [t["otherwise"]]
        if all(x in blocks for x in succ):
            continue
        dp = op_place(t["d"])
        d = b.single_def(dp["l"]) if dp is not None and not dp["p"] else None
        if d and d[2] == "assign" and d[3]["k"] == "binop" and d[3]["op"] in ("Lt", "Le", "Gt", "Ge", "Ne", "Eq"):
            l, r = op_place(d[3]["l"]), op_place(d[3]["r"])
            res.append((d[3]["op"], _root(b, l), _root(b, r)))
    return res


def _root(b, p, depth=0):
    """Follow copies back to a user variable / loop-carried local."""
    if p is None or p["p"] or depth > 6:
        return None
    l = p["l"]
    d = b.single_def(l)
    if d and d[2] == "assign" and d[3]["k"] in ("use", "cast"):
        q = op_place(d[3]["op"])
        if q is not None and not q["p"]:
            return _root(b, q, depth + 1)
    return l


def classify(F, b, head, blocks):
    calls = [(bb, b.term(bb)) for bb in sorted(blocks) if b.term(bb)["k"] == "call"]
    # iterator-driven
    nx = [(bb, t) for bb, t in calls if re.search(r"Iterator::next(_back)?$", strip_generics(callee_def(t)))]
    for bb, t in nx:
        c = t["callee"]
        res = c.get("resolved") or ""
        # the None outcome must leave the loop: the block after next() switches on the discriminant with an exit edge
        tgt = t.get("t")
        leaves = False
        if tgt is not None:
            seen, work = set(), [tgt]
            while work:
                x = work.pop()
                if x in seen or x not in blocks:
                    continue
                seen.add(x)
                st = b.term(x)
                if st["k"] == "switch":
                    if any(y not in blocks for y in [z for _, z in st["targets"]] + [st["otherwise"]]):
                        leaves = True
                    break
                work.extend(b.succ(x))
        if not leaves or _cycle_without(b, blocks, head, {bb}):
            continue
        ap = op_place(t["args"][0]) if t["args"] else None
        ty = flow.strip_lifetimes(b.local_ty(ap["l"])) if ap is not None else "?"
        finite = _finite_iter(re.sub(r"^&(mut )?", "", ty))
        if finite:
            return "iter", "driven by %s" % ty[5:85]
        return "chain", "driven by an opaque iterator (%s)" % ty[:80]
    # reader-driven: every cycle consumes input
    cons = set()
    for bb, t in calls:
        if not (CONSUME.search(callee_def(t)) or CONSUME.search(strip_generics(callee_def(t)))):
            continue
        # the call can fail, and its failure is looked at inside the loop (`?`): end of input ends the loop
        dl = t["dest"]["l"] if t.get("dest") and not t["dest"]["p"] else None
        if dl is None or not flow.strip_lifetimes(b.local_ty(dl)).startswith("std::result::Result<"):
            continue
        tried = any(re.search(r"Try>?::branch$", strip_generics(callee_def(t2))) and any((op_place(a) or {}).get("l") == dl for a in t2["args"]) for _, t2 in calls)
        if tried:
            cons.add(bb)
    if cons and not _cycle_without(b, blocks, head, cons):
        return "reader", "every cycle consumes input (%s)" % sorted({strip_generics(callee_def(b.term(x))).split("::")[-1] for x in cons})
    # counter-driven
    tests = _exit_tests(b, blocks)
    for v, ups in sorted(_steps(b, blocks).items()):
        dirs = {d for _, d in ups}
        if len(dirs) != 1 or _cycle_without(b, blocks, head, {bb for bb, _ in ups}):
            continue
        d = dirs.pop()
        for op, l, r in tests:
            if v not in (l, r):
                continue
            left = v == l
            toward = (op in ("Lt", "Le") and left) or (op in ("Gt", "Ge") and not left) if d == "up" else (op in ("Gt", "Ge") and left) or (op in ("Lt", "Le") and not left)
            if toward or op in ("Ne", "Eq"):
                return "counter", "%s steps %s on every cycle and an exit tests it (%s)" % (b.local_name(v) or "_%d" % v, d, op)
    return "other", "no iterator, consuming call or monotone counter on every cycle"


def x7(ctx, rep, rule="X7"):
    from .lin import _analysis_defs
    F = ctx.lib
    n = 0
    per = {}
    used = set()
    for dn in _analysis_defs(F):
        b = F.bodies[dn]
        short = dn.replace(P, "")
        heads = lin.loop_heads(b)
        ordn = {}
        for h in sorted(heads, key=lambda x: (b.term(x).get("line") or 0, x)):
            blocks = lin.natural_loop(b, h, heads[h])
            try:
                cls, why = classify(F, b, h, blocks)
            except Exception as e:
                rep.add(rule, "UNRECOGNISED-IDIOM:" + short, False, b.where(h), "%s: %s" % (type(e).__name__, e))
                continue
            n += 1
            per[cls] = per.get(cls, 0) + 1
            ordn[cls] = ordn.get(cls, 0) + 1
            key = "%s|%s#%d" % (short, cls, ordn[cls])
            if cls in ("iter", "reader", "counter"):
                rep.add(rule, "loop-has-progress:" + key, True, b.where(h), why)
                continue
            row = REVIEWED.get((short, cls))
            if row is not None and ordn[cls] <= row[0]:
                used.add((short, cls))
                rep.add(rule, "loop-reviewed:" + key, True, b.where(h), row[1])
            else:
                rep.add(rule, "loop-without-progress:" + key, False, b.where(h), why + ("" if row is None else " (only %d such loop(s) of this function are reviewed)" % row[0]))
    rep.floor(rule, "loops-on-the-analysis-path", n, 40)
    rep.stats["x7"] = {"loops": n, "classes": per, "reviewed_rows_used": len(used)}
