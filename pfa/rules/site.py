"""SITE rules: every explicit failure construct reachable from an entry is in the reviewed table, and the
structural obligation attached to its row is re-verified on every run (X1 for C05, A6 for C01)."""
import re
from .. import flow, site as S
from ..facts import op_place, op_const, callee_def, AnchorMissing
from ..common import strip_generics, PC
from ..tables import failure_sites as T

P = "preflate_rs::"
IN_MEMORY = (r"cabac::vp8::VP8Writer<&mut std::vec::Vec<u8>>", r"cabac::vp8::VP8Reader<std::io::Cursor<&\[u8\]>>")


def const_dead_blocks(body):
    """Blocks unreachable once branches on compile-time constants are pruned."""
    seen = set()
    work = [0]
    while work:
        b = work.pop()
        if b in seen:
            continue
        seen.add(b)
        t = body.term(b)
        if t["k"] == "switch":
            v = flow.const_eval(body, t["d"])
            if v is not None:
                tg = [x for val, x in t["targets"] if val == v]
                work.append(tg[0] if tg else t["otherwise"])
                continue
        work.extend(body.succ(b))
    return body.normal_blocks() - seen


# ---- obligations: each returns (ok, detail) ---------------------------------------------------------

def ob_cabac_in_memory(F, parent, fn, sites):
    insts = [F.inst(i) for i in parent if F.inst(i)["def"] == fn]
    bad = [i["name"] for i in insts if not any(re.search(p, i["name"]) for p in IN_MEMORY)]
    return (bool(insts) and not bad), "%d reachable instantiation(s), all over the in-memory VP8 reader/writer" % len(insts) if not bad else "instantiated with another reader/writer: %s" % bad[:2]


def ob_vp8_ctor(F, parent, fn, sites):
    b = F.bodies[fn]
    bad = []
    for s in sites:
        t = b.term(s["bb"])
        o = flow.origin(b, t["args"][0])
        ok = False
        for bb, ct in o.calls:
            inst = ct["callee"].get("inst", "")
            if re.search(r"^cabac::vp8::VP8Writer::<&mut std::vec::Vec<u8>>::new$|^cabac::vp8::VP8Reader::<std::io::Cursor<&\[u8\]>>::new$", inst):
                ok = True
        if not ok:
            bad.append(s["where"])
    return not bad, "unwrap applies to VP8Writer::new(&mut Vec<u8>) / VP8Reader::new(Cursor<&[u8]>)" if not bad else "unwrap on something else at %s" % bad


def ob_checksum_dead(F, parent, fn, sites):
    try:
        v = F.const_int(P + "token_predictor::VERIFY")
    except AnchorMissing:
        return False, "const VERIFY not found"
    live = []
    n = 0
    for name, b in F.bodies.items():
        dead = None
        for bb, t in b.calls():
            if strip_generics(callee_def(t)) == strip_generics(fn):
                n += 1
                if dead is None:
                    dead = const_dead_blocks(b)
                if bb not in dead:
                    live.append("%s (%s)" % (name, b.where(bb)))
    return (v == 0 and not live and n > 0), "VERIFY=%s, %d call site(s) of checksum, live: %s" % (v, n, live[:2])


def ob_iterate_offset(F, parent, fn, sites):
    bad, n = [], 0
    for name, b in F.bodies.items():
        for bb, t in b.calls():
            if t["callee"].get("def") == P + "hash_chain::HashChain::iterate":
                n += 1
                v = flow.const_eval(b, t["args"][2])
                if v in (0, 1):
                    continue
                k = t["args"][2].get("k", {}) if isinstance(t["args"][2], dict) else {}
                o = flow.origin(b, t["args"][2])
                gen = [c for c in o.consts if c.get("generic")]
                if gen and not (o.args or o.calls or o.exprs):
                    # const generic parameter: look at the instantiations of the enclosing function
                    vals = set()
                    for i in parent:
                        I = F.inst(i)
                        if I["def"] == name:
                            m = re.search(r"::<(\d+)>$", I["name"])
                            vals.add(int(m.group(1)) if m else None)
                    if vals and vals <= {0, 1}:
                        continue
                    bad.append("%s instantiated with %s" % (name, sorted(map(str, vals))))
                else:
                    bad.append("%s passes a run-time offset (%s)" % (name, b.where(bb)))
    return (n >= 3 and not bad), "%d call sites of HashChain::iterate, offsets in {0,1}" % n if not bad else "; ".join(bad[:2])


def ob_depth_variants(F, parent, fn, sites):
    # new_depth_estimator(x): x is the parameter of CandidateInfo::new; every caller passes a non-None variant aggregate
    bad, n = [], 0
    mid = P + "complevel_estimator::CandidateInfo::new"
    for name, b in F.bodies.items():
        for bb, t in b.calls():
            cd = strip_generics(callee_def(t))
            if cd == fn and name != mid:
                bad.append("new_depth_estimator called from %s" % name)
            if cd == mid:
                n += 1
                o = flow.origin(b, t["args"][0])
                vs = {r.get("vname") for _, _, r in o.exprs if r["k"] == "agg"}
                if o.args or o.calls or o.consts or o.unknown or not vs or "None" in vs or any(r["k"] != "agg" for _, _, r in o.exprs):
                    bad.append("%s passes %s" % (name, sorted(map(str, vs)) or "a run-time value"))
    mb = F.bodies.get(mid)
    if mb is None:
        return False, "CandidateInfo::new not found"
    fwd = [t for bb, t in mb.calls() if strip_generics(callee_def(t)) == fn]
    okf = len(fwd) == 1 and flow.origin(mb, fwd[0]["args"][0]).args == {1}
    return (n >= 5 and not bad and okf), "%d constructions of CandidateInfo, all with a concrete hash algorithm" % n if not bad else "; ".join(bad[:2])


def ob_tree_code(F, parent, fn, sites):
    a = F.adts.get(P + "huffman_encoding::TreeCodeType")
    code = [v["discr"] for v in a["variants"] if v["name"] == "Code"][0] if a else None
    bad, n = [], 0
    for name, b in F.bodies.items():
        for bb, t in b.calls():
            if strip_generics(callee_def(t)) != fn:
                continue
            n += 1
            arg = t["args"][0]
            o = flow.origin(b, arg)
            aggs = [r for _, _, r in o.exprs if r["k"] == "agg"]
            if aggs and len(aggs) == len(o.exprs) and not (o.args or o.calls or o.consts or o.unknown):
                if all(r.get("vname") != "Code" for r in aggs):
                    continue
                bad.append("%s passes Code" % name)
                continue
            # dominated by a match arm that excludes Code
            root = flow.describe(b, arg)
            ok = False
            for sb in b.normal_blocks():
                st = b.term(sb)
                if st["k"] != "switch":
                    continue
                d = flow.describe(b, st["d"])
                if d != "discr(%s)" % root:
                    continue
                listed = {v for v, _ in st["targets"]}
                for v, tgt in st["targets"]:
                    if v != code and b.edge_dominates(sb, tgt, bb):
                        ok = True
                if code in listed and b.edge_dominates(sb, st["otherwise"], bb):
                    ok = True
            # ... or by `x != Code` / `x == Code` held in a flag
            for sb in b.normal_blocks():
                st = b.term(sb)
                if ok or st["k"] != "switch" or len(st["targets"]) != 1:
                    continue
                sp = op_place(st["d"])
                d0 = b.single_def(sp["l"]) if sp is not None and not sp["p"] else None
                while d0 and d0[2] == "assign" and d0[3]["k"] == "use" and op_place(d0[3]["op"]) is not None and not op_place(d0[3]["op"])["p"]:
                    d0 = b.single_def(op_place(d0[3]["op"])["l"])
                if not (d0 and d0[2] == "call" and len(d0[3]["args"]) == 2):
                    continue
                cn = strip_generics(callee_def(d0[3]))
                m = re.search(r"PartialEq::(eq|ne)$", cn)
                if not m:
                    continue
                lhs = flow.describe(b, d0[3]["args"][0])
                rv = flow.resolve_variant(b, d0[3]["args"][1])
                is_code = bool(rv and rv[1] == "Code")
                if not is_code:
                    # `&TreeCodeType::Code` as a promoted constant: its one-byte image is the discriminant
                    cur = d0[3]["args"][1]
                    for _ in range(4):
                        kk = op_const(cur) if isinstance(cur, dict) and "k" in cur else None
                        if kk is not None:
                            raw = ((kk.get("v") or {}).get("ptr") or {}).get("bytes") if isinstance(kk.get("v"), dict) else None
                            is_code = bool(raw) and kk.get("ty", "").endswith("TreeCodeType") and int.from_bytes(bytes.fromhex(raw)[:1], "little") == code
                            break
                        pp = op_place(cur)
                        dd1 = b.single_def(pp["l"]) if pp is not None else None
                        if not dd1 or dd1[2] != "assign" or dd1[3]["k"] not in ("use", "ref"):
                            break
                        cur = dd1[3]["op"] if dd1[3]["k"] == "use" else {"c": dd1[3]["place"]}
                if lhs not in (root, "deref(%s)" % root) or not is_code:
                    continue
                zero = st["targets"][0][1] if st["targets"][0][0] == 0 else None
                not_code_edge = st["otherwise"] if m.group(1) == "ne" else zero
                if not_code_edge is not None and b.edge_dominates(sb, not_code_edge, bb):
                    ok = True
            if not ok:
                bad.append("%s (%s): argument not provably != Code" % (name, b.where(bb)))
    return (n >= 2 and not bad), "%d call sites, argument is never TreeCodeType::Code" % n if not bad else "; ".join(bad[:2])


def ob_none_holder(F, parent, fn, sites):
    # HashAlgorithm::None aggregates in non-test code: only in the Store/HuffOnly early return of the estimator and in Default/read
    where = []
    for name, b in F.bodies.items():
        for bb in b.normal_blocks():
            for s in b.stmts(bb):
                if s["k"] == "assign" and s["r"]["k"] == "agg" and s["r"].get("adt") == P + "hash_algorithm::HashAlgorithm" and s["r"].get("vname") == "None":
                    where.append(name)
    allowed = {P + "preflate_parameter_estimator::estimate_preflate_parameters", P + "preflate_parameter_estimator::PreflateParameters::read",
               "<" + P + "hash_algorithm::HashAlgorithm as std::default::Default>::default"}
    extra = sorted(set(where) - allowed)
    # in the estimator the aggregate must sit behind the Store/HuffOnly test
    eb = F.bodies.get(P + "preflate_parameter_estimator::estimate_preflate_parameters")
    guarded = False
    if eb is not None:
        for bb in eb.normal_blocks():
            for s in eb.stmts(bb):
                if s["k"] == "assign" and s["r"]["k"] == "agg" and s["r"].get("vname") == "None" and s["r"].get("adt", "").endswith("HashAlgorithm"):
                    # dominated by a comparison call on the strategy
                    doms = eb.dominators().get(bb, set())
                    cmp_calls = [x for x in doms if eb.term(x)["k"] == "call" and strip_generics(callee_def(eb.term(x))).endswith("PartialEq::eq")
                                 and "PreflateStrategy" in eb.term(x)["callee"].get("inst", "")]
                    guarded = len(cmp_calls) >= 1
    return (not extra and guarded), "HashAlgorithm::None is constructed only in %s; estimator site guarded by the strategy test: %s" % (sorted(set(where)), guarded) if not extra else "HashAlgorithm::None also constructed in %s" % extra


def ob_candidates_nonempty(F, parent, fn, sites):
    b = F.bodies[fn]
    # the unwrap block is dominated by the false edge of `candidates.is_empty()` whose true edge returns Err
    for s in sites:
        ok = False
        for bb, t in b.calls():
            if strip_generics(callee_def(t)).endswith("Vec::is_empty") and "candidates" in flow.describe(b, t["args"][0]):
                sw = t["t"]
                st = b.term(sw)
                if st["k"] == "switch":
                    f = [x for v, x in st["targets"] if v == 0]
                    if f and b.edge_dominates(sw, f[0], s["bb"]):
                        ok = True
        if not ok:
            return False, "min_by().unwrap() at %s is not dominated by the non-empty edge of candidates.is_empty()" % s["where"]
    return True, "unwrap is dominated by `!candidates.is_empty()`"


def ob_calc_codes_total(F, parent, fn, sites):
    b = F.bodies[fn]
    bad = []
    def sources(op, depth=0, seen=None):
        """Calls whose failure can reach this Result: through `?` (from_residual <- branch <- call) and `Ok(..)` wrapping."""
        seen = set() if seen is None else seen
        o = flow.origin(b, op)
        out = []
        for cbb, t in o.calls:
            if cbb in seen or depth > 6:
                continue
            seen.add(cbb)
            n = strip_generics(callee_def(t))
            if (n.endswith("from_residual") or n.endswith("Try::branch")) and t["args"]:
                out += sources(t["args"][0], depth + 1, seen)
            else:
                out.append(n)
        for ebb, idx, r in o.exprs:
            if r.get("k") == "agg" and r.get("vname") in ("Ok", "Break", "Continue") and r.get("adt") in ("std::result::Result", "std::ops::ControlFlow"):
                if r.get("vname") == "Break":
                    for x in r.get("ops", []):
                        out += sources(x, depth + 1, seen)
                continue
            out.append("expr:%s" % r.get("k"))
        return out
    for s in sites:
        names = sorted(set(sources(b.term(s["bb"])["args"][0])))
        if names != [P + "huffman_helper::calc_huffman_codes"]:
            bad.append(str(names))
    # calc_huffman_codes: every Err return is ...? accept when the only failure is an explicit err on invalid lengths
    return not bad, "unwrap applies to calc_huffman_codes(fixed tables)" if not bad else "unwrap on %s" % bad


def ob_heap_nonempty(F, parent, fn, sites):
    b = F.bodies[fn]
    for s in sites:
        o = flow.origin(b, b.term(s["bb"])["args"][0])
        names = [strip_generics(callee_def(t)) for _, t in o.calls]
        if not all(n.endswith("::pop") for n in names) or not names:
            return False, "unwrap on %s" % names
    # an early return on heap.len() <= 1 exists
    ok = any(b.term(bb)["k"] == "switch" and re.search(r"^L[et]\(len\(.*\), K[12]\)$|^G[et]\(len\(.*\), K[01]\)$", flow.describe(b, b.term(bb)["d"]))
             for bb in b.normal_blocks())
    return ok, "pop().unwrap() with a heap-size test in the function" if ok else "no heap-size test found"


def ob_read_byte(F, parent, fn, sites):
    n, bad = 0, []
    for name, b in F.bodies.items():
        for bb, t in b.calls():
            if strip_generics(callee_def(t)) == strip_generics(fn):
                n += 1
                flushes = [x for x, t2 in b.calls() if strip_generics(callee_def(t2)).endswith("BitReader::flush_buffer_to_byte_boundary")]
                if not any(b.dominates(x, bb) for x in flushes):
                    bad.append("%s (%s)" % (name, b.where(bb)))
    return (n >= 1 and not bad), "%d call sites of read_byte, each dominated by flush_buffer_to_byte_boundary" % n if not bad else "not after a flush: %s" % bad[:2]


def ob_codes_read(F, parent, fn, sites):
    rb = F.bodies.get(P + "huffman_encoding::HuffmanOriginalEncoding::read")
    if rb is None:
        return False, "HuffmanOriginalEncoding::read not found"
    oks = [bb for bb in rb.normal_blocks() for s in rb.stmts(bb) if s["k"] == "assign" and s["p"]["l"] == 0 and s["r"]["k"] == "agg" and s["r"].get("vname") == "Ok"]
    for sb in rb.normal_blocks():
        st = rb.term(sb)
        if st["k"] == "switch" and re.search(r"^Ne\(.*codes_read.*\)$|^Ne\(var\(codes_read\)", flow.describe(rb, st["d"])):
            f = [x for v, x in st["targets"] if v == 0]
            if f and oks and all(rb.edge_dominates(sb, f[0], ob) for ob in oks):
                return True, "Ok(HuffmanOriginalEncoding) is dominated by codes_read == hlit + hdist"
    return False, "no dominating `codes_read != c_lengths_combined` test found before Ok"


def ob_codes_read_sized(F, parent, fn, sites):
    """codes-read, plus: the two predicted length vectors handed to predict_ld_trees are brought to exactly the declared
    counts — `resize(declared, 0)`, unconditionally or under `len != declared` only (a grow-only resize leaves a longer
    prediction in place and the assertion on the total fires)."""
    ok, why = ob_codes_read(F, parent, fn, sites)
    if not ok:
        return ok, why
    b = F.bodies.get(P + "tree_predictor::predict_tree_for_block")
    if b is None:
        return False, "predict_tree_for_block not found"
    sinks = [bb for bb, t in b.calls() if strip_generics(callee_def(t)).endswith("tree_predictor::predict_ld_trees")]
    got = {}
    for rb, t in b.calls():
        if not strip_generics(callee_def(t)).endswith("Vec::resize") or len(t["args"]) != 3:
            continue
        v, n, z = (flow.describe(b, a, names=True) for a in t["args"])
        m = re.search(r"\.(num_literals|num_dist)$", n)
        if not m or z != "K0":
            continue
        if sinks and all(b.dominates(rb, x) for x in sinks):
            got[m.group(1)] = "unconditional"
            continue
        guards = []
        for sb in sorted(b.normal_blocks()):
            st = b.term(sb)
            if st["k"] != "switch" or st.get("exp") or len(st["targets"]) != 1:
                continue
            for e in (st["otherwise"], st["targets"][0][1]):
                if b.edge_dominates(sb, e, rb):
                    guards.append((sb, e, flow.describe(b, st["d"], names=True)))
        want_ne, want_eq = "Ne(len(%s), %s)" % (v, n), "Eq(len(%s), %s)" % (v, n)
        mine = [(sb, e, d) for sb, e, d in guards if d in (want_ne, want_eq)]
        good = False
        for sb, e, d in mine:
            st = b.term(sb)
            ne_edge = st["otherwise"] if d == want_ne else st["targets"][0][1]
            inner = [g for g in guards if g[0] != sb and b.dominates(sb, g[0])]
            if e == ne_edge and not inner:
                good = True
        if good:
            got[m.group(1)] = "when len != declared"
    missing = [k for k in ("num_literals", "num_dist") if k not in got]
    return (not missing and bool(sinks)), (why + "; predicted vectors resized to the declared counts: %s" % got) if not missing else "no exact resize to the declared count for %s before predict_ld_trees" % missing


def ob_update_length(F, parent, fn, sites):
    from . import ub
    return ub.update_length_bound(F, parent)


def ob_slice4(F, parent, fn, sites):
    b = F.bodies[fn]
    for s in sites:
        t = b.term(s["bb"])
        ty = b.local_ty(op_place(t["args"][0])["l"])
        if "Result<[u8; 4]" not in ty:
            return False, "unwrap on %s" % ty
        d = flow.describe(b, t["args"][0])
        if not re.search(r"try_into\(index\(.*(RangeTo\{K4\}|RangeFrom\{Sub\(len\(.*\), K4\)(\.0)?\})", d):
            return False, "source is not a 4-byte slice ([..4] or [len-4..]): %s" % d
    return True, "<&[u8] as TryInto<[u8;4]>> on a slice of exactly 4 bytes"


def ob_prefix_compare(F, parent, fn, sites):
    from . import guard
    return guard.prefix_compare_args(F)


def ob_reshift_bound(F, parent, fn, sites):
    """InternalPosition::from_absolute narrows `pos - total_shift` to u16.  Every HashChain::update_hash implementation
    re-bases the table when that difference reaches a limit K and accepts at most B positions per call; the lazy-match probe
    looks one position further.  The narrowing cannot fail only if (K - 1) + B + 1 <= 65535."""
    impls = [n for n in F.bodies if n.endswith("as preflate_rs::hash_chain::HashChain>::update_hash")]
    if len(impls) < 2:
        return False, "expected the two HashChain::update_hash implementations, found %d" % len(impls)
    out = []
    for n in impls:
        b = F.bodies[n]
        B = K = None
        for bb in sorted(b.normal_blocks()):
            t = b.term(bb)
            if t["k"] != "switch":
                continue
            d = flow.describe(b, t["d"])
            m = re.match(r"^(Le|Lt)\(arg<u32>#1, K(\d+)\)$", d)
            if m:
                zero = dict((v, x) for v, x in t["targets"]).get(0)
                tz = b.term(zero) if zero is not None else None
                if tz is not None and tz["k"] == "call" and tz.get("t") is None and "panic" in callee_def(tz):
                    B = int(m.group(2)) - (1 if m.group(1) == "Lt" else 0)
                continue
            m = re.match(r"^(Ge|Gt)\(Sub\(arg<u32>#0, arg<.*>\.total_shift\)(\.0)?, K(\d+)\)$", d)
            if m:
                true_edge = t["otherwise"]
                reach = b.reachable_from(true_edge, avoid=[x for v, x in t["targets"]])
                if any(b.term(x)["k"] == "call" and "reshift" in callee_def(b.term(x)) for x in reach):
                    K = int(m.group(3)) + (1 if m.group(1) == "Gt" else 0)
        if B is None or K is None:
            return False, "UNRECOGNISED-IDIOM: %s: batch bound %s, re-base limit %s" % (n.replace(P, ""), B, K)
        # every from_absolute call of the function lies behind the re-base test
        out.append((n.replace(P, "").split(" as ")[0].lstrip("<"), K, B))
        if (K - 1) + B + 1 > 65535:
            return False, "%s: re-base limit %d + batch %d + 1 probe position exceeds u16 (%d > 65535)" % (n.replace(P, ""), K - 1, B, K + B)
    if len({(k, bb) for _, k, bb in out}) != 1:
        return False, "the implementations disagree on (limit, batch): %s" % out
    return True, "limit/batch per implementation: %s; (K-1)+B+1 <= 65535" % out


INVARIANTS = [(P + "bit_writer::BitWriter", "bits_in", P + "bit_writer::BitWriter::flush_whole_bytes")]


def assert_restates_guard(F, b, site_bb):
    """A new `assert!` / `debug_assert!` whose condition is implied by the linear guards that dominate it (the negated exit
    condition of the loop just left, a length test that already returned Err ...) cannot fire: it needs no review."""
    from .. import lin
    from ..aff import aff_add, aff_const, TOP
    # the two-way switch whose one edge leads (through straight-line blocks) to the panic call
    cur, hops = site_bb, 0
    sw = None
    while hops < 6:
        ps = [p for p in b.pred(cur) if p in b.normal_blocks()]
        if len(ps) != 1:
            return False, "no single controlling test"
        p = ps[0]
        t = b.term(p)
        if t["k"] == "switch" and len(t["targets"]) == 1:
            sw = (p, cur)
            break
        if t["k"] not in ("goto", "call", "drop"):
            return False, "no controlling test"
        cur, hops = p, hops + 1
    if sw is None:
        return False, "no controlling test"
    sb, toward_panic = sw
    t = b.term(sb)
    dp = op_place(t["d"])
    d = b.single_def(dp["l"]) if dp is not None and not dp["p"] else None
    neg = False
    while d and d[2] == "assign" and d[3]["k"] == "unop" and d[3]["op"] == "Not":
        q = op_place(d[3]["a"])
        d = b.single_def(q["l"]) if q is not None and not q["p"] else None
        neg = not neg
    if not (d and d[2] == "assign" and d[3]["k"] == "binop" and d[3]["op"] in ("Lt", "Le", "Gt", "Ge", "Eq", "Ne")):
        return False, "the asserted condition is not a comparison"
    zero_edge = t["targets"][0][1] if t["targets"][0][0] == 0 else None
    panic_on_false = (toward_panic == zero_edge)
    if neg:
        panic_on_false = not panic_on_false
    want_true = panic_on_false                     # the comparison must be true for the assertion to hold
    L, sites, facts, inn, out = lin.sites_and_facts(F, b)
    env = lin._env_at(L, b, d[0], d[1], inn)
    a, c = L.operand(env, d[3]["l"]), L.operand(env, d[3]["r"])
    linear = not (a is TOP or c is TOP)
    if not linear:
        a = c = aff_const(0)
    one = aff_const(1)
    ge = lambda x, y, strict=False: aff_add(aff_add(x, y, -1), one, -1) if strict else aff_add(x, y, -1)
    op = d[3]["op"]
    if not want_true:
        op = {"Lt": "Ge", "Le": "Gt", "Gt": "Le", "Ge": "Lt", "Eq": "Ne", "Ne": "Eq"}[op]
    obs = {"Lt": [ge(c, a, True)], "Le": [ge(c, a)], "Gt": [ge(a, c, True)], "Ge": [ge(a, c)], "Eq": [ge(a, c), ge(c, a)]}.get(op)
    if obs is None:
        obs, linear = [], False
    here = [f for f in facts if lin.holds_at(b, f[0], sb)]
    ok = linear and all(lin.entailed(o, here) is not None for o in obs)
    if not ok:
        # the same comparison was just decided: the assertion sits on the edge of a dominating test of the same two
        # operands on which it is true (`while x & 7 != 0 { .. } debug_assert_eq!(x & 7, 0)`), nothing in between
        dl, dr = flow.describe(b, d[3]["l"], names=True), flow.describe(b, d[3]["r"], names=True)
        NEG = {"Lt": "Ge", "Le": "Gt", "Gt": "Le", "Ge": "Lt", "Eq": "Ne", "Ne": "Eq"}
        for sb2 in sorted(b.normal_blocks()):
            t2 = b.term(sb2)
            if sb2 == sb or t2["k"] != "switch" or len(t2["targets"]) != 1:
                continue
            p2 = op_place(t2["d"])
            d2 = b.single_def(p2["l"]) if p2 is not None and not p2["p"] else None
            if not (d2 and d2[2] == "assign" and d2[3]["k"] == "binop" and d2[3]["op"] in NEG):
                continue
            if (flow.describe(b, d2[3]["l"], names=True), flow.describe(b, d2[3]["r"], names=True)) != (dl, dr):
                continue
            for edge_true, tgt in ((False, t2["targets"][0][1] if t2["targets"][0][0] == 0 else None), (True, t2["otherwise"])):
                if tgt is None or not b.edge_dominates(sb2, tgt, sb):
                    continue
                holds = d2[3]["op"] if edge_true else NEG[d2[3]["op"]]
                if holds != op:
                    continue
                # straight line from that edge to the assertion, no call and no store through a projection on the way
                cur, clean, steps = tgt, True, 0
                while cur != sb and steps < 8:
                    tt = b.term(cur)
                    if any(st["k"] == "assign" and st["p"]["p"] for st in b.stmts(cur)):
                        clean = False
                        break
                    if tt["k"] == "goto":
                        nxt_b = tt["t"]
                    elif tt["k"] == "switch" and flow.const_eval(b, tt["d"]) is not None:
                        kv = flow.const_eval(b, tt["d"])            # `if cfg!(debug_assertions)`
                        nxt_b = dict((v, x) for v, x in tt["targets"]).get(kv, tt["otherwise"])
                    else:
                        clean = False
                        break
                    cur, steps = nxt_b, steps + 1
                if clean and cur == sb and not any(st["k"] == "assign" and st["p"]["p"] for st in b.stmts(sb)):
                    ok = True
    if not ok and op in ("Lt", "Le"):
        # an upper limit that upper-bound inference already knows (field invariants such as "0..8 bits buffered")
        try:
            from ..ub import UB
            U = UB(F)
            k = flow.const_eval(b, d[3]["r"])
            ubv = U.operand(b, d[3]["l"], d[0])
            ok = k is not None and (ubv < k if op == "Lt" else ubv <= k)
        except Exception:
            ok = False
    if not ok and op in ("Lt", "Le"):
        # a representation invariant of the receiver, tested on entry before anything stores the field (pfa/inv.py)
        try:
            from .. import inv
            lp = op_place(d[3]["l"])
            src = b.single_def(lp["l"]) if lp is not None and not lp["p"] else None
            fp = op_place(src[3]["op"]) if src and src[2] == "assign" and src[3]["k"] == "use" else None
            k = flow.const_eval(b, d[3]["r"])
            for adt, field, drain in INVARIANTS:
                if fp is not None and fp["l"] == 1 and inv._field_in(fp, field) and adt in b.locals[1]["ty"] and k is not None and inv.at_entry_before_store(b, d[0], field):
                    K, why = inv.drain_invariant(F, adt, field, drain)
                    if K is not None and (K <= k if op == "Lt" else K - 1 <= k):
                        ok = True
        except Exception:
            pass
    return ok, "%s(%s, %s) follows from the guards in force" % (op, flow.describe(b, d[3]["l"], names=True), flow.describe(b, d[3]["r"], names=True)) if ok else "not implied by the dominating guards"


OBLIGATIONS = {
    "cabac-in-memory": ob_cabac_in_memory, "vp8-ctor-in-memory": ob_vp8_ctor, "checksum-dead": ob_checksum_dead,
    "iterate-offset": ob_iterate_offset, "depth-estimator-variants": ob_depth_variants, "tree-code-not-Code": ob_tree_code,
    "none-holder-no-references": ob_none_holder, "X2:candidates-nonempty": ob_candidates_nonempty,
    "calc-huffman-codes-total": ob_calc_codes_total, "heap-nonempty": ob_heap_nonempty, "read-byte-after-flush": ob_read_byte,
    "X2:codes-read": ob_codes_read, "X2:codes-read+sized": ob_codes_read_sized, "update-length": ob_update_length, "slice4-to-array4": ob_slice4,
    "prefix-compare-args": ob_prefix_compare, "reshift-bound": ob_reshift_bound,
}


def check_sites(F, rep, rule, entries, floor):
    roots = F.roots_for(entries)
    sites, parent, defs = S.reachable_sites(F, roots)
    rep.stats.setdefault("site", {})[rule] = {"local_functions_reachable": len(defs), "explicit_failure_sites": len(sites)}
    rep.floor(rule, "explicit-failure-sites", len(sites), floor)
    groups = {}
    for (fn, kind, ordn), s in sites.items():
        # a construct inside a closure belongs to the function the closure is written in (`for` body <-> `fold` closure)
        groups.setdefault((re.sub(r"::\{closure#\d+\}", "", fn), kind), []).append(s)
    for (fn, kind), ss in sorted(groups.items()):
        short = fn.replace(P, "")
        row = T.ROWS.get((short, kind))
        key = "%s|%s" % (short, kind)
        where = ss[0]["where"]
        if row is None and re.match(r"^(debug_)?assert(_eq|_ne)?!$", kind):
            res = [assert_restates_guard(F, F.bodies[s0["fn"]], s0["bb"]) for s0 in ss]
            if all(ok for ok, _ in res):
                rep.add(rule, "restates-guard:" + key, True, where, "; ".join(w for _, w in res))
                continue
        if row is None:
            rep.add(rule, "unreviewed:" + key, False, where,
                    "explicit failure construct (%d site(s)) on a path that digests untrusted bytes is not in the reviewed table; reachable via %s" % (
                        len(ss), F.witness(parent, ss[0]["witness_inst"])))
            continue
        cls, obname, why = row
        if cls in ("invariant",):
            rep.add(rule, "reviewed:" + key, True, where, "invariant (no structural obligation): " + why)
            continue
        if cls == "discharged-by":
            rep.add(rule, "reviewed:" + key, True, where, "discharged by %s: %s" % (obname, why))
            continue
        if cls == "ub" and obname == "C08:P3":
            rep.add(rule, "reviewed:" + key, True, where, "decided by C08/P3 (upper-bound inference), reported there: " + why)
            continue
        ob = OBLIGATIONS.get(obname)
        if ob is None:
            rep.add(rule, "reviewed:" + key, False, where, "table row names an unknown obligation %r" % obname)
            continue
        try:
            ok, detail = ob(F, parent, fn, ss)
        except Exception as e:  # fail closed, but say why
            ok, detail = False, "UNRECOGNISED-IDIOM: obligation %s raised %s: %s" % (obname, type(e).__name__, e)
        rep.add(rule, "%s:%s" % (cls, key), ok, where, "%s — %s" % (why, detail))
    # stale rows are harmless (the construct disappeared) but are reported in the notes
    stale = [k for k in T.ROWS if (P + k[0], k[1]) not in groups]
    rep.stats["site"][rule]["table_rows_unused_here"] = len(stale)


def a6(ctx, rep):
    F = ctx.lib
    check_sites(F, rep, "A6", [PC + "expand_zlib_chunks", PC + "recreated_zlib_chunks"], 20)
    # A12: partial operations (division, remainder, ilog) under the same two entries need a non-zero constant or a proof
    from . import lin as _lin
    _lin.x9(ctx, rep, "A12", [PC + "expand_zlib_chunks", PC + "recreated_zlib_chunks"])
