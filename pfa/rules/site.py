"""SITE — explicit failure constructs (filled in later in the build order)."""


def a6(ctx, rep):
    return
