"""PART rules: closed forms of small integer functions compared with the specification."""
import re
from .. import flow
from ..part import Part, Unsupported, single, is_iv
from ..facts import op_place, callee_def
from ..common import strip_generics
from .c03 import SPEC

P = "preflate_rs::"


def loop_body(b):
    """(start block, loop variable local, loop-head block, (lo, hi)) of the single `for i in a..b` loop over constants."""
    rng = None
    for bb in b.normal_blocks():
        for s in b.stmts(bb):
            if s["k"] == "assign" and s["r"]["k"] == "agg" and s["r"].get("adt") == "std::ops::Range":
                lo, hi = flow.const_eval(b, s["r"]["ops"][0]), flow.const_eval(b, s["r"]["ops"][1])
                if lo is not None and hi is not None:
                    rng = (lo, hi - 1)
    head = [bb for bb, t in b.calls() if strip_generics(callee_def(t)).endswith("Iterator::next")]
    start = None
    for bb in sorted(b.normal_blocks()):
        for s in b.stmts(bb):
            if s["k"] == "assign" and s["r"]["k"] == "use":
                p = op_place(s["r"]["op"])
                if p and any(isinstance(e, dict) and e.get("n") == "Some" for e in p["p"]) and head and p["l"] == b.term(head[0])["dest"]["l"]:
                    start = (bb, s["p"]["l"])
    if rng is None or len(head) != 1 or start is None:
        return None
    return start[0], start[1], head[0], rng


def t3(ctx, rep):
    F = ctx.lib
    b = F.body(P + "huffman_encoding::HuffmanOriginalEncoding::get_fixed_distance_lengths")
    where = "%s:%s" % (b.file, b.line)
    lb = loop_body(b)
    if lb is None:
        rep.add("T3", "UNRECOGNISED-IDIOM:fixed-literal-lengths", False, where, "cannot find the single constant-range loop that fills the literal length table")
        return
    start, var, head, (lo, hi) = lb
    try:
        pw = Part(F, b).piecewise(start, var, lo, hi, lambda res, pushes: pushes[0][1] if len(pushes) == 1 and single(pushes[0]) else None, stop_blocks=(head,))
    except Unsupported as e:
        rep.add("T3", "UNRECOGNISED-IDIOM:fixed-literal-lengths", False, where, str(e))
        return
    got = [[a, c, v] for a, c, v in pw]
    rep.add("T3", "fixed-literal-lengths", got == SPEC["fixed_literal_lengths"], where,
            "summary of the loop body over i in [%d,%d]: %s (RFC 1951 3.2.6: %s)" % (lo, hi, got, SPEC["fixed_literal_lengths"]))
    # distance lengths: vec![5; 32]
    fe = [t for bb, t in b.calls() if strip_generics(callee_def(t)).endswith("vec::from_elem")]
    vals = [(flow.const_eval(b, t["args"][0]), flow.const_eval(b, t["args"][1])) for t in fe]
    rep.add("T3", "fixed-distance-lengths", vals == [(5, 32)], where, "distance code lengths built as vec![v; n] with (v, n) = %s (RFC: 32 codes of 5 bits)" % vals)
