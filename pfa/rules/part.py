"""PART rules: closed forms of small integer functions compared with the specification."""
import re
from .. import flow
from ..part import Part, Unsupported, single, is_iv
from ..facts import op_place, callee_def
from ..common import strip_generics
from .c03 import SPEC

P = "preflate_rs::"


def loop_body(b):
    """(start block, loop variable local, loop-head block, (lo, hi)) of the single `for i in a..b` loop over constants."""
    rng = None
    for bb in b.normal_blocks():
        for s in b.stmts(bb):
            if s["k"] == "assign" and s["r"]["k"] == "agg" and s["r"].get("adt") == "std::ops::Range":
                lo, hi = flow.const_eval(b, s["r"]["ops"][0]), flow.const_eval(b, s["r"]["ops"][1])
                if lo is not None and hi is not None:
                    rng = (lo, hi - 1)
    head = [bb for bb, t in b.calls() if strip_generics(callee_def(t)).endswith("Iterator::next")]
    start = None
    for bb in sorted(b.normal_blocks()):
        for s in b.stmts(bb):
            if s["k"] == "assign" and s["r"]["k"] == "use":
                p = op_place(s["r"]["op"])
                if p and any(isinstance(e, dict) and e.get("n") == "Some" for e in p["p"]) and head and p["l"] == b.term(head[0])["dest"]["l"]:
                    start = (bb, s["p"]["l"])
    if rng is None or len(head) != 1 or start is None:
        return None
    return start[0], start[1], head[0], rng


def map_collect(F, b):
    """(closure body, (lo, hi)) when the first element of the returned pair is `(lo..hi+1).map(closure).collect()`: element i of
    the table is closure(i) by the meaning of map/collect over a range."""
    maps = [(bb, t) for bb, t in b.calls() if strip_generics(callee_def(t)) == "std::iter::Iterator::map"]
    cols = [(bb, t) for bb, t in b.calls() if strip_generics(callee_def(t)) == "std::iter::Iterator::collect"]
    if len(maps) != 1 or len(cols) != 1:
        return None
    mt, ct = maps[0][1], cols[0][1]
    rp, fp, cp = op_place(mt["args"][0]), op_place(mt["args"][1]), op_place(ct["args"][0])
    if rp is None or fp is None or cp is None or cp["l"] != mt["dest"]["l"] or cp["p"] or rp["p"] or fp["p"]:
        return None
    rd, fd = b.single_def(rp["l"]), b.single_def(fp["l"])
    if not (rd and rd[2] == "assign" and rd[3]["k"] == "agg" and rd[3].get("adt") == "std::ops::Range"):
        return None
    lo, hi = flow.const_eval(b, rd[3]["ops"][0]), flow.const_eval(b, rd[3]["ops"][1])
    if lo is None or hi is None or not (fd and fd[2] == "assign" and fd[3]["k"] == "agg" and fd[3].get("ak") == "closure" and not fd[3]["ops"]):
        return None
    # the collected vector is what the function returns first
    rets = [s["r"] for bb in b.normal_blocks() for s in b.stmts(bb) if s["k"] == "assign" and s["p"]["l"] == 0 and not s["p"]["p"]]
    if len(rets) != 1 or rets[0]["k"] != "agg" or rets[0].get("ak") != "tuple":
        return None
    org = flow.origin(b, rets[0]["ops"][0])
    if not any(bb == cols[0][0] for bb, _ in org.calls):
        return None
    try:
        cb = F.body(fd[3]["def"])
    except Exception:
        return None
    if len(cb.locals) < 3 or not re.match(r"^[iu](8|16|32|64|size)$", cb.locals[2]["ty"]):
        return None
    return cb, (lo, hi - 1)


def t3(ctx, rep):
    F = ctx.lib
    b = F.body(P + "huffman_encoding::HuffmanOriginalEncoding::get_fixed_distance_lengths")
    where = "%s:%s" % (b.file, b.line)
    lb = loop_body(b)
    mc = map_collect(F, b) if lb is None else None
    if lb is None and mc is None:
        rep.add("T3", "UNRECOGNISED-IDIOM:fixed-literal-lengths", False, where, "cannot find the single constant-range loop (or `(a..b).map(f).collect()`) that fills the literal length table")
        return
    try:
        if lb is not None:
            start, var, head, (lo, hi) = lb
            pw = Part(F, b).piecewise(start, var, lo, hi, lambda res, pushes: pushes[0][1] if len(pushes) == 1 and single(pushes[0]) else None, stop_blocks=(head,))
        else:
            cb, (lo, hi) = mc
            pw = Part(F, cb).piecewise(0, 2, lo, hi, lambda res, pushes: res[1] if not pushes and single(res) else None)
    except Unsupported as e:
        rep.add("T3", "UNRECOGNISED-IDIOM:fixed-literal-lengths", False, where, str(e))
        return
    got = [[a, c, v] for a, c, v in pw]
    rep.add("T3", "fixed-literal-lengths", got == SPEC["fixed_literal_lengths"], where,
            "summary of the loop body over i in [%d,%d]: %s (RFC 1951 3.2.6: %s)" % (lo, hi, got, SPEC["fixed_literal_lengths"]))
    # distance lengths: vec![5; 32]
    fe = [t for bb, t in b.calls() if strip_generics(callee_def(t)).endswith("vec::from_elem")]
    vals = [(flow.const_eval(b, t["args"][0]), flow.const_eval(b, t["args"][1])) for t in fe]
    rep.add("T3", "fixed-distance-lengths", vals == [(5, 32)], where, "distance code lengths built as vec![v; n] with (v, n) = %s (RFC: 32 codes of 5 bits)" % vals)
