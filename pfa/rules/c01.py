"""C01 — container round trip is exact and total (structural clauses).

A1 PROTO-C: the byte-level sequence expand_zlib_chunks writes (version byte, chunk tag, varints, payloads,
   IDAT descriptor) is accepted by recreated_zlib_chunks, with tag constants bound to the reader's match arms.
A2 CONST: chunk tags pairwise distinct; varint reader/writer use the same group width / continuation constants.
A3 FLOW: every probe of the scanner calls decompress_deflate_stream with verify = true.
A4 AFF: coverage invariant of the scanner (rules/scan.py).   A5 LIN: bounds of accesses to the untrusted slice.
A6 SITE: explicit failure constructs under expand/recreate (shared table with C05).
A1t: items of a terminated list never equal the terminator.  A8: the IDAT accumulators advance together.
Not decided: that accepted streams reconstruct (run-time comparison under verify=true); value relations between
idat_parse and the deflate parser (bytes between last block and Adler-32).
"""
import re
from .. import flow, proto, alpha
from ..facts import op_place, callee_def, const_int, op_const
from ..common import strip_generics, PC

WSCOPE = [PC + "expand_zlib_chunks", PC + "write_chunk_block", "preflate_rs::idat_parse::IdatContents::write_to_bytestream"]
RSCOPE = [PC + "recreated_zlib_chunks", PC + "read_chunk_block", "preflate_rs::idat_parse::IdatContents::read_from_bytestream"]


def a1(F, rep):
    W = proto.Machine(F, alpha.Container("w", WSCOPE, F), "w")
    R = proto.Machine(F, alpha.Container("r", RSCOPE, F), "r")
    res = proto.check(W, PC + "expand_zlib_chunks", R, PC + "recreated_zlib_chunks", alpha.match_container)
    for where, why in W.unrecognised + R.unrecognised:
        rep.add("A1", "UNRECOGNISED-IDIOM:%s" % why[:60], False, str(where), why)
    for v in res["violations"]:
        site = v["writer"].split(" at ")[-1] if " at " in v["writer"] else ""
        rep.add("A1", "%s:%s@%s" % (v["kind"], v["writer"].split(" at ")[0], site.split(" (")[0]), False, site,
                "writer emits %s after [...%s]; reader at %s expects %s" % (v["writer"], ", ".join(v.get("trail", [])[-3:]), v.get("reader_sites"), v.get("reader_expects")))
    pairs = {}
    for wl, rl, ww, rw in res["matched"]:
        pairs.setdefault((str(wl), ww.split(" (")[0]), set()).add(rw.split(" (")[0])
    for (wl, wfn), rfns in sorted(pairs.items()):
        rep.add("A1", "accepted:%s@%s" % (wl, wfn), True, "", "consumed by the reader in %s" % sorted(rfns))
    rep.add("A1", "inclusion:expand_zlib_chunks<=recreated_zlib_chunks", not res["violations"], "",
            "%d product states, writer labels %s" % (res["pairs"], sorted(map(str, res["wlabels"]))))
    rep.floor("A1", "writer-event-sites", len(W.static_sites(PC + "expand_zlib_chunks")), 8)
    rep.floor("A1", "reader-event-sites", len(R.static_sites(PC + "recreated_zlib_chunks")), 5)
    tags = {l[2] for l in res["wlabels"] if l[0] == "bytes" and l[1] == 1 and l[2] is not None}
    if not res["violations"]:
        rep.floor("A1", "writer-ok-exit", res["ok_exits"], 1)
        rep.floor("A1", "tag/version-constants", len(tags), 3)
    return res


_VEC_READ = re.compile(r"(Vec::(new|with_capacity|len|is_empty|iter|as_slice|capacity|clone)|Deref>?::deref|Index>?::index|IntoIterator>?::into_iter|"
                       r"slice::(.*::)?(iter|len|is_empty)$|iter::.*::(sum|map|fold|count)$|Debug>?::fmt|fmt::Arguments|Argument|core::fmt::rt::)")
_VEC_PUSH = re.compile(r"Vec::push$")
_W = {"u8": 8, "u16": 16, "u32": 32, "u64": 64, "usize": 64}


def _guarded_ne(b, bb, opnd, K):
    """Is the call in block bb dominated by the `!=` edge of a test of this value (compared on its canonical descriptor,
    which sees through copies and casts) against K?  Narrowing casts between the tested and the used value are accepted
    only when the value was at most that wide somewhere earlier in its history."""
    want = flow.describe(b, opnd)
    hit = False
    for sb in sorted(b.normal_blocks()):
        t = b.term(sb)
        if t["k"] != "switch" or len(t["targets"]) != 1:
            continue
        p = op_place(t["d"])
        dd = b.single_def(p["l"]) if p is not None and not p["p"] else None
        if not (dd and dd[2] == "assign" and dd[3]["k"] == "binop" and dd[3]["op"] in ("Eq", "Ne")):
            continue
        l, r = dd[3]["l"], dd[3]["r"]
        kl, kr = flow.const_eval(b, l), flow.const_eval(b, r)
        if kr == K and kl is None:
            x = l
        elif kl == K and kr is None:
            x = r
        else:
            continue
        if flow.describe(b, x) != want:
            continue
        zero_t, other = t["targets"][0][1], t["otherwise"]      # switch on the bool: 0 -> comparison false
        ne_edge = (sb, zero_t) if dd[3]["op"] == "Eq" else (sb, other)
        if b.edge_dominates(ne_edge[0], ne_edge[1], bb):
            hit = True
    if not hit:
        return False, "no dominating test `%s != %d`" % (want, K)
    # cast history of the used value
    widths, cur, hops = [], opnd, 0
    while hops < 12:
        hops += 1
        p = op_place(cur)
        if p is None or p["p"]:
            break
        ty = b.local_ty(p["l"])
        widths.append(_W.get(ty))
        d = b.single_def(p["l"])
        if not d or d[2] != "assign" or d[3]["k"] not in ("use", "cast"):
            break
        cur = d[3]["op"]
    widths = [w for w in widths]          # used value first, origin last
    for i in range(len(widths) - 1):
        w_to, w_from = widths[i], widths[i + 1]
        if w_to is None or w_from is None:
            return False, "cast through a non-integer or signed type"
        if w_to < w_from and not any(w is not None and w <= w_to for w in widths[i + 2:]):
            return False, "narrowing cast to %d bits of a value that was never that narrow" % w_to
    return True, "dominated by `%s != %d`" % (want, K)


def _elements_ne(F, adt, field, K):
    """Every element ever stored in <adt>.<field> (a Vec) differs from K: every construction site of the struct takes the
    field from a local Vec that is only created empty and pushed to, each push is guarded `value != K`, and nobody mutates
    the field through the struct afterwards."""
    notes, n_cons, n_push = [], 0, 0
    from .c13 import _roots_of
    for name, b in sorted(F.bodies.items()):
        for bb, t in b.calls():
            cn = strip_generics(callee_def(t))
            if t["args"] and re.search(r"\.%s\b" % re.escape(field), flow.describe(b, t["args"][0])) and re.search(r"Vec::|slice::", cn) and not _VEC_READ.search(cn):
                return False, "%s mutates .%s through the struct (%s)" % (name, field, cn), 0, 0
        for bb in sorted(b.normal_blocks()):
            for s in b.stmts(bb):
                r = s.get("r") or {}
                if s.get("k") != "assign" or r.get("k") != "agg" or r.get("adt") != adt:
                    continue
                n_cons += 1
                op = r["ops"][r["fields"].index(field)]
                roots = set()
                _roots_of(b, op, roots, set())
                if len(roots) != 1:
                    return False, "%s: field source is not a single local vector" % name, n_cons, n_push
                V = next(iter(roots))
                for cb, ct in b.calls():
                    if not ct["args"]:
                        continue
                    rs = set()
                    _roots_of(b, ct["args"][0], rs, set())
                    cn = strip_generics(callee_def(ct))
                    if V not in rs:
                        # the vector handed to somebody else by &mut ?
                        for a in ct["args"][1:]:
                            rs2 = set()
                            _roots_of(b, a, rs2, set())
                            if V in rs2 and "&mut" in b.local_ty(op_place(a)["l"]) if op_place(a) else False:
                                return False, "%s: vector escapes by &mut into %s" % (name, cn), n_cons, n_push
                        continue
                    if _VEC_PUSH.search(cn):
                        n_push += 1
                        ok, why = _guarded_ne(b, cb, ct["args"][1], K)
                        if not ok:
                            return False, "%s (%s): push of an unguarded value: %s" % (name.replace("preflate_rs::", ""), b.where(cb), why), n_cons, n_push
                    elif not _VEC_READ.search(cn):
                        return False, "%s: vector used by %s (not create/push/read)" % (name, cn), n_cons, n_push
    if n_cons == 0:
        return False, "no construction site of %s found" % adt, 0, 0
    return True, "%d construction site(s), %d guarded push(es)" % (n_cons, n_push), n_cons, n_push


def a1t(F, rep, res):
    """Terminator discipline.  Where the reader ends a repeated item on a decoded value K (`loop { v = read(); if v == K
    { break } .. }`), the writer's items must never be K: otherwise expand writes a list that recreate cuts short."""
    n_term = 0
    for rf in RSCOPE:
        b = F.body(rf)
        for bb in sorted(b.normal_blocks()):
            t = b.term(bb)
            if t["k"] != "switch" or t.get("exp"):
                continue
            m = re.match(r"^(Eq|Ne)\(branch\((?:preflate_rs::)?preflate_container::read_varint\(.*\)\) as Continue\.0, K(\d+)\)$", flow.describe(b, t["d"]))
            if not m:
                continue
            succs = [x for _, x in t["targets"]] + [t["otherwise"]]
            cont = [s for s in succs if bb in b.reachable_from(s)]
            if not cont or len(cont) == len(succs):
                continue
            K = int(m.group(2))
            n_term += 1
            short = rf.replace("preflate_rs::", "")
            wsites = sorted({(wl, ww) for wl, rl, ww, rw in res["matched"] if rl[0] == "varint" and rw.split(" (")[0] == short}, key=str)
            if not wsites:
                rep.add("A1t", "terminator:%s:K%d" % (short, K), False, b.where(bb), "no writer site is paired with this reader loop")
                continue
            for wl, ww in wsites:
                wfn = "preflate_rs::" + ww.split(" (")[0]
                line = int(ww.split(":")[-1].rstrip(")"))
                wb = F.body(wfn)
                if wl[1] is not None:
                    rep.add("A1t", "item-not-terminator:%s:const%s" % (ww.split(" (")[0], wl[1]), True, ww, "constant item %s (the terminator itself or a value that differs from it)" % (wl[1],))
                    continue
                calls = [(cb, ct) for cb, ct in wb.calls() if strip_generics(callee_def(ct)).endswith("write_varint") and ct.get("line") == line]
                if len(calls) != 1:
                    rep.add("A1t", "item-not-terminator:%s" % ww.split(" (")[0], False, ww, "UNRECOGNISED-IDIOM: writer site not identified (%d candidates)" % len(calls))
                    continue
                cb, ct = calls[0]
                ok, why = _guarded_ne(wb, cb, ct["args"][1], K)
                if not ok:
                    d = flow.describe(wb, ct["args"][1])
                    m2 = re.match(r"^next\(into_iter\(iter\(deref\(arg<&(.*)>\.(\w+)\)\)\)\) as Some\.0$", d)
                    if m2:
                        ok, why, _, _ = _elements_ne(F, m2.group(1), m2.group(2), K)
                        why = "items are the elements of %s.%s: %s" % (m2.group(1).split("::")[-1], m2.group(2), why)
                    else:
                        why = "value %s: %s" % (d, why)
                rep.add("A1t", "item-not-terminator:%s" % ww.split(" (")[0], ok, ww,
                        "reader %s ends the list on %d; %s" % (short, K, why))
    rep.floor("A1t", "reader-terminator-loops", n_term, 1)


def a8(F, rep):
    """parse_idat walks the IDAT chunks with three accumulators that describe the same prefix of the file: the collected
    payload, the list of chunk sizes and the byte position.  They are only consistent when every way of leaving the loop
    without an error has passed, in the current iteration, either all of their updates or none (a `break` between two of
    them hands recreate a payload that its size list does not account for)."""
    from .c13 import _roots_of
    from .. import err
    name = "preflate_rs::idat_parse::parse_idat"
    b = F.body(name)
    where = "%s:%s" % (b.file, b.line)
    mut = re.compile(r"Vec::(push|extend_from_slice|extend|append|insert|resize|truncate)$|Extend>?::extend$")
    tainted_cache = {}

    def feeds_result(l):
        if l not in tainted_cache:
            tainted_cache[l] = 0 in flow.taint(b, {l})
        return tainted_cache[l]
    calls = []
    for bb, t in b.calls():
        if mut.search(strip_generics(callee_def(t))) and t["args"]:
            rs = set()
            _roots_of(b, t["args"][0], rs, set())
            rs = {l for l in rs if feeds_result(l)}
            if rs:
                calls.append((bb, "%s(%s)" % (strip_generics(callee_def(t)).split("::")[-1], ",".join(sorted(b.locals[l].get("name") or "_%d" % l for l in rs)))))
    if not calls:
        rep.add("A8", "idat-accumulators", False, where, "ANCHOR-MISSING: no accumulator update found in parse_idat")
        return
    # the walk is the loop: updates after it (trimming header and trailer off the collected payload) are not accumulations
    in_cycle = [c for c in calls if any(c[0] in b.reachable_from(s2) for s2 in b.succ(c[0]))]
    anchor = (in_cycle or calls)[-1][0]
    L = {x for x in b.normal_blocks() if anchor in b.reachable_from(x) and x in b.reachable_from(anchor)}
    if anchor not in L or len(L) < 2:
        rep.add("A8", "idat-accumulators", False, where, "UNRECOGNISED-IDIOM: the accumulator updates are not inside a loop")
        return
    heads = [x for x in L if any(p not in L for p in b.pred(x))]
    if len(heads) != 1:
        rep.add("A8", "idat-accumulators", False, where, "UNRECOGNISED-IDIOM: loop with %d entry blocks" % len(heads))
        return
    h = heads[0]
    sites = [(bb, what) for bb, what in calls if bb in L]
    # scalar accumulators: integer locals assigned before the loop and again inside it that feed the result
    for l in range(1, len(b.locals)):
        if not re.match(r"^[ui](8|16|32|64|size)$", b.local_ty(l)) or not b.locals[l].get("name"):
            continue
        ds = b.defs(l)
        inside = [d for d in ds if d[0] in L]
        outside = [d for d in ds if d[0] not in L and d[2] != "arg"]
        if inside and outside and feeds_result(l):
            for d in inside:
                sites.append((d[0], "%s=" % b.locals[l]["name"]))
    rep.floor("A8", "accumulator-updates-in-loop", len(sites), 3)

    def reach(src, dst, avoid):
        """dst reachable from src inside one iteration (no edge back into the header), not entering `avoid`."""
        seen, st = set(), [src]
        while st:
            x = st.pop()
            if x in seen or x in avoid or x not in L:
                continue
            seen.add(x)
            if x == dst:
                return True
            for y in b.succ(x):
                if y != h:
                    st.append(y)
        return dst in seen
    producers = {bb for bb, _ in err.result_producers(b, F)}
    bad = []
    n_exit = 0
    for x in sorted(L):
        for y in b.succ(x):
            if y in L:
                continue
            if not (producers & b.reachable_from(y)):
                continue                      # this way out only ever reports an error
            n_exit += 1
            for a, wa in sites:
                for c, wc in sites:
                    if a == c:
                        continue
                    if reach(h, a, {c}) and reach(a, x, {c}):
                        bad.append("leaving the loop at %s after %s but without %s" % (b.where(x), wa, wc))
    rep.add("A8", "idat-accumulators-advance-together", not bad and n_exit >= 1, where,
            "%d update sites %s, %d non-error exits: each exit has passed all of them or none in its iteration" % (len(sites), [w for _, w in sites], n_exit)
            if not bad else "; ".join(sorted(set(bad))[:3]))


def a9(F, rep):
    """Every chunk the scanner records for an accepted stream must account for exactly the bytes that stream consumed:
    the arm either advances the cursor by `res.compressed_size`, or — when the extent of the chunk comes from somewhere
    else (the IDAT chunk lengths) — compares `res.compressed_size` with the payload it handed to the decoder.  Otherwise
    bytes the decoder ignored behind the last block are dropped from the container and recreate cannot restore them."""
    from .c13 import _roots_of
    b = F.body("preflate_rs::scan_deflate::split_into_deflate_streams")
    idx = set(b.locals_named("index"))
    n = 0
    for bb in sorted(b.normal_blocks()):
        for s in b.stmts(bb):
            r = s.get("r") or {}
            if s.get("k") != "assign" or r.get("k") != "agg" or r.get("adt") != "preflate_rs::scan_deflate::BlockChunk" or r.get("vname") == "Literal":
                continue
            n += 1
            res_ops = [o for o, f in zip(r["ops"], r["fields"]) if True]
            roots = set()
            for o in r["ops"]:
                p = op_place(o)
                hops = 0
                while p is not None and "DecompressResult" in b.local_ty(p["l"]) and hops < 12:
                    hops += 1
                    if b.local_ty(p["l"]).startswith("preflate_rs::preflate_container::DecompressResult"):
                        roots.add(p["l"])             # every local on the move chain that *is* the result value
                    d = b.single_def(p["l"])
                    if d is None:
                        ds0 = b.defs(p["l"])
                        if ds0 and all(x[2] == "assign" and x[3].get("k") == "use" and op_place(x[3]["op"]) == op_place(ds0[0][3]["op"]) for x in ds0 if x[2] == "assign") and all(x[2] == "assign" for x in ds0):
                            d = ds0[0]                  # copied from one and the same place on every path
                    if d is None:
                        # a result that is Some(..)/Ok(..) in one place and None / an error everywhere else
                        ds0 = b.defs(p["l"])
                        hit = [x for x in ds0 if x[2] == "assign" and x[3].get("k") == "agg" and x[3].get("vname") in ("Some", "Ok")]
                        rest = [x for x in ds0 if x not in hit]
                        if len(hit) == 1 and all((x[2] == "assign" and x[3].get("k") == "agg" and x[3].get("vname") in ("None", "Err")) or
                                                 (x[2] == "call" and callee_def(x[3]).endswith("from_residual")) or
                                                 (x[2] == "assign" and x[3].get("k") == "use" and op_place(x[3]["op"]) is not None) for x in rest):
                            d = hit[0]
                    if d and d[2] == "assign" and d[3]["k"] == "agg" and p["p"]:
                        # a component taken out of a tuple / Some(..) / Ok(..) built in one place: continue with that component
                        fs = [e["f"] for e in p["p"] if isinstance(e, dict) and "f" in e]
                        if fs and fs[0] < len(d[3].get("ops", [])):
                            q = op_place(d[3]["ops"][fs[0]])
                            rest = fs[1:]
                            p = {"l": q["l"], "p": q["p"] + [{"f": x} for x in rest]} if q is not None else None
                            continue
                        break
                    if not d or d[2] != "assign" or d[3]["k"] != "use":
                        break
                    q = op_place(d[3]["op"])
                    # the projections still to be resolved travel along
                    p = {"l": q["l"], "p": q["p"] + p["p"]} if q is not None else None
            used = []
            for l in roots:
                for rb in sorted(b.normal_blocks()):
                    if not (b.dominates(rb, bb) or rb == bb):
                        continue
                    for s2 in b.stmts(rb):
                        r2 = s2.get("r") or {}
                        if s2.get("k") != "assign" or r2.get("k") != "use":
                            continue
                        p2 = op_place(r2["op"])
                        if p2 is None or p2["l"] != l or not any(isinstance(e, dict) and e.get("n") == "compressed_size" for e in p2["p"]):
                            continue
                        t = flow.taint(b, {s2["p"]["l"]})
                        to_index = bool(t & idx)
                        to_test = any(b.term(x)["k"] == "switch" and op_place(b.term(x)["d"]) is not None and op_place(b.term(x)["d"])["l"] in t and b.dominates(x, bb) for x in b.normal_blocks())
                        if to_index or to_test:
                            used.append("advances the cursor" if to_index else "is compared before the chunk is recorded")
            rep.add("A9", "consumed-length-accounted:%s#%d" % (r.get("vname"), sum(1 for k in rep.obs if k.rule == "A9" and str(k.instance).startswith("consumed-length-accounted:%s#" % r.get("vname")))),
                    bool(used), b.where(bb), "res.compressed_size %s" % (sorted(set(used)) if used else "is never read in this arm: the chunk's extent does not depend on what the decoder consumed"))
    rep.floor("A9", "recorded-stream-chunks", n, 4)


def a11(F, rep):
    """The container reader accepts everything the writer can write: beyond I/O errors and errors of the reconstruction it
    propagates, it refuses exactly an unknown version byte and an unknown chunk tag.  A plausibility check on a decoded length
    ("corrections are never longer than the text") rejects containers expand has produced."""
    n = 0
    for fn, allowed in ((PC + "recreated_zlib_chunks", 1), (PC + "read_chunk_block", 1)):
        b = F.body(fn)
        own = []
        for bb in sorted(b.normal_blocks()):
            for s in b.stmts(bb):
                r = s.get("r") or {}
                if s.get("k") == "assign" and s["p"]["l"] == 0 and not s["p"]["p"] and r.get("k") == "agg" and r.get("adt") == "std::result::Result" and r.get("vname") == "Err":
                    own.append(b.where(bb))
            t = b.term(bb)
            if t["k"] == "call" and t.get("dest") and t["dest"]["l"] == 0 and not t["dest"]["p"]:
                from .. import err
                c = t["callee"]
                lc = c.get("resolved") if c.get("rlocal") else (c.get("def") if c.get("local") else None)
                if lc and err.always_err(F, lc):
                    own.append(b.where(bb))
        n += len(own)
        rep.add("A11", "reader-refuses-only-version-and-tag:%s" % fn.split("::")[-1], len(own) <= allowed, "%s:%s" % (b.file, b.line),
                "errors constructed by the function itself: %s (expected at most %d: %s)" % (own, allowed, "bad version byte" if "recreated" in fn else "unknown chunk tag"))
    rep.floor("A11", "own-error-sites", n, 2)


def a2(F, rep):
    names = ["LITERAL_CHUNK", "DEFLATE_STREAM", "PNG_COMPRESSED"]
    vals = {}
    for n in names:
        try:
            vals[n] = F.const_int(PC + n)
        except Exception:
            pass
    if len(vals) >= 2:
        rep.add("A2", "chunk-tags-distinct", len(set(vals.values())) == len(vals), "", "tags %r" % vals)
    # the tag constants the writer emits are distinct whatever they are called
    wb = F.body(PC + "write_chunk_block")
    seen = []
    A = alpha.Container("w", WSCOPE, F)
    for bb, t in wb.calls():
        if A._kind(t) == "write_all":
            n, v, _ = alpha.buffer_shape(wb, t["args"][1])
            if n == 1 and v is not None:
                seen.append(v)
    rep.add("A2", "written-tags-distinct", len(seen) == len(set(seen)) and len(seen) >= 3, "%s:%s" % (wb.file, wb.line), "tags written by write_chunk_block: %r" % seen)
    # varint constants
    def consts(fn):
        b = F.body(PC + fn)
        out = set()
        for bb in b.normal_blocks():
            for s in b.stmts(bb):
                if s["k"] == "assign" and s["r"]["k"] == "binop":
                    op = s["r"]["op"].replace("WithOverflow", "")
                    if op in ("BitAnd", "BitOr", "Shr", "Shl", "Add"):
                        for o in (s["r"]["l"], s["r"]["r"]):
                            c = const_int(op_const(o)) if op_const(o) else None
                            if c is not None:
                                out.add(("mask" if op in ("BitAnd", "BitOr") else "shift", c))
        return out
    w, r = consts("write_varint"), consts("read_varint")
    need = {("mask", 0x7F), ("mask", 0x80), ("shift", 7)}
    rep.add("A2", "varint-constants", need <= w and need <= r, "", "write_varint uses %s, read_varint uses %s" % (sorted(w), sorted(r)))


def a3(F, rep):
    n = 0
    for name, b in sorted(F.bodies.items()):
        if not name.startswith("preflate_rs::scan_deflate::"):
            continue
        for bb, t in b.calls():
            if strip_generics(callee_def(t)) == PC + "decompress_deflate_stream":
                n += 1
                v = flow.const_eval(b, t["args"][1])
                k = "%s#%d" % (name.split("::")[-1], sum(1 for bb2, t2 in b.calls() if bb2 < bb and strip_generics(callee_def(t2)) == PC + "decompress_deflate_stream"))
                rep.add("A3", "verify-true:" + k, v == 1, b.where(bb), "verify argument evaluates to %r" % v)
    rep.floor("A3", "scanner-probes", n, 4)


def run(ctx, rep):
    F = ctx.lib
    rep.explanation = (
        "Static necessary conditions of the container identity: protocol inclusion between the chunk writer and reader "
        "(value-refined on tags and the version byte), tag/varint constant agreement, every scanner probe verifies, the scanner's "
        "cursor/coverage invariant by affine dataflow, linear-guard bounds for every access to the untrusted slice in the scanner "
        "and the IDAT parser, and a reviewed table of explicit failure constructs under expand/recreate.")
    rep.trusted = ["reconstruction of an accepted stream is exact because the scanner verified it (A3) — run-time fact, not re-proved",
                   "std::io contracts of write_all/read_exact"]
    res = a1(F, rep)
    a1t(F, rep, res)
    a8(F, rep)
    a9(F, rep)
    a11(F, rep)
    from . import c02
    c02.m8(F, rep, "A10")        # recreate cannot answer Ok for a stored stream without reconstructing it
    a2(F, rep)
    a3(F, rep)
    from . import scan
    scan.a4_a5(ctx, rep)
    from . import site
    site.a6(ctx, rep)
