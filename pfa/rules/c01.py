"""C01 — container round trip is exact and total (structural clauses).

A1 PROTO-C: the byte-level sequence expand_zlib_chunks writes (version byte, chunk tag, varints, payloads,
   IDAT descriptor) is accepted by recreated_zlib_chunks, with tag constants bound to the reader's match arms.
A2 CONST: chunk tags pairwise distinct; varint reader/writer use the same group width / continuation constants.
A3 FLOW: every probe of the scanner calls decompress_deflate_stream with verify = true.
A4 AFF: coverage invariant of the scanner (rules/scan.py).   A5 LIN: bounds of accesses to the untrusted slice.
A6 SITE: explicit failure constructs under expand/recreate (shared table with C05).
Not decided: that accepted streams reconstruct (run-time comparison under verify=true); value relations between
idat_parse and the deflate parser (bytes between last block and Adler-32, zero-length IDAT chunk).
"""
import re
from .. import flow, proto, alpha
from ..facts import op_place, callee_def, const_int, op_const
from ..common import strip_generics, PC

WSCOPE = [PC + "expand_zlib_chunks", PC + "write_chunk_block", "preflate_rs::idat_parse::IdatContents::write_to_bytestream"]
RSCOPE = [PC + "recreated_zlib_chunks", PC + "read_chunk_block", "preflate_rs::idat_parse::IdatContents::read_from_bytestream"]


def a1(F, rep):
    W = proto.Machine(F, alpha.Container("w", WSCOPE, F), "w")
    R = proto.Machine(F, alpha.Container("r", RSCOPE, F), "r")
    res = proto.check(W, PC + "expand_zlib_chunks", R, PC + "recreated_zlib_chunks", alpha.match_container)
    for where, why in W.unrecognised + R.unrecognised:
        rep.add("A1", "UNRECOGNISED-IDIOM:%s" % why[:60], False, str(where), why)
    for v in res["violations"]:
        site = v["writer"].split(" at ")[-1] if " at " in v["writer"] else ""
        rep.add("A1", "%s:%s@%s" % (v["kind"], v["writer"].split(" at ")[0], site.split(" (")[0]), False, site,
                "writer emits %s after [...%s]; reader at %s expects %s" % (v["writer"], ", ".join(v.get("trail", [])[-3:]), v.get("reader_sites"), v.get("reader_expects")))
    pairs = {}
    for wl, rl, ww, rw in res["matched"]:
        pairs.setdefault((str(wl), ww.split(" (")[0]), set()).add(rw.split(" (")[0])
    for (wl, wfn), rfns in sorted(pairs.items()):
        rep.add("A1", "accepted:%s@%s" % (wl, wfn), True, "", "consumed by the reader in %s" % sorted(rfns))
    rep.add("A1", "inclusion:expand_zlib_chunks<=recreated_zlib_chunks", not res["violations"], "",
            "%d product states, writer labels %s" % (res["pairs"], sorted(map(str, res["wlabels"]))))
    rep.floor("A1", "writer-event-sites", len(W.static_sites(PC + "expand_zlib_chunks")), 15)
    rep.floor("A1", "reader-event-sites", len(R.static_sites(PC + "recreated_zlib_chunks")), 9)
    tags = {l[2] for l in res["wlabels"] if l[0] == "bytes" and l[1] == 1 and l[2] is not None}
    if not res["violations"]:
        rep.floor("A1", "writer-ok-exit", res["ok_exits"], 1)
        rep.floor("A1", "tag/version-constants", len(tags), 3)
    return res


def a2(F, rep):
    names = ["LITERAL_CHUNK", "DEFLATE_STREAM", "PNG_COMPRESSED"]
    vals = {}
    for n in names:
        try:
            vals[n] = F.const_int(PC + n)
        except Exception:
            pass
    if len(vals) >= 2:
        rep.add("A2", "chunk-tags-distinct", len(set(vals.values())) == len(vals), "", "tags %r" % vals)
    # the tag constants the writer emits are distinct whatever they are called
    wb = F.body(PC + "write_chunk_block")
    seen = []
    A = alpha.Container("w", WSCOPE, F)
    for bb, t in wb.calls():
        if A._kind(t) == "write_all":
            n, v, _ = alpha.buffer_shape(wb, t["args"][1])
            if n == 1 and v is not None:
                seen.append(v)
    rep.add("A2", "written-tags-distinct", len(seen) == len(set(seen)) and len(seen) >= 3, "%s:%s" % (wb.file, wb.line), "tags written by write_chunk_block: %r" % seen)
    # varint constants
    def consts(fn):
        b = F.body(PC + fn)
        out = set()
        for bb in b.normal_blocks():
            for s in b.stmts(bb):
                if s["k"] == "assign" and s["r"]["k"] == "binop":
                    op = s["r"]["op"].replace("WithOverflow", "")
                    if op in ("BitAnd", "BitOr", "Shr", "Shl", "Add"):
                        for o in (s["r"]["l"], s["r"]["r"]):
                            c = const_int(op_const(o)) if op_const(o) else None
                            if c is not None:
                                out.add(("mask" if op in ("BitAnd", "BitOr") else "shift", c))
        return out
    w, r = consts("write_varint"), consts("read_varint")
    need = {("mask", 0x7F), ("mask", 0x80), ("shift", 7)}
    rep.add("A2", "varint-constants", need <= w and need <= r, "", "write_varint uses %s, read_varint uses %s" % (sorted(w), sorted(r)))


def a3(F, rep):
    n = 0
    for name, b in sorted(F.bodies.items()):
        if not name.startswith("preflate_rs::scan_deflate::"):
            continue
        for bb, t in b.calls():
            if strip_generics(callee_def(t)) == PC + "decompress_deflate_stream":
                n += 1
                v = flow.const_eval(b, t["args"][1])
                k = "%s#%d" % (name.split("::")[-1], sum(1 for bb2, t2 in b.calls() if bb2 < bb and strip_generics(callee_def(t2)) == PC + "decompress_deflate_stream"))
                rep.add("A3", "verify-true:" + k, v == 1, b.where(bb), "verify argument evaluates to %r" % v)
    rep.floor("A3", "scanner-probes", n, 4)


def run(ctx, rep):
    F = ctx.lib
    rep.explanation = (
        "Static necessary conditions of the container identity: protocol inclusion between the chunk writer and reader "
        "(value-refined on tags and the version byte), tag/varint constant agreement, every scanner probe verifies, the scanner's "
        "cursor/coverage invariant by affine dataflow, linear-guard bounds for every access to the untrusted slice in the scanner "
        "and the IDAT parser, and a reviewed table of explicit failure constructs under expand/recreate.")
    rep.trusted = ["reconstruction of an accepted stream is exact because the scanner verified it (A3) — run-time fact, not re-proved",
                   "std::io contracts of write_all/read_exact"]
    a1(F, rep)
    a2(F, rep)
    a3(F, rep)
    from . import scan
    scan.a4_a5(ctx, rep)
    from . import site
    site.a6(ctx, rep)
