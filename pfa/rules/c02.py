"""C02 — stream split/reconstruct is bit-exact whenever the split succeeds (structural clauses).

M1 PROTO-A: every correction-stream operation sequence the analyser can emit on an Ok path is one the
   reconstructor consumes (value-refined inclusion, see pfa/proto.py).
M2 FLOW: nothing that reaches the returned DecompressResult is written inside the `verify` region.
M3 FLOW: `compressed_data` reaches the result only through parse_deflate; its only other use is the
   comparison operand inside the verify region (and logging).
M4 SIB: calculate_hops / hop_match agree on iteration start, bound and comparison (rules/sib.py).
Not decided: that predict_token evolves identically on both sides for every input (run-time state).
"""
import re
from .. import flow, proto, alpha
from ..facts import op_place, callee_def
from ..common import strip_generics, PC

W_ENTRY = PC + "decompress_deflate_stream"
R_ENTRY = PC + "recompress_deflate_stream"


def m1(F, rep, rule="M1", wentry=W_ENTRY, rentry=R_ENTRY, floors=True, state=False):
    W = proto.Machine(F, alpha.CorrectionStream("w", state=state), "w")
    R = proto.Machine(F, alpha.CorrectionStream("r", state=state), "r")
    res = proto.check(W, wentry, R, rentry, alpha.match_correction)
    for where, why in W.unrecognised + R.unrecognised:
        rep.add(rule, "UNRECOGNISED-IDIOM:%s" % why[:60], False, str(where), why)
    for v in res["violations"]:
        inst = "%s:%s" % (v["kind"], v["writer"].split(" at ")[0])
        site = v["writer"].split(" at ")[-1] if " at " in v["writer"] else ""
        fn = site.split(" (")[0]
        rep.add(rule, "%s@%s" % (inst, fn), False, site,
                "writer emits %s after [...%s]; reader at %s expects %s" % (v["writer"], ", ".join(v.get("trail", [])[-3:]), v.get("reader_sites"), v.get("reader_expects")))
    # one discharged obligation per writer event site pair
    pairs = {}
    for wl, rl, ww, rw in res["matched"]:
        pairs.setdefault((str(wl), ww.split(" (")[0]), set()).add(rw.split(" (")[0])
    for (wl, wfn), rfns in sorted(pairs.items()):
        rep.add(rule, "accepted:%s@%s" % (wl, wfn), True, "", "consumed by the reader in %s" % sorted(rfns))
    rep.add(rule, "inclusion:%s<=%s" % (wentry.split("::")[-1], rentry.split("::")[-1]), not res["violations"], "",
            "%d product states, %d writer labels, %d reader labels, writer Ok-exits reached: %d" % (res["pairs"], len(res["wlabels"]), len(res["rlabels"]), res["ok_exits"]))
    rep.stats.setdefault("proto", {})[rule] = {"pairs": res["pairs"], "wlabels": len(res["wlabels"]), "rlabels": len(res["rlabels"])}
    if floors:
        if not res["violations"]:
            rep.floor(rule, "writer-ok-exit", res["ok_exits"], 1)
        wl_all = set(W.sites) | res["wlabels"]
        rl_all = set(R.sites) | res["rlabels"]
        corr_w = {l[1] for l in wl_all if l[0] == "corr"}
        corr_r = {l[1] for l in rl_all if l[0] == "corr"}
        mis_w = {l[1] for l in wl_all if l[0] == "mis"}
        mis_r = {l[1] for l in rl_all if l[0] == "mis"}
        rep.floor(rule, "correction-contexts-writer", len(corr_w), 10)
        rep.floor(rule, "correction-contexts-reader", len(corr_r), 10)
        rep.floor(rule, "misprediction-contexts-writer", len(mis_w), 7)
        rep.floor(rule, "misprediction-contexts-reader", len(mis_r), 7)
        rep.floor(rule, "verify-state-labels", len({l for l in res["wlabels"] if l[0] == "vs"}), 1)
        rep.floor(rule, "writer-event-sites", len(W.static_sites(wentry)), 40)
        rep.floor(rule, "reader-event-sites", len(R.static_sites(rentry)), 30)
    return res, W, R


def m1s(F, rep, rule):
    res, W, R = m1(F, rep, rule=rule, floors=False, state=True)
    if not res["violations"]:
        rep.floor(rule, "state-mutation-kinds-writer", len({l[1] for l in res["wlabels"] if l[0] == "st"}), 5)
        rep.floor(rule, "state-mutation-kinds-reader", len({l[1] for l in res["rlabels"] if l[0] == "st"}), 5)
    return res


def run(ctx, rep):
    F = ctx.lib
    rep.explanation = (
        "Protocol inclusion decided on the MIR: the correction-stream operations on every Ok path of the analyser "
        "(parameter header, block/tree/token corrections, EOF signalling) form a language included in the one the "
        "reconstructor reads, with writer constants bound to the reader's decoded values; plus two information-flow "
        "rules on decompress_deflate_stream (result independent of `verify`, result depends on the input only through "
        "parse_deflate); the same inclusion with every mutation of the shared predictor state as an event (analysis and "
        "reconstruction drive the predictor identically); every Huffman/extra-bits write is at most 25 bits wide (bit-buffer "
        "capacity) and the reference arm of the block writer is complete. Necessary conditions of bit-exact reconstruction for every stream; the value-level behaviour of "
        "the shared predictor is not decided.")
    rep.trusted = ["Ok/Err and constant propagation of the abstract interpreter (pfa/proto.py) over-approximates writer paths",
                   "trait-method calls on the codec are the only way to touch the correction stream (type system)"]
    m1(F, rep)
    # M1s: the same inclusion with every mutation of the shared predictor state (update_hash, advance, predict_token,
    # repredict_reference, commit_token — with their constant arguments) as additional events: analysis and
    # reconstruction must drive the predictor with the same operations at the same points of the correction stream
    m1s(F, rep, "M1s")
    _m2_m3(F, rep)
    m7(F, rep)
    m8(F, rep)
    m10(F, rep)
    m12(F, rep)
    m13(F, rep)
    from .c03 import t12 as _t12, t13 as _t13
    _t12(F, rep)
    _t13(F, rep)
    # M5: the parameters the analysis predicted with are the ones reconstruction reads back: every header field fits its width
    # (a truncated field is "accepted and then reconstructed differently"); same rule as C08/P3
    from . import ub
    ub.p3(ctx, rep, rule="M5")
    from . import sib
    sib.m4(F, rep)
    sib.resets(F, rep, "M9")
    from . import c04 as _c04
    _c04.rejections_rule(ctx, rep, "M11")
    # M6: the block writer that reconstruction ends in (shared with C07/W2): reference tokens keep their distance,
    # every bit write fits the 32-bit bit buffer
    from . import c07
    from ..core import Report
    tmp = Report("tmp", "quick")
    c07.w2(F, tmp)
    c07.w2b(ctx, tmp)
    c07.w6(F, tmp)          # captured padding bits are replayed exactly (non-zero padding is accepted input)
    c07.w7(F, tmp)          # tokens are written with the codes of their own block's header
    c07.w9(F, tmp)          # padding is written where and as captured
    from . import c03
    c03.t9(F, tmp)          # single canonical-code construction on the reader side
    for o in tmp.obs:
        o.rule = "M6"
        rep.obs.append(o)


def m7(F, rep, rule="M7"):
    """Reconstruction uses the decoded values as they are.  A constant clamp / mask / saturation of a value that came out of
    decode_value / decode_correction is accepted only when it cannot bite, i.e. the upper bound of the clamped expression
    (field width of the decoded value, pfa/ub.py) does not exceed the constant; otherwise the analysis side can write a value
    that reconstruction silently replaces (same number of bits consumed, different bytes written)."""
    from ..ub import UB, INF
    U = UB(F)
    roots = F.roots_for([R_ENTRY])
    par = F.reach(roots)
    defs = sorted({F.inst(i)["def"] for i in par if F.inst(i)["local"] and F.inst(i)["def"] in F.bodies and "cabac_codec" not in F.inst(i)["def"]})
    n_dec = n_cl = 0
    for dn in defs:
        b = F.bodies[dn]
        dec = [t["dest"]["l"] for bb, t in b.calls() if re.search(r"::decode_(value|correction)$", strip_generics(callee_def(t)))]
        if not dec:
            continue
        n_dec += len(dec)
        tainted = flow.taint(b, set(dec))
        for bb, t in b.calls():
            cn = strip_generics(callee_def(t))
            m = re.search(r"(cmp::min|Ord::min|::clamp|saturating_sub|saturating_add)$", cn)
            if not m or len(t["args"]) < 2:
                continue
            ops = t["args"]
            ks = [flow.const_eval(b, a) for a in ops]
            vs = [a for a, k in zip(ops, ks) if k is None and op_place(a) is not None and op_place(a)["l"] in tainted]
            if not vs or all(k is None for k in ks):
                continue
            n_cl += 1
            k = min(x for x in ks if x is not None)
            ub = max(U.operand(b, a, bb) for a in vs)
            short = dn.replace("preflate_rs::", "")
            rep.add(rule, "decoded-value-not-clamped:%s:%s" % (short.split("::")[-1], m.group(1).split("::")[-1]), ub != INF and ub <= k, b.where(bb),
                    "%s(%s) with constant %d: the clamped value can be as large as %s" % (m.group(1), ", ".join(flow.describe(b, a)[:80] for a in ops), k, ub))
    rep.add(rule, "decoded-values-used-as-read", True, "", "%d decode sites in %d reconstruction functions, %d constant clamps examined" % (n_dec, len(defs), n_cl))
    rep.floor(rule, "decode-sites-on-reconstruction-path", n_dec, 15)


def m8(F, rep, rule="M8"):
    """recompress_deflate_stream has one way to succeed: through the reconstruction.  Every non-error result is the Ok
    payload of decode_mispredictions (behind its `?`), so no input-dependent shortcut (`if plain_text.is_empty() { return
    Ok(vec![]) }`) can answer for a stream the analysis accepted."""
    from .. import err
    b = F.body(R_ENTRY)
    where = "%s:%s" % (b.file, b.line)
    prods = err.result_producers(b, F)
    dm = [(bb, t) for bb, t in b.calls() if strip_generics(callee_def(t)).endswith("process::decode_mispredictions")]
    ok = len(dm) == 1 and bool(prods)
    why = []
    if ok:
        ti = err.try_info(b, dm[0][1]["dest"]["l"])
        for pb, what in prods:
            dom = ti is not None and any(b.edge_dominates(a, s2, pb) for a, s2 in ti["continue_edges"])
            val = [flow.describe_rvalue(b, s["r"], names=False) for s in b.stmts(pb) if s.get("k") == "assign" and s["p"]["l"] == 0 and not s["p"]["p"]]
            good_val = any(re.match(r"^Ok\{branch\((preflate_rs::)?process::decode_mispredictions\(", v) for v in val)
            if not (dom and good_val):
                ok = False
                why.append("%s at %s is not the result of the reconstruction" % (what, b.where(pb)))
    rep.add(rule, "ok-only-through-reconstruction", ok, where, "; ".join(why) if why else "%d result site(s), each behind decode_mispredictions(..)? and returning its payload" % len(prods))


def m10(F, rep, rule="M10"):
    """The reconstruction decides "this is the last block" by running out of input; the analysis tells predict_block the
    same thing through its last_block argument, and a block flagged last leaves its token count implicit.  The flag must
    therefore be exactly "this is the final element of the block list" — any wider notion (the last block with tokens, the
    last Huffman block ...) drops a count the reconstruction needs.  ⚠ enumerated forms: i == len-1, i+1 == len, i == len.saturating_sub(1)."""
    b = F.body("preflate_rs::process::predict_blocks")
    where = "%s:%s" % (b.file, b.line)
    calls = [(bb, t) for bb, t in b.calls() if strip_generics(callee_def(t)).endswith("TokenPredictor::predict_block")]
    LEN = r"len\(var\(blocks\)\)"
    forms = [r"^Eq\((.+), Sub\(%s, K1\)(\.0)?\)$" % LEN, r"^Eq\(Sub\(%s, K1\)(\.0)?, (.+)\)$" % LEN,
             r"^Eq\(Add\((.+), K1\)(\.0)?, %s\)$" % LEN, r"^Eq\(%s, Add\((.+), K1\)(\.0)?\)$" % LEN,
             # the flag is only evaluated inside the loop over `blocks`, where len >= 1: saturating_sub(len, 1) = len - 1
             r"^Eq\((.+), saturating_sub\(%s, K1\)\)$" % LEN, r"^Eq\(saturating_sub\(%s, K1\), (.+)\)$" % LEN]
    ds = [flow.describe(b, t["args"][3], names=True) if len(t["args"]) == 4 else "?" for bb, t in calls]
    ok = bool(calls) and all(any(re.match(f, d) for f in forms) for d in ds)
    rep.add(rule, "last-block-flag=final-element", ok, where, "predict_block(.., last_block = %s)" % ds)


def m13(F, rep, rule="M13"):
    """The rebuilt header's HLIT / HDIST are the *corrected* counts: `result.num_literals` and `result.num_dist` are the
    lengths of the predicted code-length vectors read AFTER the stored count correction resized them.  A length taken before
    the correction (or from anything else) writes the predicted counts into the header whenever the prediction was wrong —
    untrimmed trailing zero lengths — and splits the combined list at the wrong place."""
    from .c11 import _roots
    b = F.body("preflate_rs::tree_predictor::recreate_tree_for_block")
    n = 0
    for field in ("num_literals", "num_dist"):
        stores = [(bb, st) for bb in sorted(b.normal_blocks()) for st in b.stmts(bb)
                  if st["k"] == "assign" and any(isinstance(e, dict) and e.get("n") == field for e in st["p"]["p"])]
        for k, (bb, st) in enumerate(stores):
            n += 1
            ok, why = False, "the stored value is not the length of a vector"
            if st["r"]["k"] in ("use", "cast"):
                o = flow.origin(b, st["r"]["op"])
                lens = [(cb, t) for cb, t in o.calls if strip_generics(callee_def(t)).endswith("Vec::len")]
                if len(lens) == 1 and len(o.calls) == 1 and not (o.exprs or o.args or o.consts or o.unknown):
                    lb, lt = lens[0]
                    vec = _roots(b, lt["args"][0])
                    rs = [cb for cb, t in b.calls() if strip_generics(callee_def(t)).endswith("Vec::resize") and _roots(b, t["args"][0]) == vec]
                    if not rs:
                        why = "no count correction (resize) of that vector"
                    elif all(lb in b.reachable_from(r) for r in rs):
                        ok, why = True, "len() of the vector, read after its count correction"
                    else:
                        why = "len() is read before the count correction resizes the vector"
            rep.add(rule, "header-count-is-the-corrected-length:%s#%d" % (field, k), ok, b.where(bb), why)
    rep.floor(rule, "header-count-stores", n, 2)


def m12(F, rep, rule="M12"):
    """The per-block symbol histogram drives the predicted Huffman header on both sides; the analysis fills it while parsing,
    the reconstruction while re-predicting.  Both get the same histogram only because an entry is a function of the token
    alone: literal -> its byte, reference -> 257 + quantize_length(len) and quantize_distance(dist) of the very len / dist
    stored in the token.  An index taken from anywhere else (the symbol the parser happened to decode, a flag) makes the two
    sides count differently for non-canonical encodings.  ⚠ enumerated index forms."""
    LIT = [r"^arg<u8>(#0)?$", r"^Add\(K257, (preflate_rs::)?preflate_constants::quantize_length\(arg<u32>#0\)\)(\.0)?$",
           r"^Add\((preflate_rs::)?preflate_constants::quantize_length\(arg<u32>#0\), K257\)(\.0)?$", r"^K256$"]
    DIST = [r"^(preflate_rs::)?preflate_constants::quantize_distance\(arg<u32>#1\)$"]
    n = 0
    for name, b in sorted(F.bodies.items()):
        if not name.startswith("preflate_rs::") and not name.startswith("<preflate_rs::"):
            continue
        for bb in sorted(b.normal_blocks()):
            for s in b.stmts(bb):
                if s["k"] != "assign":
                    continue
                pp = s["p"]["p"]
                # a counter may also be stepped through `&mut freq.x[i]` handed to a helper: the borrow is the update site
                if s["r"].get("k") == "ref" and s["r"].get("mut") and any(isinstance(e, dict) and e.get("n") in ("literal_codes", "distance_codes") for e in s["r"]["place"]["p"]):
                    pp = s["r"]["place"]["p"]
                fl = [e.get("n") for e in pp if isinstance(e, dict) and "n" in e]
                ix = [e["i"] for e in pp if isinstance(e, dict) and "i" in e]
                kx = [e for e in pp if isinstance(e, dict) and "ci" in e]
                which = "literal_codes" if "literal_codes" in fl else ("distance_codes" if "distance_codes" in fl else None)
                base_l = s["r"]["place"]["l"] if pp is not s["p"]["p"] else s["p"]["l"]
                if which is None or "freq" not in fl and not b.local_ty(base_l).endswith("TokenFrequency"):
                    continue
                if not ix:
                    continue            # constant index (the end-of-block entry of the default histogram)
                n += 1
                d = flow.describe(b, {"c": {"l": ix[0], "p": []}})
                ok = any(re.match(f, d) for f in (LIT if which == "literal_codes" else DIST))
                rep.add(rule, "histogram-index-from-token:%s:%s" % (name.replace("preflate_rs::", ""), which), ok, b.where(bb), "%s[%s]" % (which, d))
    rep.floor(rule, "histogram-updates", n, 3)


def _m2_m3(F, rep):
    b = F.body(W_ENTRY)
    where = "%s:%s" % (b.file, b.line)
    # ---- locate the verify switch ---------------------------------------------------------------
    al, sk = flow.track(b, {2})
    sw = [s for s in sk if s[0] == "switch"]
    other = [s for s in sk if s[0] not in ("switch", "drop")]
    if len(sw) != 1:
        rep.add("M2", "UNRECOGNISED-IDIOM:verify-switch", False, where, "expected exactly one branch on `verify`, found %d" % len(sw))
        return
    rep.add("M2", "verify-only-branched-on", not other, where,
            "`verify` is used only as a branch condition" if not other else "`verify` flows into %r" % [s[0] for s in other])
    sbb = sw[0][1]
    t = b.term(sbb)
    false_t = [x for v, x in t["targets"] if v == 0]
    false_t = false_t[0] if false_t else None
    true_t = t["otherwise"] if false_t is not None else None
    if true_t is None:
        rep.add("M2", "UNRECOGNISED-IDIOM:verify-switch-shape", False, where, "cannot identify the true/false targets")
        return
    region = b.reachable_from(true_t) - b.reachable_from(false_t)
    rep.floor("M2", "verify-region-blocks", len(region), 5)
    # ---- result roots ---------------------------------------------------------------------------
    roots = set()
    for bb in b.normal_blocks():
        for s in b.stmts(bb):
            if s["k"] == "assign" and s["r"]["k"] == "agg" and s["r"].get("adt", "").endswith("DecompressResult"):
                for o in s["r"]["ops"]:
                    p = op_place(o)
                    if p is not None:
                        roots |= _root_locals(b, p["l"])
    rep.floor("M2", "result-roots", len(roots), 3)
    # mutable aliases of the roots (e.g. the encoder holding &mut cabac_encoded)
    seeds = set()
    for bb in range(b.n):
        for s in b.stmts(bb):
            if s["k"] == "assign" and s["r"]["k"] in ("ref", "rawptr") and s["r"].get("mut") and s["r"]["place"]["l"] in roots:
                seeds.add(s["p"]["l"])
    aliases = _holders(b, seeds)
    bad = []
    for bb in sorted(region):
        for i, s in enumerate(b.stmts(bb)):
            if s["k"] != "assign":
                continue
            if s["p"]["l"] in roots:
                bad.append("bb%d: assignment to result local _%d (%s)" % (bb, s["p"]["l"], b.local_name(s["p"]["l"])))
            r = s["r"]
            if r["k"] in ("ref", "rawptr") and r.get("mut") and r["place"]["l"] in roots:
                bad.append("bb%d: &mut borrow of result local _%d (%s)" % (bb, r["place"]["l"], b.local_name(r["place"]["l"])))
            if flow.rvalue_reads(r) & aliases and s["p"]["l"] not in aliases:
                bad.append("bb%d: use of a mutable alias of the result" % bb)
        t2 = b.term(bb)
        if t2["k"] == "call":
            if t2["dest"]["l"] in roots:
                bad.append("bb%d: call result stored into result local _%d" % (bb, t2["dest"]["l"]))
            if flow.term_reads(t2) & aliases:
                bad.append("bb%d: call %s receives a mutable alias of the result (e.g. the encoder)" % (bb, strip_generics(callee_def(t2))))
    rep.add("M2", "result-not-written-under-verify", not bad, where,
            "; ".join(bad[:4]) if bad else "no write to %s (or to mutable aliases of them) inside the %d-block verify region" % (
                sorted(b.local_name(r) or "_%d" % r for r in roots), len(region)))
    # ---- M3 -----------------------------------------------------------------------------------
    al, sk = flow.track(b, {1})
    n_parse = 0
    for s in sk:
        if s[0] == "drop":
            continue
        if s[0] != "call":
            rep.add("M3", "compressed_data-use:%s" % s[0], False, where, "compressed_data used in a %s" % s[0])
            continue
        _, bb, ai, t2 = s
        n = strip_generics(callee_def(t2))
        if n == "preflate_rs::process::parse_deflate" and ai == 0:
            n_parse += 1
            rep.add("M3", "parse_deflate-input", True, b.where(bb), "the analysed bytes are the caller's slice")
        elif n == "std::ops::Index::index" and ai == 0:
            # slice for comparison: result must flow only into eq/ne, inside the verify region
            al2, sk2 = flow.track(b, {t2["dest"]["l"]})
            uses = [strip_generics(callee_def(x[3])) for x in sk2 if x[0] == "call"]
            oth = [x[0] for x in sk2 if x[0] not in ("call", "drop")]
            ok = bb in region and all(re.search(r"PartialEq::(ne|eq)$", u) for u in uses) and not oth
            rep.add("M3", "comparison-operand-only", ok, b.where(bb),
                    "slice of compressed_data flows to %r %r%s" % (uses, oth, "" if bb in region else " outside the verify region"))
        elif re.search(r"(fmt::|_print|Debug|Display)", n):
            rep.add("M3", "logging-use", True, b.where(bb), n)
        else:
            rep.add("M3", "compressed_data-use:%s" % n, False, b.where(bb),
                    "compressed_data reaches %s (argument %d): the result may depend on bytes beyond compressed_size" % (n, ai))
    rep.floor("M3", "parse_deflate-call", n_parse, 1)


def _root_locals(b, l, seen=None):
    """Locals a value was moved/copied from (through plain uses and field projections)."""
    seen = seen or set()
    if l in seen:
        return set()
    seen.add(l)
    out = {l}
    for bb, idx, kind, payload in b.defs(l):
        if kind == "assign" and payload["k"] == "use" and op_place(payload["op"]) is not None:
            src = op_place(payload["op"])
            if any(isinstance(e, dict) and "dc" in e for e in src["p"]):
                continue   # payload extraction (`x?`): the named local starts here
            out |= _root_locals(b, src["l"], seen)
    return out


def _holders(b, seeds):
    """Locals that may hold (own) a mutable reference derived from the seed borrows: forward through
    moves/copies/aggregates and through call results (a constructor given the reference returns a holder)."""
    h = set(seeds)
    changed = True
    while changed:
        changed = False
        for bb in range(b.n):
            for s in b.stmts(bb):
                if s["k"] == "assign" and s["p"]["l"] not in h and s["r"]["k"] in ("use", "cast", "agg") and flow.rvalue_reads(s["r"]) & h:
                    h.add(s["p"]["l"])
                    changed = True
                if s["k"] == "assign" and s["p"]["l"] not in h and s["r"]["k"] == "ref" and s["r"]["place"]["l"] in h:
                    h.add(s["p"]["l"])
                    changed = True
            t = b.term(bb)
            if t["k"] == "call" and t["dest"]["l"] not in h:
                moved = {op_place(a)["l"] for a in t["args"] if op_place(a) is not None and not op_place(a)["p"]}
                if moved & h and not b.local_ty(t["dest"]["l"]) in ("()", "bool", "u8", "u16", "u32", "u64", "usize"):
                    h.add(t["dest"]["l"])
                    changed = True
    return h
