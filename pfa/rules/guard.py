"""GUARD rules: validation precedes use (dominator queries) and relational argument obligations."""
import re
from .. import flow
from ..facts import op_place, callee_def
from ..common import strip_generics

P = "preflate_rs::"


def _reach_without(b, start, target, removed_edges):
    seen = set()
    work = [start]
    while work:
        x = work.pop()
        if x in seen:
            continue
        seen.add(x)
        if x == target and x != start:
            return True
        for y in b.succ(x):
            if (x, y) in removed_edges:
                continue
            if y == target:
                return True
            work.append(y)
    return False


def prefix_compare_args(F):
    """Every call prefix_compare(s1, s2, X, Y) has X < Y on every path (the function asserts it)."""
    n, bad = 0, []
    for name, b in sorted(F.bodies.items()):
        for cbb, t in b.calls():
            if not strip_generics(callee_def(t)).endswith("hash_chain_holder::prefix_compare"):
                continue
            n += 1
            X = flow.describe(b, t["args"][2], names=True)
            Y = flow.describe(b, t["args"][3], names=True)
            Xe, Ye = flow.describe(b, t["args"][2]), flow.describe(b, t["args"][3])
            short = name.split("::")[-1]
            mm = re.match(r"^Sub\((.*), K(\d+)\)(\.0)?$", Xe)
            if mm and mm.group(1) == Ye and int(mm.group(2)) >= 1:
                continue       # X = Y - k, k >= 1 (the subtraction itself is overflow-checked)
            m = re.match(r"^var\((\w+)\)$", X)
            if not m:
                bad.append("%s: cannot relate %s and %s" % (short, X, Y))
                continue
            v = m.group(1)
            vl = [l for l in b.locals_named(v)]
            if len(vl) != 1:
                bad.append("%s: ambiguous variable %s" % (short, v))
                continue
            # edges on which v < Y is known
            good = set()
            for sb in b.normal_blocks():
                st = b.term(sb)
                if st["k"] != "switch":
                    continue
                d = flow.describe(b, st["d"], names=True)
                f = [x for val, x in st["targets"] if val == 0]
                f = f[0] if f else None
                tr = st["otherwise"]
                if d in ("Ge(var(%s), %s)" % (v, Y), "Le(%s, var(%s))" % (Y, v)) and f is not None:
                    good.add((sb, f))
                if d in ("Lt(var(%s), %s)" % (v, Y), "Gt(%s, var(%s))" % (Y, v)):
                    good.add((sb, tr))
            for dbb, idx, kind, payload in b.defs(vl[0]):
                if kind != "assign":
                    bad.append("%s: %s defined by %s" % (short, v, kind))
                    continue
                src = flow.describe(b, payload["op"], names=True) if payload["k"] in ("use", "cast") else payload["k"]
                ms = re.match(r"^var\((\w+)\)$", src)
                ok = False
                if ms:
                    p0 = ms.group(1)
                    # (i) entry guard:  if Y < max(p0 + 1, ..) { return }   => p0 < Y afterwards
                    for sb in b.normal_blocks():
                        st = b.term(sb)
                        if st["k"] != "switch":
                            continue
                        d = flow.describe(b, st["d"], names=True)
                        if re.match(r"^Lt\(%s, max\(Add\(var\(%s\), K1\)(\.0)?, " % (re.escape(Y), p0), d):
                            f = [x for val, x in st["targets"] if val == 0]
                            if f and b.edge_dominates(sb, f[0], dbb):
                                ok = True
                    # (ii) a guard on the source variable or on v between this definition and the call
                    g2 = set(good)
                    for sb in b.normal_blocks():
                        st = b.term(sb)
                        if st["k"] != "switch":
                            continue
                        d = flow.describe(b, st["d"], names=True)
                        f = [x for val, x in st["targets"] if val == 0]
                        if d == "Ge(var(%s), %s)" % (p0, Y) and f:
                            g2.add((sb, f[0]))
                        if d == "Lt(var(%s), %s)" % (p0, Y):
                            g2.add((sb, st["otherwise"]))
                    if not ok and not _reach_without(b, dbb, cbb, g2):
                        ok = True
                if not ok and not _reach_without(b, dbb, cbb, good):
                    ok = True
                if not ok:
                    bad.append("%s (%s): `%s = %s` can reach the call with %s >= %s (no guard `%s < %s` on the way)" % (
                        short, b.where(dbb), v, src, v, Y, v, Y))
    if n < 3:
        return False, "only %d call sites of prefix_compare found" % n
    return (not bad), ("%d call sites, best_len < max_len established at each" % n) if not bad else "; ".join(bad[:3])


# ---------------------------------------------------------------------------------------------
# X2: validation precedes use

def _switches(b):
    for sb in sorted(b.normal_blocks()):
        st = b.term(sb)
        if st["k"] == "switch":
            f = [x for v, x in st["targets"] if v == 0]
            yield sb, st, flow.describe(b, st["d"], names=True), (f[0] if f else None), st["otherwise"]


def _leads_only_to_err(F, b, start):
    """Every return reachable from `start` carries Err (assignments to _0 on the way are Err aggregates / from_residual / always-Err calls)."""
    blocks = b.reachable_from(start)
    saw = False

    def errish_temp(op, use_bb):
        """`_0 = move tmp` where, on every way from `start`, tmp was last made an error (the result place of a helper that
        was spliced into this function is a temporary of the caller)."""
        p = op_place(op)
        if p is None or p["p"]:
            return False
        defs_in = []
        for dbb, idx, kind, payload in b.defs(p["l"]):
            if dbb not in blocks:
                continue
            if kind == "assign" and payload["k"] == "agg" and payload.get("vname") == "Err":
                defs_in.append(dbb)
            elif kind == "call" and (strip_generics(callee_def(payload)).endswith("err_exit_code") or strip_generics(callee_def(payload)).endswith("from_residual")):
                defs_in.append(dbb)
            else:
                return False
        if not defs_in:
            return False
        # every path from start to the use passes one of those definitions
        seen, work = set(), [start]
        while work:
            x = work.pop()
            if x in seen or x in defs_in:
                continue
            seen.add(x)
            if x == use_bb:
                return False
            work.extend(y for y in b.succ(x) if y in b.normal_blocks())
        return True
    for bb in blocks:
        for s in b.stmts(bb):
            if s["k"] == "assign" and s["p"]["l"] == 0 and not s["p"]["p"]:
                if s["r"]["k"] == "agg" and s["r"].get("vname") == "Err":
                    saw = True
                elif s["r"]["k"] == "use" and errish_temp(s["r"]["op"], bb):
                    saw = True
                else:
                    return False
        t = b.term(bb)
        if t["k"] == "call" and t["dest"]["l"] == 0 and not t["dest"]["p"]:
            n = strip_generics(callee_def(t))
            if n.endswith("err_exit_code") or n.endswith("from_residual"):
                saw = True
            else:
                return False
    return saw


def _ok_blocks(b):
    return [bb for bb in b.normal_blocks() for s in b.stmts(bb)
            if s["k"] == "assign" and s["p"]["l"] == 0 and not s["p"]["p"] and s["r"]["k"] == "agg" and s["r"].get("vname") == "Ok"]


def _call_blocks(b, suffix):
    return [bb for bb, t in b.calls() if strip_generics(callee_def(t)).endswith(suffix)]


def _index_blocks(b, var):
    """Blocks that index something with (a cast of) the named variable."""
    out = []
    for bb in b.normal_blocks():
        for s in b.stmts(bb):
            if s["k"] != "assign":
                continue
            for p in flow.places_in(s["r"]):
                for e in p["p"]:
                    if isinstance(e, dict) and "i" in e and flow.describe(b, {"l": e["i"], "p": []}, names=True) == "var(%s)" % var:
                        out.append(bb)
    return sorted(set(out))


def x2(ctx, rep):
    F = ctx.lib
    RB = P + "deflate_reader::DeflateReader::<R>::read_block"
    DB = P + "deflate_reader::DeflateReader::<R>::decode_block"
    n = 0

    def guard(rule_name, fn, regex, pass_edge, protected, need_fail_err=True, min_protected=1):
        """pass_edge: 'false' or 'true' = the edge on which the protected code may run."""
        nonlocal n
        b = F.bodies.get(fn)
        if b is None:
            rep.missing("X2", fn)
            return
        prot = protected(b)
        found = None
        for sb, st, d, f, tr in _switches(b):
            if re.search(regex, d):
                cands = [(f, tr), (tr, f)] if pass_edge == "auto" else ([(f, tr)] if pass_edge == "false" else [(tr, f)])
                for pe, fe in cands:
                    if pe is None:
                        continue
                    if prot and all(b.edge_dominates(sb, pe, x) for x in prot) and (not need_fail_err or (fe is not None and _leads_only_to_err(F, b, fe))):
                        found = (sb, d)
        n += 1
        ok = found is not None and len(prot) >= min_protected
        rep.add("X2", rule_name, ok, "%s:%s" % (b.file, b.term(found[0]).get("line") if found else b.line),
                ("guard `%s` fails into Err and dominates %d protected site(s)" % (found[1][:80], len(prot))) if ok else
                "no dominating guard matching /%s/ with an Err failure edge protects the %d site(s) in %s" % (regex, len(prot), fn.split("::")[-1]))

    # 1. block type: values other than 0/1/2 are rejected
    b = F.bodies.get(RB)
    if b is None:
        rep.missing("X2", RB)
    else:
        ok = False
        for sb, st, d, f, tr in _switches(b):
            if d == "var(mode)" or re.match(r"^read_bits\(.*K2\)", d):
                vals = sorted(v for v, _ in st["targets"])
                if vals == [0, 1, 2] and _leads_only_to_err(F, b, tr):
                    ok = True
        n += 1
        rep.add("X2", "block-type-default-is-Err", ok, "%s:%s" % (b.file, b.line), "the block-type switch maps 0/1/2 and sends every other value to Err")
    # 2. LEN ^ NLEN
    guard("stored-len-check-before-copy", RB, r"^Ne\(BitXor\(var\(len\), var\(ilen\)\), K65535\)$", "false",
          lambda b: _call_blocks(b, "BitReader::read_byte") + _call_blocks(b, "BitReader::flush_buffer_to_byte_boundary"), min_protected=2)
    # 3. code lengths validated before the tree is built
    HT = P + "huffman_helper::calculate_huffman_code_tree"
    guard("code-lengths-validated", HT, r"^(Not\()?is_valid_huffman_code_lengths\(", "auto",
          lambda b: [bb for bb in b.normal_blocks() if bb != 0 and b.term(bb)["k"] == "call" and not strip_generics(callee_def(b.term(bb))).endswith(("err_exit_code", "is_valid_huffman_code_lengths"))
                     and 0 in b.dominators().get(bb, ()) and not _leads_only_to_err(F, b, bb)][:6], min_protected=1)
    # 4. length / distance codes
    guard("lcode-in-range", DB, r"^Ge\(var\(lcode\), ", "false", lambda b: _index_blocks(b, "lcode"), min_protected=2)
    guard("dcode-in-range", DB, r"^Ge\(var\(dcode\), ", "false", lambda b: _index_blocks(b, "dcode"), min_protected=2)
    # 5. distance within produced bytes
    guard("dist-within-output", DB, r"^Gt\(var\(dist\), len\(", "false", lambda b: _call_blocks(b, "::write_reference"))
    # 8. chain depth limit
    RC = P + "complevel_estimator::CompLevelEstimatorState::<'a>::recommend"
    guard("max-chain-limit", RC, r"^Ge\(max_chain_found\(.*\), K4096\)$", "false", _ok_blocks)
    # 9. decode_symbol walks the tree without any check of its own (root = len-2, child = tree[bit + node]); it is only safe
    #    on the complete trees calculate_huffman_code_tree returns.  Every tree it is handed, and every tree stored in a
    #    HuffmanReader, must therefore be the Ok payload of that constructor.
    TREE = re.compile(r"^(deref\()?branch\((preflate_rs::)?huffman_helper::calculate_huffman_code_tree\(.*\)\) as Continue\.0\)?$")
    FIELD = re.compile(r"^(deref\()?arg<&(mut )?preflate_rs::huffman_encoding::HuffmanReader>\.\w+\)?$")
    nt = 0
    for name, b in sorted(F.bodies.items()):
        for bb, t in b.calls():
            if strip_generics(callee_def(t)).endswith("huffman_helper::decode_symbol"):
                nt += 1
                d = flow.describe(b, t["args"][1])
                rep.add("X2", "tree-from-validated-constructor:%s" % name.replace(P, "").split("::")[-1], bool(TREE.match(d) or FIELD.match(d)), b.where(bb),
                        "decode_symbol(.., %s)" % d[:160])
        for bb in sorted(b.normal_blocks()):
            for s in b.stmts(bb):
                r = s.get("r") or {}
                if s.get("k") == "assign" and r.get("k") == "agg" and r.get("adt") == P + "huffman_encoding::HuffmanReader":
                    nt += 1
                    ds = [flow.describe(b, o) for o in r["ops"]]
                    rep.add("X2", "reader-trees-validated:%s" % name.replace(P, "").split("::")[-1], all(TREE.match(d) for d in ds), b.where(bb),
                            "HuffmanReader { %s }" % ", ".join("%s: %s" % (f, d[:90]) for f, d in zip(r["fields"], ds)))
    rep.floor("X2", "tree-sites", nt, 5)
    rep.floor("X2", "guards", n, 7)
