"""C05 — analysing arbitrary bytes ends in Ok or Err (explicit-failure discipline).

X1 SITE: every explicit failure construct (unwrap/expect/assert!/panic!/unreachable!/unimplemented!) in crate code
   reachable from decompress_deflate_stream is in the reviewed table (pfa/tables/failure_sites.py) and the structural
   obligation attached to its row is re-verified; an unlisted construct is a violation.
X2 GUARD: each validation named in the property's anchors fails into Err and dominates the operation it protects.
X3 UB: the narrowing conversions of the parameter writer cannot fail (shared with C08/P3).
Declared out of reach (DESIGN.md §4/C05): the ~500 implicit panic sites (index, slice, arithmetic overflow) and
termination of the chain-walking and decoding loops.
"""
from ..common import PC
from . import site, guard, ub


def run(ctx, rep):
    F = ctx.lib
    rep.explanation = (
        "Totality is decided only for *explicit* failure constructs: all 49 of them reachable from decompress_deflate_stream "
        "are enumerated in the instantiation-aware call graph and must be justified by a reviewed row whose structural "
        "obligation (instantiation over in-memory I/O, constant-dead branch, argument never the panicking variant, dominating "
        "guard, upper bound, relational argument proof) is re-checked on every run; the validations the property names must "
        "dominate what they protect and fail into Err; narrowing conversions are bounded by upper-bound inference. Implicit "
        "panics and termination quantify over run-time values and are not decided by this family.")
    rep.trusted = ["rows of class `invariant` rest on stated value-level invariants (listed in evidence samples)",
                   "dependency crates (cabac, byteorder, crc32fast, zstd) are not searched for failure constructs"]
    site.check_sites(F, rep, "X1", [PC + "decompress_deflate_stream"], 20)
    from . import lin as _lin
    _lin.x4(ctx, rep)
    _lin.x5(ctx, rep)
    _lin.x6(ctx, rep)
    _lin.x8(ctx, rep)
    _lin.x9(ctx, rep)
    from . import prog as _prog
    _prog.x7(ctx, rep)
    guard.x2(ctx, rep)
    ub.p3(ctx, rep, rule="X3")
