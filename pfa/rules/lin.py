"""A5 — every access to the untrusted file slice in scan_deflate.rs / idat_parse.rs is in bounds (LIN)."""
import re
from .. import flow, lin
from ..aff import aff_sym, aff_const, aff_add, aff_str, TOP
from ..facts import op_place, op_const, const_int, callee_def
from ..common import strip_generics

P = "preflate_rs::"
FILES = ("src/scan_deflate.rs", "src/idat_parse.rs")


def _home(name, b):
    """The source file a function belongs to for scoping purposes: the one its (canonical) definition path names, so that a
    function moved to another module — and given its reference path back by Facts — stays in scope."""
    m = re.match(r"^(?:<)?preflate_rs::([a-z_0-9]+)::", name)
    f = "src/%s.rs" % m.group(1) if m else None
    return f if f in FILES + READER_FILES else b.file


def summaries(F, name, b, L):
    """Named summary facts for one function: list of (location, form >= 0, text, obligation-ok, obligation-detail)."""
    out = []
    if name.endswith("scan_deflate::split_into_deflate_streams"):
        ns = [(bb, t) for bb, t in b.calls() if strip_generics(callee_def(t)) == P + "scan_deflate::next_signature"]
        idx, prv = b.locals_named("index"), b.locals_named("prev_index")
        if len(ns) == 1 and len(idx) == 1 and len(prv) == 1:
            head = ns[0][0]
            out1 = aff_sym("out1@bb%d" % head)
            I = aff_sym("index@head%d" % head)
            Pv = aff_sym("prev_index@head%d" % head)
            ln = L.len_sym(ns[0][1]["args"][0], head)
            ok, detail = _next_signature_summary(F)
            # (a) next_signature leaves  old index <= index <= len - 2
            out.append((("after", head), aff_add(aff_add(ln, out1, -1), aff_const(2), -1), "next_signature: index <= len-2", ok, detail))
            out.append((("after", head), aff_add(out1, I, -1), "next_signature: index does not decrease", ok, detail))
            # prev_index <= index at the loop head (inductive, from the AFF cursor analysis)
            ok2, detail2 = _prev_le_index(F, b, head)
            out.append((("after", head), aff_add(I, Pv, -1), "loop invariant prev_index <= index", ok2, detail2))
        # (b) cursor position after skip_gzip_header lies within the slice the cursor was built over
        for bb, t in b.calls():
            if strip_generics(callee_def(t)) == "std::io::Cursor::position":
                cur = flow.origin(b, t["args"][0])
                news = [tt for _, tt in cur.calls if strip_generics(callee_def(tt)) == "std::io::Cursor::new"]
                if len(news) == 1:
                    # the cursor wraps src[index..]: position <= len(src) - index
                    sl = flow.origin(b, news[0]["args"][0])
                    idxc = [tt for _, tt in sl.calls if re.search(r"(Index::index|::index)$", strip_generics(callee_def(tt)))]
                    if len(idxc) == 1:
                        ln = L.len_sym(idxc[0]["args"][0], bb)
                        ro = flow.origin(b, idxc[0]["args"][1], through=("use",))
                        starts = [r["ops"][0] for _, _, r in ro.exprs if r["k"] == "agg" and r.get("adt") == "std::ops::RangeFrom"]
                        if len(starts) == 1 and ns:
                            okc, dc = _cursor_read_only(F)
                            start = aff_sym("out1@bb%d" % ns[0][0])   # index right after next_signature
                            pos = aff_sym("call@bb%d" % bb)
                            out.append((("after", bb), aff_add(aff_add(ln, start, -1), pos, -1), "Cursor::position() <= length of the slice it reads", okc, dc))
    # (c) std contract of the count-returning transfers: `n = w.write(buf)?` / `n = r.read(buf)?` gives n <= buf.len()
    for bb, t in b.calls():
        c = t["callee"]
        if c.get("trait") in ("std::io::Write", "std::io::Read") and c.get("def", "").split("::")[-1] in ("write", "read") and len(t["args"]) == 2 and t.get("t") is not None:
            nb = t["t"]
            nt = b.term(nb)
            if nt["k"] == "call" and strip_generics(callee_def(nt)).endswith("Try::branch"):
                src = op_place(nt["args"][0])
                if src is not None and src["l"] == t["dest"]["l"]:
                    ln = L.len_sym(t["args"][1], bb)
                    n = aff_sym("call@bb%d.0" % nb)
                    out.append((("after", nb), aff_add(ln, n, -1), "std::io contract: the count returned by %s is at most the buffer length" % c["def"].split("::")[-1], True, "trusted std contract"))
    return out


def _next_signature_summary(F):
    b = F.bodies.get(P + "scan_deflate::next_signature")
    if b is None:
        return False, "next_signature not found"
    # the only store through `index` is `*index = i`, i being the loop variable of `*index .. src.len()-1`
    stores = []
    for bb in b.normal_blocks():
        for s in b.stmts(bb):
            if s["k"] == "assign" and s["p"]["p"] == ["*"] and b.local_name(s["p"]["l"]) == "index":
                stores.append(flow.describe_rvalue(b, s["r"], names=True))
    rng = None
    for bb in b.normal_blocks():
        for s in b.stmts(bb):
            if s["k"] == "assign" and s["r"]["k"] == "agg" and s["r"].get("adt") == "std::ops::Range":
                rng = [flow.describe(b, x, names=True) for x in s["r"]["ops"]]
    ok = stores == ["var(i)"] and rng is not None and rng[0] in ("var(index)", "deref(var(index))") and re.match(r"^Sub\(len\(var\(src\)\), K1\)(\.0)?$", rng[1]) is not None
    if not ok and stores == ["var(i)"] and rng is None:
        # window form: `for (i, pair) in src.windows(2).enumerate().skip(*index)` — i runs from *index over the window starts,
        # the last of which is len - 2
        idef = [flow.describe(b, {"l": l, "p": []}) for l in b.locals_named("i")]
        w = re.compile(r"^next\((into_iter\()?skip\(enumerate\(windows\((arg<&\[u8\]>|deref\(arg<&\[u8\]>\)), K2\)\), (deref\()?arg<&mut usize>\)?\)\)?\)( as Some)?\.0\.0$")
        ok = len(idef) == 1 and w.match(idef[0]) is not None
        return ok, "stores through index: %s; window form %s" % (stores, idef)
    return ok, "stores through index: %s; loop range %s" % (stores, rng)


def _prev_le_index(F, b, head):
    from ..aff import Aff, aff_eq
    from . import scan
    idx, prv = b.locals_named("index")[0], b.locals_named("prev_index")[0]
    A = Aff(F, b, None, tracked=(idx, prv))
    init = {idx: aff_sym("I"), prv: aff_sym("Pv")}
    back, out_env, inn = A.run_loop(head, init, (idx, prv))
    bad = []
    for pb, env in back.items():
        d = A.diff(env, idx, prv)
        if d is TOP:
            bad.append("unknown at bb%d" % pb)
            continue
        # d must be 0, or (I - Pv) + (out1 - I) + c with c >= 0
        r = aff_add(aff_add(d, aff_add(aff_sym("I"), aff_sym("Pv"), -1), -1), aff_add(aff_sym("out1@bb%d" % head), aff_sym("I"), -1), -1)
        if aff_eq(d, aff_const(0)) or (set(r) <= {""} and r.get("", 0) >= 0):
            continue
        bad.append("index - prev_index = %s at bb%d" % (aff_str(d), pb))
    env0 = A.step_block(0, {})
    base = aff_eq(env0.get(idx, TOP), aff_const(0)) and aff_eq(env0.get(prv, TOP), aff_const(0))
    return (not bad and base and bool(back)), "inductive over %d back edge(s): %s" % (len(back), bad or "index - prev_index is 0 or grows")


def _cursor_read_only(F):
    b = F.bodies.get(P + "scan_deflate::skip_gzip_header")
    if b is None:
        return False, "skip_gzip_header not found"
    bad = []
    scope = [b] + [F.bodies[n] for n in F.bodies if n.startswith(P + "scan_deflate::") and F.bodies[n].j.get("generic") and n != b.name and "skip" in n]
    for fb in scope:
        for bb, t in fb.calls():
            tr = t["callee"].get("trait")
            m = t["callee"].get("def", "").split("::")[-1]
            if tr in ("std::io::Seek",) or m in ("set_position", "seek", "consume"):
                bad.append(m)
    return not bad, "skip_gzip_header only reads from the cursor (no seek/set_position): %s" % (bad or "ok")


def a5(ctx, rep):
    F = ctx.lib
    nsites = 0
    per_fn = {}
    for name, b in sorted(F.bodies.items()):
        if _home(name, b) not in FILES:
            continue
        try:
            L, sites, facts, inn, out = lin.sites_and_facts(F, b)
        except Exception as e:
            rep.add("A5", "UNRECOGNISED-IDIOM:" + name.replace(P, ""), False, "%s:%s" % (b.file, b.line), "LIN evaluation failed: %s: %s" % (type(e).__name__, e))
            continue
        summ = summaries(F, name, b, L)
        for loc, form, text, ok, detail in summ:
            rep.add("A5", "summary:%s:%s" % (name.split("::")[-1], text), ok, "%s:%s" % (b.file, b.line), detail)
            if ok:
                facts.append((loc, form, "summary: " + text))
        short = name.replace(P, "")
        counts = {}
        for s in sites:
            nsites += 1
            per_fn[short] = per_fn.get(short, 0) + 1
            k = "%s:%s" % (s.kind, s.what)
            counts[k] = counts.get(k, 0) + 1
            key = "%s|%s%s" % (short, k, "" if counts[k] == 1 else "#%d" % counts[k])
            here = [f for f in facts if lin.holds_at(b, f[0], s.bb)]
            unproved = []
            used = []
            for what, ob in s.obligations:
                if ob is TOP:
                    unproved.append("%s (cannot normalise)" % what)
                    continue
                pf = lin.entailed(ob, here)
                if pf is None:
                    unproved.append("%s, i.e. %s >= 0" % (what, aff_str(ob)))
                else:
                    used.extend(f[2] for f in pf)
            if not unproved:
                rep.add("A5", "in-bounds:" + key, True, s.where, "covered by %s" % (sorted(set(used)) or "constants / non-negativity"))
                continue
            rv = REVIEWED.get((short, s.kind, s.what))
            if rv is not None:
                ok, detail = rv[1](F, b) if rv[1] else (True, "")
                rep.add("A5", "reviewed:" + key, ok, s.where, "%s — %s" % (rv[0], detail))
                continue
            rep.add("A5", "unguarded:" + key, False, s.where,
                    "no dominating guard establishes %s (facts in scope: %s)" % ("; ".join(unproved), [f[2] for f in here][:6]))
    rep.floor("A5", "untrusted-slice-access-sites", nsites, 12)
    rep.stats["lin"] = {"sites": nsites, "per_function": per_fn}


def _sum_check(F, b):
    """recreate_idat: the chunk sizes sum to deflate_stream.len() + 6 (else Err) and `contents` is header ++ stream ++ adler32."""
    from .guard import _leads_only_to_err
    ok_guard = False
    for sb in sorted(b.normal_blocks()):
        st = b.term(sb)
        if st["k"] == "switch":
            d = flow.describe(b, st["d"], names=True)
            if re.match(r"^Ne\(sum\(.*chunk_sizes.*\), Add\(Add\(len\(var\(deflate_stream\)\), K2\)(\.0)?, K4\)(\.0)?\)$", d) or re.match(r"^Ne\(.*sum\(.*\).*, Add\(Add\(len\(var\(deflate_stream\)\), K2\)", d):
                f = [x for v, x in st["targets"] if v == 0]
                loops = [bb for bb, t in b.calls() if strip_generics(callee_def(t)).endswith("Iterator::next")]
                if f and loops and all(b.edge_dominates(sb, f[0], x) for x in loops) and _leads_only_to_err(F, b, st["otherwise"]):
                    ok_guard = True
    # contents = zlib_header.to_vec() ; extend(deflate_stream) ; extend(adler32 bytes)
    # (in whatever way the three pieces are appended: to_vec + extend, with_capacity + extend_from_slice ...)
    parts = []
    for bb, t in b.calls():
        n = strip_generics(callee_def(t))
        if re.search(r"(\[T\]>::to_vec|::to_vec)$", n) and t["args"]:
            parts.append((bb, flow.describe(b, t["args"][0], names=True)))
        elif re.search(r"(Extend::extend|Vec::extend_from_slice|Vec::extend)$", n) and len(t["args"]) == 2 and "contents" in flow.describe(b, t["args"][0], names=True):
            parts.append((bb, flow.describe(b, t["args"][1], names=True)))
    import functools
    parts.sort(key=functools.cmp_to_key(lambda x, y: -1 if b.dominates(x[0], y[0]) and x[0] != y[0] else (1 if b.dominates(y[0], x[0]) and x[0] != y[0] else 0)))
    ext = [d for _, d in parts]
    ok_build = len(ext) == 3 and "zlib_header" in ext[0] and "deflate_stream" in ext[1] and "to_be_bytes" in ext[2] and "addler32" in ext[2]
    idx = [flow.describe_rvalue(b, d[3], names=True) for l in b.locals_named("index") for d in b.defs(l) if d[2] == "assign"]
    ok_idx = sorted(idx) == sorted(["K0", "Add(var(index), var(chunk_size))"]) or sorted(idx) == sorted(["K0", "Add(var(index), var(chunk_size)).0"])
    return (ok_guard and ok_build and ok_idx), "sum check dominates the loop and fails into Err: %s; contents = header ++ stream ++ adler32: %s (%s); index advances by chunk_size: %s" % (ok_guard, ok_build, ext, idx)


READER_FILES = ("src/huffman_encoding.rs", "src/deflate_reader.rs", "src/bit_reader.rs", "src/huffman_helper.rs")


def _site_status(F, U, b, extra_facts=None):
    """[(site, key-without-ordinal, unproved-list)] for one body: LIN first, upper-bound inference for fixed-size arrays second."""
    from ..facts import op_const, const_int
    L, sites, facts, inn, out = lin.sites_and_facts(F, b, extra_facts=extra_facts)
    res = []
    for s in sites:
        here = [f for f in facts if lin.holds_at(b, f[0], s.bb)]
        unproved = []
        for what, ob in s.obligations:
            if ob is TOP:
                unproved.append("%s (cannot normalise)" % what)
            elif lin.entailed(ob, here) is None:
                unproved.append("%s, i.e. %s >= 0" % (what, aff_str(ob)))
        if unproved and s.kind == "index":
            t = b.term(s.bb)
            if t["k"] == "assert" and t.get("msg") == "BoundsCheck":
                ln = const_int(op_const(t["ops"][0])) if op_const(t["ops"][0]) else None
                try:
                    ubv = U.operand(b, t["ops"][1], at=s.bb)
                except Exception:
                    ubv = None
                if ln is not None and ubv is not None and ubv < ln:
                    unproved = []
        if unproved and s.kind == "sub":
            # (K1 << x) - K2 with K2 <= K1: a left shift that does not overflow (the compiler checks that separately) never
            # makes the value smaller than K1
            m = re.match(r"^Shl\(K(\d+), .*\)(\.0)? - K(\d+)$", s.what)
            if m and int(m.group(3)) <= int(m.group(1)):
                unproved = []
        if unproved and s.kind == "sub":
            # K - x with an upper bound of x that does not exceed K (e.g. 8 - (bits & 7))
            try:
                ops = _sub_operands(b, s)
                if ops is not None:
                    k = flow.const_eval(b, ops[0])
                    if k is not None and U.operand(b, ops[1], at=s.bb) <= k:
                        unproved = []
            except Exception:
                pass
        res.append((s, unproved))
    return res


def _sub_operands(b, s):
    """(minuend, subtrahend) operands of the checked subtraction this site stands for, or None."""
    for st in b.stmts(s.bb):
        r = st.get("r") or {}
        if st.get("k") == "assign" and r.get("k") == "binop" and r["op"].replace("WithOverflow", "").replace("Unchecked", "") == "Sub":
            if "%s - %s" % (flow.describe(b, r["l"], names=True), flow.describe(b, r["r"], names=True)) == s.what:
                return r["l"], r["r"]
    return None


def _analysis_defs(F, entries=None):
    roots = F.roots_for(entries or [P + "preflate_container::decompress_deflate_stream"])
    par = F.reach(roots)
    return sorted({F.inst(i)["def"] for i in par if F.inst(i)["local"] and F.inst(i)["def"] in F.bodies})


def open_sites(F, exclude_files=()):
    from ..ub import UB
    U = UB(F)
    out = []
    for dn in _analysis_defs(F):
        b = F.bodies[dn]
        if b.file in exclude_files:
            continue
        try:
            for s, unproved in _site_status(F, U, b):
                if unproved:
                    out.append((dn.replace(P, ""), s.kind, s.what))
        except Exception:
            continue
    return out


def x5(ctx, rep, rule="X5"):
    """C05, rest of the analysis path (estimators, predictors, hash chains, Huffman calculators): arbitrary input reaches all of
    it.  Every index / slice / unsigned subtraction there is implied by guards of its function, bounded by upper-bound inference,
    or one of the sites that already existed on the reference tree (reference/analysis_bounds.json — their safety rests on
    value-level invariants this family does not decide).  A *new* site of that kind is a new way to panic and is reported."""
    import json, os
    from ..ub import UB
    F = ctx.lib
    U = UB(F)
    p = os.path.join(os.path.dirname(os.path.dirname(os.path.dirname(os.path.abspath(__file__)))), "reference", "analysis_bounds.json")
    if not os.path.exists(p):
        rep.missing(rule, "reference/analysis_bounds.json")
        return
    rows = [tuple(r) for r in json.load(open(p))]
    known = set(rows)
    from collections import Counter
    ref_tot = Counter(k for _, k, _ in rows)
    cur_tot = Counter()
    fresh = []
    n = n_known = 0
    for dn in _analysis_defs(F):
        b = F.bodies[dn]
        if _home(dn, b) in READER_FILES:
            continue
        short = dn.replace(P, "")
        try:
            st = _site_status(F, U, b)
        except Exception as e:
            rep.add(rule, "UNRECOGNISED-IDIOM:" + short, False, "%s:%s" % (b.file, b.line), "LIN evaluation failed: %s: %s" % (type(e).__name__, e))
            continue
        counts = {}
        for s, unproved in st:
            n += 1
            if not unproved:
                continue
            k = "%s:%s" % (s.kind, s.what)
            counts[k] = counts.get(k, 0) + 1
            key = "%s|%s%s" % (short, k, "" if counts[k] == 1 else "#%d" % counts[k])
            cur_tot[s.kind] += 1
            if (short, s.kind, s.what) in known:
                n_known += 1
            else:
                fresh.append((s.kind, key, s.where, "; ".join(unproved)))
    # Verdict on the totals per kind, so that rewriting an expression or moving code between functions (which changes the
    # description of a pre-existing site, not their number) stays silent; the sites that are new by description are named.
    for kind in sorted(set(ref_tot) | set(cur_tot)):
        over = cur_tot[kind] - ref_tot[kind]
        new_here = [f for f in fresh if f[0] == kind]
        rep.add(rule, "undischarged-%s-sites-do-not-grow" % kind, over <= 0, new_here[0][2] if (over > 0 and new_here) else "",
                "%d undischarged %s sites (reference tree: %d)%s" % (cur_tot[kind], kind, ref_tot[kind],
                "" if over <= 0 else "; not on the reference tree: " + " | ".join("%s [%s]" % (f[1], f[3]) for f in new_here[:4])))
    rep.stats["x5"] = {"sites": n, "known": n_known, "new_by_description": len(fresh)}
    rep.floor(rule, "analysis-access-sites", n, 100)


def x4(ctx, rep, rule="X4"):
    """C05: the DEFLATE reader digests arbitrary bytes; every index, slice and unsigned subtraction in its modules is either
    implied by guards of the same function (LIN), bounded by upper-bound inference, or a reviewed row naming the invariant that
    protects it."""
    from ..tables import reader_bounds as RB
    from ..ub import UB
    F = ctx.lib
    U = UB(F)
    n = n_rev = 0
    used_rows, pending = set(), []
    for name, b in sorted(F.bodies.items()):
        if _home(name, b) not in READER_FILES:
            continue
        short = name.replace(P, "")
        try:
            st = _site_status(F, U, b)
        except Exception as e:
            rep.add(rule, "UNRECOGNISED-IDIOM:" + short, False, "%s:%s" % (b.file, b.line), "LIN evaluation failed: %s: %s" % (type(e).__name__, e))
            continue
        # a reviewed subtraction `a - b` whose operands are entry values (integer arguments, lengths before any mutation) is a
        # precondition of the function — the row says a caller-side rule establishes a >= b — and may be used by the other
        # sites of the same function (e.g. a fast path for dist == 1 reading plain_text[len - 1])
        prec = []
        for s0, un0 in st:
            if un0 and s0.kind == "sub" and (short, s0.kind, s0.what) in RB.ROWS:
                for _, ob in s0.obligations:
                    if ob is not TOP and all(k == "" or k.startswith("arg:") or re.match(r"^len\(.*\)#0$", k) for k in ob):
                        prec.append((("always",), ob, "precondition (reviewed row): %s" % s0.what))
        if prec and any(un0 and (short, s0.kind, s0.what) not in RB.ROWS for s0, un0 in st):
            st2 = _site_status(F, U, b, extra_facts=prec)
            st = [(s0, un0 if (short, s0.kind, s0.what) in RB.ROWS else un2) for (s0, un0), (_, un2) in zip(st, st2)]
        counts = {}
        for s, unproved in st:
            n += 1
            k = "%s:%s" % (s.kind, s.what)
            counts[k] = counts.get(k, 0) + 1
            key = "%s|%s%s" % (short, k, "" if counts[k] == 1 else "#%d" % counts[k])
            if not unproved:
                rep.add(rule, "in-bounds:" + key, True, s.where, "implied by guards of the function / upper bound of the operand")
            elif (short, s.kind, s.what) in RB.ROWS:
                n_rev += 1
                used_rows.add((short, s.kind, s.what))
                rep.add(rule, "reviewed:" + key, True, s.where, RB.ROWS[(short, s.kind, s.what)])
            else:
                pending.append((s.kind, key, s.where, "; ".join(unproved)))
    # a pre-existing site whose expression was rewritten shows up under a new description (possibly of another kind: an
    # index loop turned into a slice) while its row goes unused: accept as many re-described sites per function as that
    # function has unused rows; anything beyond that is new
    fn_of = lambda key: key.split("|", 1)[0]
    for fn in sorted({fn_of(k) for _, k, _, _ in pending}):
        unused = [r for r in RB.ROWS if r[0] == fn and r not in used_rows]
        pk = [x for x in pending if fn_of(x[1]) == fn]
        for i, (k, key, where, why) in enumerate(pk):
            ok = i < len(unused)
            rep.add(rule, ("re-described:" if ok else "unguarded:") + key, ok, where,
                    ("a reviewed site of this function is no longer present under its old description (%s); taken to be this one" % (unused[i],)) if ok
                    else "neither implied by a guard nor a reviewed row: %s" % why)
    rep.floor(rule, "reader-access-sites", n, 20)
    rep.stats["x4"] = {"sites": n, "reviewed_rows_used": n_rev}


REVIEWED = {
    ("idat_parse::recreate_idat", "range", "var(contents)[var(index)..Add(var(index), var(chunk_size)).0]"):
        ("the chunk sizes sum to contents.len() (sum check), so the running index never passes the end", _sum_check),
}


_SHRINK = re.compile(r"Vec::(truncate|clear|pop|drain|remove|swap_remove|split_off|set_len|retain|dedup|resize|resize_with|shrink_to|shrink_to_fit)$|mem::take$|mem::replace$")


def _len_lower_bound(F, L, b, op, at, depth=0):
    """Provable lower bound of the number of elements of the container `op` at block `at`, or None: a fixed-size array type;
    a Vec local whose `resize(K, _)` dominates `at` with no length-changing call in between; a slice/reference parameter
    whose every caller passes such a container."""
    root = L.container_root(op)
    if root is None:
        return None
    kind, l, path = root
    ty = flow.strip_lifetimes(b.local_ty(l))
    if kind == "local":
        m = re.match(r"^(?:&(?:mut )?)*\[[^;\]]+; (\d+)\]$", ty)
        if m:
            return int(m.group(1))
    if kind == "local" and re.match(r"^(&(mut )?)?(std::vec::|alloc::vec::)?Vec<", ty) and not (1 <= l <= b.argc):
        best = None
        muts = [(bb, t) for bb, t in b.calls() if t["args"] and L.container_root(t["args"][0]) == root and _SHRINK.search(strip_generics(callee_def(t)))]
        for rb, t in muts:
            if not strip_generics(callee_def(t)).endswith("Vec::resize") or not b.dominates(rb, at) or rb == at:
                continue
            k = flow.const_eval(b, t["args"][1])
            if k is None:
                continue
            between = [mb for mb, _ in muts if mb != rb and mb in b.reachable_from(rb) and at in b.reachable_from(mb)]
            # assignments of a new vector to the local between the two
            reassigned = [d[0] for d in b.defs(l) if d[0] != rb and d[0] in b.reachable_from(rb) and at in b.reachable_from(d[0])]
            if not between and not reassigned:
                best = k if best is None else max(best, k)
        return best
    if kind == "local" and 1 <= l <= b.argc and depth < 2:
        callers = []
        for cn, cb in F.bodies.items():
            for cbb, ct in cb.calls():
                c = ct["callee"]
                tgt = c.get("resolved") if c.get("rlocal") else c.get("def")
                if tgt == b.name and len(ct["args"]) >= l:
                    callers.append((cb, cbb, ct["args"][l - 1]))
        if not callers:
            return None
        bounds = []
        for cb, cbb, a in callers:
            CL, _, _, _, _ = lin.evaluate(F, cb)
            bounds.append(_len_lower_bound(F, CL, cb, a, cbb, depth + 1))
        return None if any(x is None for x in bounds) else min(bounds)
    return None


def x6(ctx, rep, rule="X6"):
    """An index drawn from a constant table has a known range; the container it indexes must provably cover that range
    (fixed-size array, Vec resized to a constant beforehand, or a slice every caller of which is one of these).  Unlike the
    value-dependent sites X5 can only count, these are decidable, so none is tolerated: the code-length order table walks
    symbols up to 18 while a calculated length vector ends at the last used symbol."""
    F = ctx.lib
    defs = set(_analysis_defs(F))
    roots = F.roots_for([P + "preflate_container::recompress_deflate_stream"])
    defs |= {F.inst(i)["def"] for i in F.reach(roots) if F.inst(i)["local"] and F.inst(i)["def"] in F.bodies}
    n = 0
    for dn in sorted(defs):
        b = F.bodies[dn]
        short = dn.replace(P, "")
        L = None
        seen = {}
        for bb in sorted(b.normal_blocks()):
            t = b.term(bb)
            idx = cont = ln_const = None
            if t["k"] == "assert" and t.get("msg") == "BoundsCheck":
                idx = t["ops"][1]
                k = op_const(t["ops"][0])
                ln_const = const_int(k) if k is not None else None
                tb = t.get("t")
                for st in (b.stmts(tb) if tb is not None else []):
                    if st["k"] == "assign":
                        for pl in flow.places_in(st["r"]):
                            if any(isinstance(e, dict) and "i" in e for e in pl["p"]):
                                cont = {"c": {"l": pl["l"], "p": [e for e in pl["p"] if not (isinstance(e, dict) and "i" in e)]}}
            elif t["k"] == "call" and len(t["args"]) == 2 and re.search(r"(Index::index|IndexMut::index_mut)$", strip_generics(callee_def(t))):
                ap = op_place(t["args"][1])
                if ap is not None and not ap["p"] and b.local_ty(ap["l"]) == "usize":
                    idx, cont = t["args"][1], t["args"][0]
            if idx is None:
                continue
            d = flow.describe(b, idx, names=True)
            m = re.match(r"^(?:cast\()?const:([\w:]+)\[", d)
            if not m:
                continue
            try:
                tmax = max(F.const_array(P + m.group(1)))
            except Exception:
                continue
            n += 1
            if L is None:
                L, _, _, _, _ = lin.evaluate(F, b)
            lb = ln_const if ln_const is not None else (_len_lower_bound(F, L, b, cont, bb) if cont is not None else None)
            key0 = "%s|%s" % (short, re.sub(r"\[.*$", "", d))
            seen[key0] = seen.get(key0, 0) + 1
            key = key0 + ("" if seen[key0] == 1 else "#%d" % seen[key0])
            rep.add(rule, "table-indexed-container-covers-table:" + key, lb is not None and tmax < lb, b.where(bb),
                    "index is an element of %s (max %d); container length provably >= %s" % (m.group(1), tmax, lb))
    rep.floor(rule, "table-indexed-sites", n, 2)


# ---- X8: additions on 8/16-bit values ----------------------------------------------------------------------------------
NARROW_ROWS = {
    ("hash_chain::InternalPosition::inc", "Add", "var(self).pos", "K1"):
        "chain positions are re-based before they reach the limit (C05/X1 reshift-bound: (K-1)+B+1 <= 65535)",
    ("huffman_helper::calc_huffman_codes", "Add", "var(bl_count)[var(cbit)]", "K1"):
        "counts code lengths of one alphabet: at most 288 (320) entries",
    ("huffman_helper::calc_huffman_codes", "Add", "var(code)", "var(bl_count)[Sub(var(bits), K1).0]"):
        "canonical code construction over validated lengths <= 15 (C05/X2 code-lengths-validated): codes stay below 2^15",
    ("huffman_helper::calc_huffman_codes", "Add", "var(next_code)[var(len)]", "K1"):
        "canonical code construction over validated lengths <= 15: codes stay below 2^15",
    ("tree_predictor::calc_codetree_freq", "Add", "var(bl_freqs)[var(data)]", "K1"):
        "counts the entries of one dynamic header: at most 320",
    ("tree_predictor::calc_codetree_freq", "Add", "var(bl_freqs)[K16]", "K1"): "counts the entries of one dynamic header: at most 320",
    ("tree_predictor::calc_codetree_freq", "Add", "var(bl_freqs)[K17]", "K1"): "counts the entries of one dynamic header: at most 320",
    ("tree_predictor::calc_codetree_freq", "Add", "var(bl_freqs)[K18]", "K1"): "counts the entries of one dynamic header: at most 320",
}


def x8(ctx, rep, rule="X8", files=None, floor=8):
    """An overflow-checked `+` or `*` on an 8- or 16-bit value is a panic in every build that checks overflow (the test and debug
    profiles).  On the analysis path each such operation must be bounded — the inferred upper bounds of its operands keep the
    result inside the type — or be a reviewed row naming what bounds it.  A counter that is stepped once per token of a block is
    not bounded by anything: blocks have no maximum length."""
    from ..ub import UB, INF, tymax
    F = ctx.lib
    U = UB(F)
    n = 0
    seen = {}
    for dn in _analysis_defs(F):
        b = F.bodies[dn]
        if files is not None and b.file not in files:
            continue
        short = dn.replace(P, "")
        for bb in sorted(b.normal_blocks()):
            t = b.term(bb)
            if t["k"] != "assert" or "Overflow" not in str(t.get("msg")) or t["ops"][0] not in ("Add", "Mul"):
                continue
            l, r = t["ops"][1], t["ops"][2]
            mx = None
            for o in (l, r):
                pl = op_place(o)
                if pl is not None:
                    try:
                        mx = U.place_tymax(b, pl)
                    except Exception:
                        mx = None
                    if mx:
                        break
                k = op_const(o)
                if k and "ty" in k:
                    mx = tymax(k["ty"])
            if mx is None or mx > 65535:
                continue
            n += 1
            try:
                ul, ur = U.operand(b, l, bb), U.operand(b, r, bb)
            except Exception:
                ul = ur = INF
            tot = ul + ur if t["ops"][0] == "Add" else ul * ur
            dl, dr = flow.describe(b, l, names=True), flow.describe(b, r, names=True)
            k0 = "%s|%s(%s, %s)" % (short, t["ops"][0], dl[:60], dr[:40])
            seen[k0] = seen.get(k0, 0) + 1
            key = k0 + ("" if seen[k0] == 1 else "#%d" % seen[k0])
            if tot <= mx:
                rep.add(rule, "narrow-arithmetic-bounded:" + key, True, b.where(bb), "operands at most %s and %s, type holds %s" % (ul, ur, mx))
                continue
            row = NARROW_ROWS.get((short, t["ops"][0], dl, dr))
            rep.add(rule, ("narrow-arithmetic-reviewed:" if row else "narrow-arithmetic-unbounded:") + key, row is not None, b.where(bb),
                    row or "nothing bounds this %d-bit %s: it overflows (panics where overflow is checked) once the value reaches %d" % (mx.bit_length(), "addition" if t["ops"][0] == "Add" else "multiplication", mx))
    rep.floor(rule, "narrow-arithmetic-sites", n, floor)


_STR_BYTE_OPS = re.compile(r"string::String::(truncate|insert|insert_str|remove|drain|split_off|replace_range)$|str::(split_at|split_at_mut)$")


def x9(ctx, rep, rule="X9", entries=None):
    """Operations of the standard library that are partial: division and remainder (divisor 0), `ilog2` / `ilog10` / `ilog`
    (argument 0), `next_power_of_two` (overflow).  On the analysis path the argument must be a non-zero constant or be proved
    at least 1 by the linear guards in force — `max_block_size.ilog2()` is not `while x > 0 { n += 1; x >>= 1 }` for x = 0."""
    F = ctx.lib
    n = nconst = nstr = 0
    seen = {}
    for dn in _analysis_defs(F, entries):
        b = F.bodies[dn]
        short = dn.replace(P, "")
        L = facts = inn = None
        for bb in sorted(b.normal_blocks()):
            t = b.term(bb)
            arg = what = None
            if t["k"] == "assert" and str(t.get("msg")) in ("DivisionByZero", "RemainderByZero"):
                cp = op_place(t["cond"]) if t.get("cond") else None
                d0 = b.single_def(cp["l"]) if cp is not None and not cp["p"] else None
                if d0 and d0[2] == "assign" and d0[3]["k"] == "binop" and d0[3]["op"] == "Eq":
                    arg, what = d0[3]["l"], "divisor"
            elif t["k"] == "call" and (_STR_BYTE_OPS.search(strip_generics(callee_def(t))) or (re.search(r"ops::Index(Mut)?::index(_mut)?$", strip_generics(callee_def(t))) and re.search(r"<(std::string::String|str) as ", t["callee"].get("inst", "")))):
                # byte-indexed text operations panic off a character boundary: no argument makes them total for arbitrary text
                nstr += 1
                cn = strip_generics(callee_def(t)).split("::")[-1]
                key0 = "%s|text-by-byte-offset:%s" % (short, cn)
                seen[key0] = seen.get(key0, 0) + 1
                rep.add(rule, "partial-operation:" + key0 + ("" if seen[key0] == 1 else "#%d" % seen[key0]), False, b.where(bb),
                        "%s cuts text at a byte offset: it panics when the offset is not a character boundary (messages of the OS, paths ...)" % strip_generics(callee_def(t)))
                continue
            elif t["k"] == "call" and re.search(r"::(ilog2|ilog10|ilog)$", strip_generics(callee_def(t))) and t["args"]:
                arg, what = t["args"][0], strip_generics(callee_def(t)).split("::")[-1] + " argument"
            if arg is None:
                continue
            k = flow.const_eval(b, arg)
            if k is not None:
                nconst += 1
                if k == 0:
                    rep.add(rule, "partial-operation:%s|%s" % (short, what), False, b.where(bb), "%s is the constant 0" % what)
                continue
            n += 1
            if L is None:
                L, sites, facts, inn, out = lin.sites_and_facts(F, b)
            env = lin._env_at_term(L, b, bb, inn)
            v = L.operand(env, arg)
            here = [f for f in facts if lin.holds_at(b, f[0], bb)]
            ok = v is not TOP and lin.entailed(aff_add(v, aff_const(1), -1), here) is not None
            d = flow.describe(b, arg, names=True)[:60]
            key0 = "%s|%s:%s" % (short, what, d)
            seen[key0] = seen.get(key0, 0) + 1
            rep.add(rule, "partial-operation:" + key0 + ("" if seen[key0] == 1 else "#%d" % seen[key0]), ok, b.where(bb),
                    "%s %s is at least 1 by the guards in force" % (what, d) if ok else "nothing shows that the %s %s is not 0" % (what, d))
    rep.stats["x9"] = {"variable_argument_sites": n, "constant_argument_sites": nconst}
    rep.add(rule, "partial-operations-scanned", True, "", "%d with a variable argument, %d with a non-zero constant" % (n, nconst))
