"""LIN — bounds of accesses to the untrusted slice (filled in next)."""


def a5(ctx, rep):
    return
