"""C11 — zstd wrappers: capacity and framing problems are errors.

Z1 the `capacity` parameter reaches the bounded zstd decompress call unchanged, and the caller's bytes reach
it unchanged; Z2 every fallible step is propagated with `?`; Z3 Ok is returned only after the full
reconstruction succeeded and the returned vector is the one reconstruction wrote to; A7 compress_zstd passes
its argument unchanged to expand_zlib_chunks and that result unchanged to the zstd compressor.
Not decided: the round trip itself (C01); zstd's contract "capacity too small / not a frame => Err" is trusted.
"""
import re
from .. import flow, err
from ..facts import op_place, callee_def
from ..common import strip_generics, PC

BOUNDED = [(r"^zstd::bulk::decompress$", 0, 1), (r"^zstd::bulk::Decompressor::decompress$", 1, 2)]
UNBOUNDED = re.compile(r"^zstd::.*(decode_all|copy_decode|read::Decoder|Decoder::new)")


def _arg_origin_is_param(body, opnd, param):
    o = flow.origin(body, opnd)
    return o.args == {param} and not (o.calls or o.exprs or o.consts or o.unknown)


def run(ctx, rep):
    F = ctx.lib
    rep.explanation = ("Flow rules on compress_zstd/decompress_zstd: `capacity` and the input slice reach zstd's bounded "
                       "decompress unchanged; each Result is consumed by `?`; Ok(result) is dominated by the success edge of "
                       "recreated_zlib_chunks and returns the vector it wrote to. zstd's behaviour on a too-small capacity or a "
                       "non-frame is trusted, so the clause decided is 'the wrapper cannot turn such an error into Ok or a panic'.")
    rep.trusted = ["zstd::bulk::decompress returns Err when the output exceeds `capacity` or the input is not a zstd frame",
                   "recreated_zlib_chunks returns Ok only after consuming the whole expanded form (C01/C13)"]
    d = F.body(PC + "decompress_zstd")
    c = F.body(PC + "compress_zstd")
    wd = "%s:%s" % (d.file, d.line)
    # ---- Z1 ------------------------------------------------------------------------------------
    found = []
    for bb, t in d.calls():
        n = strip_generics(callee_def(t))
        if UNBOUNDED.search(n):
            rep.add("Z1", "unbounded-decompress:" + n, False, d.where(bb), "zstd decompression without a capacity bound")
        for pat, ai_data, ai_cap in BOUNDED:
            if re.search(pat, n):
                found.append((bb, t, ai_data, ai_cap))
    rep.floor("Z1", "bounded-zstd-decompress-call", len(found), 1)
    zres = None
    for bb, t, ai_data, ai_cap in found:
        rep.add("Z1", "capacity-unchanged", _arg_origin_is_param(d, t["args"][ai_cap], 2), d.where(bb),
                "capacity argument must be the `capacity` parameter through copies only")
        rep.add("Z1", "input-unchanged", _arg_origin_is_param(d, t["args"][ai_data], 1), d.where(bb),
                "the bytes handed to zstd must be the caller's slice")
        zres = t["dest"]["l"]
    # ---- Z2 ------------------------------------------------------------------------------------
    for body, nm in ((d, "decompress_zstd"), (c, "compress_zstd")):
        n = 0
        for bb, t in err.result_calls(body):
            n += 1
            cl = err.classify(body, t["dest"]["l"])
            ok = all(k == err.PROPAGATE for k, _, _ in cl)
            rep.add("Z2", "propagated:%s:%s" % (nm, strip_generics(callee_def(t))), ok, body.where(bb),
                    "; ".join("%s(%s)" % (k, dd) for k, dd, _ in cl))
        rep.floor("Z2", "result-calls:" + nm, n, 2)
    # ---- Z7: nothing else in decompress_zstd can refuse the call on account of the capacity or the input ---------------
    # The two steps that may fail by the property's own words are the bounded zstd decode (capacity too small / not a
    # frame) and the reconstruction.  Any further fallible call that is handed a value computed from `capacity` or from
    # the caller's bytes (a decoder parameter derived from the capacity, a pre-check of the frame header ...) is a new way
    # to answer Err for a (file, capacity) pair the property says is Ok.
    n7 = 0
    for bb, t in err.result_calls(d):
        nm7 = strip_generics(callee_def(t))
        if any(re.search(pat, nm7) for pat, _, _ in BOUNDED) or nm7 == PC + "recreated_zlib_chunks":
            n7 += 1
            continue
        dep = set()
        for a in t["args"]:
            dep |= _param_deps(d, a)
        rep.add("Z7", "no-other-step-can-refuse:%s" % nm7, not dep, d.where(bb),
                "fallible call besides the bounded decode and the reconstruction; its arguments depend on parameter(s) %s (1 = the bytes, 2 = capacity)" % sorted(dep))
    rep.floor("Z7", "fallible-steps", n7, 2)
    # ---- Z3 ------------------------------------------------------------------------------------
    rc = [(bb, t) for bb, t in d.calls() if strip_generics(callee_def(t)) == PC + "recreated_zlib_chunks"]
    rep.floor("Z3", "recreated_zlib_chunks-call", len(rc), 1)
    if rc:
        bb, t = rc[0]
        ti = err.try_info(d, t["dest"]["l"])
        oks = [b for b in d.normal_blocks() for s in d.stmts(b)
               if s["k"] == "assign" and s["p"]["l"] == 0 and not s["p"]["p"] and s["r"]["k"] == "agg" and s["r"].get("vname") == "Ok"]
        rep.floor("Z3", "ok-returns", len(oks), 1)
        for ob in oks:
            ok = ti is not None and any(d.edge_dominates(a, s, ob) for a, s in ti["continue_edges"])
            rep.add("Z3", "Ok-after-reconstruction:bb%d" % ob, ok, d.where(ob), "Ok(..) must lie behind the success edge of recreated_zlib_chunks(..)?")
            # the returned vector is the destination
            for s in d.stmts(ob):
                if s["k"] == "assign" and s["p"]["l"] == 0 and s["r"]["k"] == "agg":
                    ret = flow.origin(d, s["r"]["ops"][0], through=("use",))
                    dst = flow.origin(d, t["args"][1], through=("use", "ref"))
                    retl = _roots(d, s["r"]["ops"][0])
                    dstl = _roots(d, t["args"][1])
                    rep.add("Z3", "returns-the-destination", bool(retl) and retl == dstl, d.where(ob),
                            "returned value roots %r, destination roots %r" % (sorted(retl), sorted(dstl)))
        # source = Cursor over the zstd payload
        if zres is not None:
            zi = err.try_info(d, zres)
            srcroots = _roots(d, t["args"][0])
            src_ok = False
            for l in srcroots:
                for bb2, idx, kind, payload in d.defs(l):
                    if kind == "call" and strip_generics(callee_def(payload)) == "std::io::Cursor::new":
                        ar = _roots(d, payload["args"][0])
                        src_ok = zi is not None and bool(ar) and ar <= zi["payload"]
            rep.add("Z3", "source-is-zstd-output", src_ok, d.where(bb), "recreated_zlib_chunks reads a Cursor over the Ok payload of the zstd call")
    # ---- A7 compress side ----------------------------------------------------------------------
    wc = "%s:%s" % (c.file, c.line)
    ex = [(bb, t) for bb, t in c.calls() if strip_generics(callee_def(t)) == PC + "expand_zlib_chunks"]
    zc = [(bb, t) for bb, t in c.calls() if re.search(r"^zstd::bulk::(compress|Compressor::compress)$", strip_generics(callee_def(t)))]
    rep.floor("A7", "expand-call", len(ex), 1)
    rep.floor("A7", "zstd-compress-call", len(zc), 1)
    if ex and zc:
        rep.add("A7", "input-unchanged", _arg_origin_is_param(c, ex[0][1]["args"][0], 1), c.where(ex[0][0]), "expand_zlib_chunks receives the caller's slice")
        ei = err.try_info(c, ex[0][1]["dest"]["l"])
        zarg = _roots(c, zc[0][1]["args"][0 if zc[0][1]["callee"]["def"].endswith("bulk::compress") else 1])
        # follow Deref::deref(&plain_text)
        zarg2 = set()
        for l in zarg:
            for bb2, idx, kind, payload in c.defs(l):
                if kind == "call" and strip_generics(callee_def(payload)).endswith("Deref::deref"):
                    zarg2 |= _roots(c, payload["args"][0])
                else:
                    zarg2.add(l)
        rep.add("A7", "expanded-form-unchanged", ei is not None and bool(zarg2) and zarg2 <= ei["payload"], c.where(zc[0][0]),
                "the bytes compressed are the Ok payload of expand_zlib_chunks (roots %r)" % sorted(zarg2))
        zi = err.try_info(c, zc[0][1]["dest"]["l"])
        oks = [(b, s) for b in c.normal_blocks() for s in c.stmts(b)
               if s["k"] == "assign" and s["p"]["l"] == 0 and not s["p"]["p"] and s["r"]["k"] == "agg" and s["r"].get("vname") == "Ok"]
        rep.floor("A7", "ok-returns", len(oks), 1)
        for b, s in oks:
            r = _roots(c, s["r"]["ops"][0])
            rep.add("A7", "returns-zstd-output:bb%d" % b, zi is not None and bool(r) and r <= zi["payload"], c.where(b),
                    "Ok(..) carries the Ok payload of the zstd compressor")
    # ---- Z4 ------------------------------------------------------------------------------------
    has = any("<preflate_rs::preflate_error::PreflateError as std::convert::From<std::io::Error>>::from" in i["name"] for i in F.instances)
    rep.add("Z4", "From<io::Error>-for-PreflateError", has, "", "the io::Error -> PreflateError conversion used by `?` is instantiated")
    # Z5: zstd's one-shot decoder answers input without any data frame (empty, or skippable frames only) with 0 bytes and no
    # error; what rejects it is the container reader, whose first step reads the version byte *exactly*.  So in
    # recreated_zlib_chunks every non-error result must lie behind the success edge of an exact read (read_u8 / read_exact).
    rz = F.body(PC + "recreated_zlib_chunks")
    exact = [(bb, t) for bb, t in rz.calls() if re.search(r"(ReadBytesExt::read_u8|Read::read_exact)$", strip_generics(callee_def(t)))]
    okz = False
    if exact:
        prods = [pb for pb, _ in err.result_producers(rz, F)]
        for bb, t in exact:
            ti = err.try_info(rz, t["dest"]["l"])
            if ti and prods and all(any(rz.edge_dominates(a, s2, pb) for a, s2 in ti["continue_edges"]) for pb in prods):
                okz = True
    rep.add("Z5", "empty-container-is-an-error", okz, "%s:%s" % (rz.file, rz.line),
            "every Ok of recreated_zlib_chunks is behind an exact read of the version byte (%d exact reads found)" % len(exact))
    # Z6: decompress_zstd refuses nothing on its own: every error it returns is one it propagates from zstd or from the
    # reconstruction (a post-check like `result.len() > capacity` turns adequate capacities into errors)
    dz = F.body(PC + "decompress_zstd")
    own = err.own_errors(F, dz)
    rep.add("Z6", "no-error-of-its-own", not own, "%s:%s" % (dz.file, dz.line), "errors constructed by decompress_zstd itself: %s" % own)
    # "does not panic": every explicit failure construct mono-reachable from the two wrappers — including the error
    # conversions that `?` calls — must be a row of the reviewed table (same table and obligations as C01/A6, C05/X1)
    from . import site
    site.check_sites(F, rep, "Z4", [PC + "decompress_zstd", PC + "compress_zstd"], 20)
    # Z8: partial operations (division, remainder, ilog) under the two entries need a non-zero constant or a proof of >= 1
    from . import lin as _lin
    _lin.x9(ctx, rep, "Z8", [PC + "decompress_zstd", PC + "compress_zstd"])


def _param_deps(body, opnd, depth=0, seen=None):
    """Parameters (1-based) the operand's value is computed from, through expressions and through the arguments of calls."""
    seen = set() if seen is None else seen
    o = flow.origin(body, opnd)
    out = set(o.args)
    if depth > 6:
        return out
    for bb, t in o.calls:
        if bb in seen:
            continue
        seen.add(bb)
        for a in t["args"]:
            out |= _param_deps(body, a, depth + 1, seen)
    for bb, idx, r in o.exprs:
        if ("e", bb, idx) in seen:
            continue
        seen.add(("e", bb, idx))
        for pl in flow.places_in(r):
            out |= _param_deps(body, {"l": pl["l"], "p": []}, depth + 1, seen)
    return out


def _roots(body, opnd):
    """Root locals of an operand through copies / moves / borrows / reborrows."""
    out = set()
    seen = set()

    def go(op):
        p = op_place(op) if ("c" in op or "m" in op) else (op if "l" in op else None)
        if p is None:
            return
        l = p["l"]
        if l in seen:
            return
        seen.add(l)
        ds = body.defs(l)
        progressed = False
        for bb, idx, kind, payload in ds:
            if kind == "assign" and payload["k"] == "use" and op_place(payload["op"]) is not None and not any(
                    isinstance(e, dict) and "dc" in e for e in op_place(payload["op"])["p"]):
                go(payload["op"])
                progressed = True
            elif kind == "assign" and payload["k"] in ("ref", "rawptr"):
                go(payload["place"])
                progressed = True
        if not progressed:
            out.add(l)
    go(opnd)
    return out
