"""Struct invariants of the drain-loop kind: "between calls, field f of T is below K".

The argument is the usual one for a representation invariant and is made entirely from the shape of the code:

  1. who-may-write: every store to `T.f`, every `&mut T.f` and every aggregate that builds a `T` is found over ALL bodies of the
     crate; stores are allowed only inside methods of `T` listed as (a) the drain routine and (b) routines that end by calling it;
     aggregates must put 0 (or the type's Default) into `f`;
  2. the drain routine leaves only through the false edge of its single loop test `f >= K` (or `f > K-1`);
  3. every other writer calls the drain routine after its last store to `f` and before every return.

From 1-3: on entry to any function the field is below K, provided no store to `f` precedes the point of use in that function.
The fields are `pub`, so the statement is about this crate's code (all of it is analysed), which is what the properties quantify over.

Only one instance exists in preflate-rs (BitWriter.bits_in < 8); the routine is written for that shape and fails closed on anything else.
"""
import re
from . import flow
from .facts import callee_def, op_place
from .common import strip_generics, macro_names

_ASSERTS = ("assert", "assert_eq", "assert_ne", "debug_assert", "debug_assert_eq", "debug_assert_ne")


def _field_in(place, field):
    return any(isinstance(e, dict) and e.get("n") == field for e in (place or {}).get("p", []))


def _panicky(b, bb, depth=0):
    t = b.term(bb)
    if t["k"] == "call" and "panic" in callee_def(t):
        return True
    if t["k"] == "unreachable":
        return True
    if t["k"] == "goto" and depth < 3:
        return _panicky(b, t["t"], depth + 1)
    return False


def drain_invariant(F, adt, field, drain):
    """(K, detail) when `adt.field < K` holds between calls, else (None, why)."""
    try:
        dr = F.body(drain)
    except Exception:
        return None, "drain routine %s not found" % drain
    # ---- 2. the drain loop -------------------------------------------------------------------------------------------
    tests = []
    for sb in sorted(dr.normal_blocks()):
        t = dr.term(sb)
        if t["k"] != "switch":
            continue
        if any(m in _ASSERTS for m in macro_names(t.get("exp"))):
            continue
        if any(_panicky(dr, x) for x in [y for _, y in t["targets"]] + [t["otherwise"]]):
            continue
        tests.append((sb, t))
    if len(tests) != 1:
        return None, "%s has %d loop tests, expected the single drain test" % (drain, len(tests))
    sb, t = tests[0]
    d = flow.describe(dr, t["d"], names=True) or ""
    m = re.match(r"^(Ge|Gt)\(var\(self\)\.%s, K(\d+)\)$" % re.escape(field), d)
    if not m or len(t["targets"]) != 1 or t["targets"][0][0] != 0:
        return None, "drain test is `%s`, not `self.%s >= K`" % (d, field)
    K = int(m.group(2)) + (1 if m.group(1) == "Gt" else 0)
    exit_edge = t["targets"][0][1]                       # comparison false: field < K
    rets = [bb for bb in dr.normal_blocks() if dr.term(bb)["k"] == "return"]
    if not rets or not all(dr.edge_dominates(sb, exit_edge, r) for r in rets):
        return None, "%s can return without leaving through the false edge of `%s`" % (drain, d)
    # nothing stores the field between that edge and the return
    after = [bb for bb in dr.normal_blocks() if dr.edge_dominates(sb, exit_edge, bb)]
    for bb in after:
        for s in dr.stmts(bb):
            if s["k"] == "assign" and _field_in(s["p"], field):
                return None, "%s stores %s after the loop" % (drain, field)
        tt = dr.term(bb)
        if tt["k"] == "call" and not _panicky(dr, bb) and tt["callee"].get("local"):
            return None, "%s calls %s after the loop" % (drain, callee_def(tt))
    # ---- 1. who may write ----------------------------------------------------------------------------------------------
    writers, n_aggs = {}, 0
    for name, b in sorted(F.bodies.items()):
        for bb in b.normal_blocks():
            for s in b.stmts(bb):
                if s["k"] != "assign":
                    continue
                r = s["r"]
                if _field_in(s["p"], field) and _owner_is(b, s["p"], adt):
                    writers.setdefault(name, []).append(bb)
                if r["k"] == "ref" and r.get("mut") and _field_in(r.get("place"), field) and _owner_is(b, r["place"], adt):
                    return None, "%s takes `&mut %s`" % (name, field)
                if r["k"] == "addr" and _field_in(r.get("place"), field):
                    return None, "%s takes a raw pointer to %s" % (name, field)
                if r["k"] == "agg" and r.get("adt") == adt:
                    n_aggs += 1
                    i = r["fields"].index(field)
                    v = flow.const_eval(b, r["ops"][i])
                    if v is None:
                        v = _default_zero(b, r["ops"][i])
                    if v != 0:
                        return None, "%s builds a %s with %s = %s" % (name, adt, field, flow.describe(b, r["ops"][i], names=True))
    if n_aggs == 0:
        return None, "no construction of %s found" % adt
    # ---- 3. every other writer drains afterwards -------------------------------------------------------------------------
    for name, bbs in sorted(writers.items()):
        if name == drain:
            continue
        if re.sub(r"::[^:]+$", "", strip_generics(name)) != re.sub(r"::[^:]+$", "", strip_generics(drain)):
            return None, "%s stores %s outside the type's own methods" % (name, field)
        b = F.body(name)
        calls = [bb for bb, tt in b.calls() if strip_generics(callee_def(tt)) == strip_generics(drain)]
        rets = [bb for bb in b.normal_blocks() if b.term(bb)["k"] == "return"]
        ok = False
        for c in calls:
            if all(b.dominates(w, c) for w in bbs) and all(b.dominates(c, r) for r in rets):
                # and no store after the call
                later = [bb for bb in b.normal_blocks() if bb != c and b.dominates(c, bb)]
                if not any(s["k"] == "assign" and _field_in(s["p"], field) for bb in later for s in b.stmts(bb)):
                    ok = True
        if not ok:
            return None, "%s stores %s without draining before it returns" % (name, field)
    return K, "%s.%s < %d between calls: stores only in %s, each followed by %s, which leaves through `!(%s)`; %d construction(s) start at 0" % (
        adt.split("::")[-1], field, K, sorted(x.split("::")[-1] for x in writers), drain.split("::")[-1], d, n_aggs)


def _owner_is(b, place, adt):
    ty = b.locals[place["l"]]["ty"] if place["l"] < len(b.locals) else ""
    return adt in ty


def _default_zero(b, op):
    p = op_place(op)
    if p is None or p["p"]:
        return None
    d = b.single_def(p["l"])
    if d and d[2] == "call" and re.search(r"Default>?::default$", strip_generics(callee_def(d[3]))) and re.match(r"^[ui](8|16|32|64|128|size)$", b.locals[p["l"]]["ty"]):
        return 0
    return None


def at_entry_before_store(b, bb, field):
    """The block is reached from the entry along a straight line on which nothing stores `field` and nothing is called."""
    cur, steps = 0, 0
    while steps < 8:
        if any(s["k"] == "assign" and _field_in(s["p"], field) for s in b.stmts(cur)):
            return False
        if cur == bb:
            return True
        t = b.term(cur)
        if t["k"] == "goto":
            cur = t["t"]
        elif t["k"] == "switch" and flow.const_eval(b, t["d"]) is not None:
            kv = flow.const_eval(b, t["d"])
            cur = dict((v, x) for v, x in t["targets"]).get(kv, t["otherwise"])
        else:
            return False
        steps += 1
    return False
