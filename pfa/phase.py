"""Exact evaluation of small integer expressions as a function of ONE state quantity ranging over a small finite domain
(e.g. the number of bits buffered in the bit reader, 0..7).  This is constant folding of the expression's def-use tree for
each value of the quantity — the same kind of exact finite summary PART computes for the quantize functions — with
loop-free local callees evaluated through their return value.  Anything it does not understand evaluates to None and the
calling rule fails closed."""
import re
from .facts import op_place, op_const, const_int, callee_def
from .common import strip_generics

_W = {"u8": 8, "u16": 16, "u32": 32, "u64": 64, "usize": 64, "i8": 8, "i16": 16, "i32": 32, "i64": 64, "isize": 64, "bool": 1}


class PhaseEval:
    def __init__(self, F, field):
        self.F = F
        self.field = field

    def _wrap(self, v, ty):
        w = _W.get(ty)
        if v is None or w is None:
            return v
        if ty.startswith("u") or ty == "bool":
            return v & ((1 << w) - 1)
        v &= (1 << w) - 1
        return v - (1 << w) if v >> (w - 1) else v

    def ev(self, b, op, value, depth=0, args=None):
        if depth > 40:
            return None
        k = op_const(op)
        if k is not None and isinstance(k, dict) and "ty" in k:
            return const_int(k)
        p = op_place(op) if ("c" in op or "m" in op) else (op if "l" in op else None)
        if p is None:
            return None
        pr = p["p"]
        if pr:
            if any(isinstance(e, dict) and e.get("n") == self.field for e in pr):
                return value
            if len(pr) == 1 and isinstance(pr[0], dict) and pr[0].get("f") == 0 and b.local_ty(p["l"]).startswith("("):
                pass          # checked-arithmetic tuple: value part
            else:
                return None
        l = p["l"]
        if args is not None and 1 <= l <= b.argc and not pr:
            return args.get(l)
        ds = b.defs(l)
        if len(ds) != 1:
            return None
        kind, payload = ds[0][2], ds[0][3]
        ty = b.local_ty(l)
        if kind == "call":
            cn = strip_generics(callee_def(payload))
            if re.search(r"convert::(From::from|Into::into)$", cn) and ty in _W:
                return self._wrap(self.ev(b, payload["args"][0], value, depth + 1, args), ty)
            c = payload["callee"]
            lc = c.get("resolved") if c.get("rlocal") else (c.get("def") if c.get("local") else None)
            cb = self.F.bodies.get(lc) if lc else None
            if cb is not None and not any(x in cb.reachable_from(s) for x in cb.normal_blocks() for s in cb.succ(x) if x == s or x in cb.reachable_from(s)) :
                # loop-free callee: its return value with integer arguments bound where they evaluate
                a = {}
                for i, ao in enumerate(payload["args"]):
                    a[i + 1] = self.ev(b, ao, value, depth + 1, args)
                return self.ev(cb, {"m": {"l": 0, "p": []}}, value, depth + 1, a)
            return None
        if kind != "assign":
            return None
        r = payload
        if r["k"] == "use":
            return self.ev(b, r["op"], value, depth + 1, args)
        if r["k"] == "cast" and r.get("ck") == "IntToInt":
            return self._wrap(self.ev(b, r["op"], value, depth + 1, args), ty if not ty.startswith("(") else None)
        if r["k"] == "binop":
            o = r["op"].replace("WithOverflow", "").replace("Unchecked", "")
            x, y = self.ev(b, r["l"], value, depth + 1, args), self.ev(b, r["r"], value, depth + 1, args)
            if not (isinstance(x, int) and isinstance(y, int)):
                return None
            try:
                v = {"Add": x + y, "Sub": x - y, "Mul": x * y, "Shl": x << y if 0 <= y < 64 else None, "Shr": x >> y if 0 <= y < 64 else None,
                     "BitAnd": x & y, "BitOr": x | y, "BitXor": x ^ y, "Eq": int(x == y), "Ne": int(x != y), "Lt": int(x < y),
                     "Le": int(x <= y), "Gt": int(x > y), "Ge": int(x >= y), "Rem": x % y if y else None, "Div": x // y if y else None}.get(o)
            except Exception:
                return None
            rty = ty
            if ty.startswith("("):
                m = re.match(r"^\((\w+), bool\)$", ty)
                rty = m.group(1) if m else None
            if v is not None and rty in _W and (v < 0 or v >> _W[rty]) and o in ("Add", "Sub", "Mul") and rty.startswith("u"):
                return None       # would overflow: the debug build panics, the release build wraps — not a defined count
            return self._wrap(v, rty) if rty else v
        return None
