"""Lazily initialised immutable statics (`static X: LazyLock<T> = LazyLock::new(f)`).

Such a static is interior-mutable for the type system (it is written once, on first use) but is observationally a
constant when (a) T holds plain data, (b) the initialiser is an argument-free, capture-free function (guaranteed by
the default `F = fn() -> T`: a closure only coerces to a fn pointer when it captures nothing) and (c) that function is
itself clean under the rules of the property that asks (the caller scans it as one more reachable function).
This module recognises the shape and, when the initialiser is a literal, evaluates the value so that C04 can compare it
with the reference exactly as if it were a plain static."""
import re
from . import flow

_SHARED = re.compile(r"(Cell\b|Cell<|Mutex|RwLock|Atomic|Once|Lazy|Condvar|mpsc|mpmc|\*mut |\*const |Rc<|Arc<|dyn |Barrier|Thread)")
_LAZY_TY = re.compile(r"^std::sync::LazyLock<(.*)>$")
_W = {"u8": 1, "i8": 1, "u16": 2, "i16": 2, "u32": 4, "i32": 4, "u64": 8, "i64": 8, "usize": 8, "isize": 8}


def _top_level_args(s):
    out, depth, cur = [], 0, ""
    for ch in s:
        if ch in "<([":
            depth += 1
        elif ch in ">)]":
            depth -= 1
        if ch == "," and depth == 0:
            out.append(cur.strip()); cur = ""
        else:
            cur += ch
    if cur.strip():
        out.append(cur.strip())
    return out


def lazy_type(ty):
    """T when ty is `std::sync::LazyLock<T>` with the default initialiser type, else None."""
    m = _LAZY_TY.match(ty or "")
    if not m:
        return None
    args = _top_level_args(m.group(1))
    return args[0] if len(args) == 1 else None


def is_force_instance(name):
    """Instance names of LazyLock<T>::force / Deref::deref with the default `fn() -> T` initialiser."""
    m = re.match(r"^<std::sync::LazyLock<(.*)> as std::ops::Deref>::deref$", name) or re.match(r"^std::sync::LazyLock::<(.*)>::force$", name)
    return bool(m) and len(_top_level_args(m.group(1))) == 1


def _literal_bytes(F, init_def):
    b = F.bodies.get(init_def)
    if b is None or len(b.normal_blocks()) != 1:
        return None
    st = [s for s in b.stmts(0) if s.get("k") == "assign"]
    if len(st) != 1 or st[0]["p"]["l"] != 0 or st[0]["p"]["p"]:
        return None
    r = st[0]["r"]
    if r.get("k") != "agg" or r.get("ak") != "array" or r.get("ety") not in _W:
        return None
    w = _W[r["ety"]]
    out = bytearray()
    for o in r["ops"]:
        v = (o.get("k") or {}).get("v") or {}
        if "int" not in v:
            return None
        out += (int(v["int"]) & ((1 << (8 * w)) - 1)).to_bytes(w, "little")
    return out.hex()


def lazy_statics(F):
    """{static name: {T, init, ok, why, bytes}} for every crate static of type LazyLock<T>."""
    out = {}
    for name, s in F.statics.items():
        T = lazy_type(s.get("ty"))
        if T is None:
            continue
        info = {"T": T, "init": None, "ok": False, "why": "", "bytes": None}
        out[name] = info
        if s.get("mut") or s.get("thread_local"):
            info["why"] = "static mut / thread_local"; continue
        if _SHARED.search(T):
            info["why"] = "payload type %s can hold shared mutable state" % T; continue
        b = F.const_bodies.get(name)
        if b is None:
            info["why"] = "no initialiser body in the facts"; continue
        calls = [(bb, b.term(bb)) for bb in b.normal_blocks() if b.term(bb)["k"] == "call"]
        if len(calls) != 1 or not re.match(r"^std::sync::LazyLock::<.*>::new$", calls[0][1]["callee"].get("def", "")):
            info["why"] = "initialiser is not a single LazyLock::new(f) call"; continue
        arg = calls[0][1]["args"][0]
        init = None
        cur = (arg.get("m") or arg.get("c") or {}).get("l")
        seen = 0
        while cur is not None and seen < 6:
            seen += 1
            ds = [s2 for bb in b.normal_blocks() for s2 in b.stmts(bb) if s2.get("k") == "assign" and s2["p"]["l"] == cur and not s2["p"]["p"]]
            if len(ds) != 1:
                break
            r = ds[0]["r"]
            if r.get("k") == "agg" and r.get("ak") == "closure":
                init = r["def"] if not r.get("ops") else None
                break
            if r.get("k") == "cast" and "FnPointer" in r.get("ck", ""):
                op = r["op"]
                if "k" in op:                       # fn item constant
                    init = (op["k"].get("fn") or op["k"].get("def") or op["k"].get("from"))
                    break
                cur = (op.get("m") or op.get("c") or {}).get("l")
                continue
            if r.get("k") == "use":
                op = r["op"]
                cur = (op.get("m") or op.get("c") or {}).get("l")
                continue
            break
        if not init or init not in F.bodies:
            info["why"] = "initialiser function not identified (capturing closure or foreign function)"; continue
        if F.bodies[init].argc > (1 if "{closure" in init.split("::")[-1] else 0):
            info["why"] = "initialiser takes arguments"; continue
        info["init"] = init
        info["ok"] = True
        info["bytes"] = _literal_bytes(F, init)
    return out
