"""Fact model: bodies (MIR at opt-level 0), items, monomorphic call graph.

Everything here reads the JSON written by the extractor; nothing under test is executed.
"""
import json, os, re
from collections import defaultdict, deque

CRATE = "preflate_rs"


class AnchorMissing(Exception):
    """A function / item a rule is anchored in is not in the facts (fail closed)."""


def op_place(op):
    """Place of a copy/move operand or None."""
    if op is None:
        return None
    if "c" in op:
        return op["c"]
    if "m" in op:
        return op["m"]
    return None


def op_const(op):
    """The constant dict of a constant operand or None."""
    if op is not None and "k" in op:
        return op["k"]
    return None


def const_int(k):
    """Integer value of a constant dict (or None)."""
    if k is None:
        return None
    v = k.get("v")
    if v and "int" in v:
        x = v["int"]
        return int(x)
    return None


def const_bytes(k):
    """Byte string a constant points to (b"IDAT", &[u8;N]) or None."""
    if k is None:
        return None
    v = k.get("v")
    if not v:
        return None
    for key in ("ptr", "slice", "indirect"):
        if key in v and isinstance(v[key], dict) and "bytes" in v[key]:
            a = v[key]
            hops = 0
            while a.get("ptrs") and len(a["ptrs"]) == 1 and a["ptrs"][0][0] == 0 and a.get("len") in (8, 16) and isinstance(a["ptrs"][0][1], dict) and "bytes" in a["ptrs"][0][1] and hops < 3:
                a = a["ptrs"][0][1]      # a reference to a reference to the data
                hops += 1
            if hops:
                return bytes.fromhex(a["bytes"])
            b = bytes.fromhex(v[key]["bytes"])
            off = v.get("off", 0)
            if key == "slice":
                return b[: v.get("meta", len(b))]
            return b[off:]
    return None


def promoted_bytes(body, k):
    """Bytes of a promoted constant `&[u8; N]` in a generic function (not evaluable by rustc without
    substitutions): read off the promoted MIR body `_1 = [consts..]; _0 = &_1`."""
    import re
    m = re.search(r"promoted\[(\d+)\]$", k.get("s", "") or "")
    if not m:
        return None
    idx = int(m.group(1))
    proms = body.j.get("promoted") or []
    if idx >= len(proms):
        return None
    out = None
    for bl in proms[idx]["blocks"]:
        for s in bl["s"]:
            if s["k"] == "assign" and s["r"]["k"] == "agg" and s["r"].get("ak") == "array":
                vals = [const_int(op_const(o)) for o in s["r"]["ops"]]
                if all(v is not None and 0 <= v < 256 for v in vals):
                    out = bytes(vals)
            elif s["k"] == "assign" and s["r"]["k"] == "use":
                b = const_bytes(op_const(s["r"]["op"]))
                if b is not None:
                    out = b
    return out


def promoted_int(body, k):
    """Integer a promoted `&CONST` refers to, read off the promoted MIR body (generic functions only)."""
    import re
    m = re.search(r"promoted\[(\d+)\]$", k.get("s", "") or "")
    idx = int(m.group(1)) if m else k.get("pidx")
    proms = body.j.get("promoted") or []
    if idx is None or idx >= len(proms):
        return None
    vals = []
    for bl in proms[idx]["blocks"]:
        for s in bl["s"]:
            if s["k"] == "assign" and s["r"]["k"] == "use":
                v = const_int(op_const(s["r"]["op"]))
                if v is not None:
                    vals.append(v)
    return vals[0] if len(vals) == 1 else None


def v_len(c):
    v = c.get("v", {})
    for key in ("indirect", "ptr", "slice"):
        if key in v and isinstance(v[key], dict) and "len" in v[key]:
            return v[key]["len"] - v.get("off", 0)
    return None


def is_local(place, l=None):
    return place is not None and not place["p"] and (l is None or place["l"] == l)


class Body:
    def __init__(self, name, j):
        self.name = name
        self.j = j
        self.locals = j["locals"]
        self.blocks = j["blocks"]
        self.argc = j["argc"]
        self.file = j.get("file")
        self.line = j.get("line")
        self.n = len(self.blocks)
        self._succ = None
        self._pred = None
        self._dom = None
        self._pdom = None
        self._defs = None
        self._uses = None

    # ---- CFG ------------------------------------------------------------------------------
    def term(self, bb):
        return self.blocks[bb]["t"]

    def stmts(self, bb):
        return self.blocks[bb]["s"]

    def is_cleanup(self, bb):
        return bool(self.blocks[bb].get("cleanup"))

    def succ(self, bb):
        """Normal-flow successors (unwind edges excluded)."""
        if self._succ is None:
            self._succ = [self._succ1(i) for i in range(self.n)]
        return self._succ[bb]

    def _succ1(self, bb):
        t = self.blocks[bb]["t"]
        k = t["k"]
        if k == "goto":
            return [t["t"]]
        if k == "switch":
            out = [b for _, b in t["targets"]]
            out.append(t["otherwise"])
            # dedupe, keep order
            seen, res = set(), []
            for b in out:
                if b not in seen:
                    seen.add(b)
                    res.append(b)
            return res
        if k in ("call", "drop", "assert"):
            return [t["t"]] if t.get("t") is not None else []
        return []

    def pred(self, bb):
        if self._pred is None:
            p = [[] for _ in range(self.n)]
            for i in range(self.n):
                for s in self.succ(i):
                    p[s].append(i)
            self._pred = p
        return self._pred[bb]

    def reachable_from(self, start, avoid=()):
        """Blocks reachable from `start` (inclusive) along normal edges, not entering `avoid`."""
        avoid = set(avoid)
        seen = set()
        dq = deque([start])
        while dq:
            b = dq.popleft()
            if b in seen or b in avoid:
                continue
            seen.add(b)
            for s in self.succ(b):
                if s not in seen:
                    dq.append(s)
        return seen

    def normal_blocks(self):
        return self.reachable_from(0)

    def dominators(self):
        """dom[b] = set of blocks dominating b (normal-flow CFG from block 0)."""
        if self._dom is None:
            self._dom = _dominators(self.n, 0, self.succ, self.pred, self.normal_blocks())
        return self._dom

    def dominates(self, a, b):
        d = self.dominators()
        return b in d and a in d[b]

    def return_blocks(self):
        return [b for b in self.normal_blocks() if self.term(b)["k"] == "return"]

    def edge_dominates(self, a, s, b):
        """Does the CFG edge a->s dominate block b?  (every path entry->b uses that edge)"""
        if not self.dominates(a, b) and a != b:
            return False
        # remove edge a->s and test reachability of b
        seen = set()
        dq = deque([0])
        while dq:
            x = dq.popleft()
            if x in seen:
                continue
            seen.add(x)
            for y in self.succ(x):
                if x == a and y == s:
                    continue
                if y not in seen:
                    dq.append(y)
        return b not in seen

    # ---- defs / uses ----------------------------------------------------------------------
    def defs(self, local):
        """All definition sites of a whole local: list of (bb, idx, kind, payload).
        kind = 'assign' (payload rvalue), 'call' (payload terminator), 'arg'."""
        if self._defs is None:
            d = defaultdict(list)
            for l in range(1, self.argc + 1):
                d[l].append((-1, -1, "arg", l))
            for bb in range(self.n):
                for i, s in enumerate(self.stmts(bb)):
                    if s["k"] == "assign":
                        p = s["p"]
                        if not p["p"]:
                            d[p["l"]].append((bb, i, "assign", s["r"]))
                        elif p["p"][0] != "*":
                            d[p["l"]].append((bb, i, "partial", s))
                        # a store through a reference/pointer ((*p).f = v) does not redefine p
                    elif s["k"] == "setdiscr":
                        d[s["p"]["l"]].append((bb, i, "partial", s))
                t = self.term(bb)
                if t["k"] == "call":
                    p = t["dest"]
                    if not p["p"]:
                        d[p["l"]].append((bb, len(self.stmts(bb)), "call", t))
                    elif p["p"][0] != "*":
                        d[p["l"]].append((bb, len(self.stmts(bb)), "partial", t))
            self._defs = d
        return self._defs.get(local, [])

    def single_def(self, local):
        ds = [d for d in self.defs(local)]
        if len(ds) == 1:
            return ds[0]
        return None

    def local_ty(self, l):
        return self.locals[l]["ty"]

    def local_name(self, l):
        return self.locals[l].get("name")

    def locals_named(self, name):
        return [i for i, l in enumerate(self.locals) if l.get("name") == name]

    def calls(self):
        """Yield (bb, terminator) for every call terminator in normal-flow blocks."""
        nb = self.normal_blocks()
        for bb in range(self.n):
            if bb in nb and self.term(bb)["k"] == "call":
                yield bb, self.term(bb)

    def where(self, bb):
        t = self.term(bb)
        return "%s:%s" % (self.file, t.get("line"))


def _dominators(n, entry, succ, pred, nodes):
    nodes = set(nodes)
    dom = {b: set(nodes) for b in nodes}
    dom[entry] = {entry}
    # reverse post-order
    order = []
    seen = set()

    def dfs(b):
        stack = [(b, iter(succ(b)))]
        seen.add(b)
        while stack:
            x, it = stack[-1]
            adv = False
            for y in it:
                if y in nodes and y not in seen:
                    seen.add(y)
                    stack.append((y, iter(succ(y))))
                    adv = True
                    break
            if not adv:
                order.append(x)
                stack.pop()

    dfs(entry)
    order.reverse()
    changed = True
    while changed:
        changed = False
        for b in order:
            if b == entry:
                continue
            ps = [p for p in pred(b) if p in nodes]
            if not ps:
                continue
            new = set.intersection(*[dom[p] for p in ps]) | {b}
            if new != dom[b]:
                dom[b] = new
                changed = True
    return dom


def callee_def(t):
    """Generic definition path of a call terminator's callee ('' for indirect)."""
    c = t.get("callee", {})
    return c.get("def") or ""


def callee_resolved(t):
    c = t.get("callee", {})
    return c.get("resolved") or c.get("def") or ""


_GEN = re.compile(r"::<.*>$")


def variable_signature(b, l):
    """Name-free description of how a user variable is defined (all its definitions, sorted)."""
    from . import flow
    out = []
    for bb, idx, kind, payload in b.defs(l):
        try:
            if kind == "assign":
                d = flow.describe_rvalue(b, payload, names=False)
            elif kind == "call":
                d = "call:" + (payload["callee"].get("def") or "")
            else:
                d = kind
        except Exception:
            d = "?"
        out.append(re.sub(r"var\([^()]*\)", "var(?)", d)[:400])
    return "|".join(sorted(out))


def body_fingerprint(j):
    """Name-free summary of a function body: block count, terminator kinds, callee base names, integer constants.  Two bodies
    with the same fingerprint, arity and (in the crate) no other taker are taken to be the same function under another name
    or in another place (associated function <-> free function <-> method of another type)."""
    import hashlib
    terms, calls, consts = [], [], []

    def walk(o):
        if isinstance(o, dict):
            k = o.get("k")
            if isinstance(k, dict) and "ty" in k and isinstance(k.get("v"), dict) and "int" in k["v"]:
                consts.append(str(k["v"]["int"]))
            for v in o.values():
                walk(v)
        elif isinstance(o, list):
            for v in o:
                walk(v)
    for bl in j.get("blocks", []):
        t = bl["t"]
        terms.append(t["k"])
        if t["k"] == "call":
            d = t["callee"].get("def", "?")
            calls.append(re.sub(r"<.*?>", "", d).split("::")[-1])
        walk(bl["s"])
        walk({x: y for x, y in t.items() if x != "callee"})
    key = "%d|%s|%s|%s" % (len(j.get("blocks", [])), ",".join(terms), ",".join(calls), ",".join(sorted(consts)))
    return hashlib.sha256(key.encode()).hexdigest()[:20]


class Facts:
    def __init__(self, d, which="lib"):
        self.dir = d
        p = os.path.join(d, "preflate_rs-lib.json" if which == "lib" else "preflate_util-bin.json")
        if not os.path.exists(p):
            raise AnchorMissing("fact file missing: " + p)
        self.j = json.load(open(p))
        self.fn_renamed = {}
        self.inlined = {}
        if which == "lib" and os.environ.get("PFA_NO_VARNAMES") != "1":
            p = self._canonical_adt_paths(p)
            self._canonical_function_names(p)
            if getattr(self, "_tmp_facts", None):
                try:
                    os.remove(self._tmp_facts)
                except OSError:
                    pass
            self._canonical_const_names()
            self._canonical_field_names()
            self.inlined = {}
            rp = os.path.join(os.path.dirname(os.path.dirname(os.path.abspath(__file__))), "reference", "fnnames.json")
            if os.path.exists(rp) and os.environ.get("PFA_NO_INLINE") != "1":
                from .inline import inline_new_helpers
                self.inlined = inline_new_helpers(self.j, set(json.load(open(rp))))
        self.which = which
        # a new helper that was spliced into all of its callers is represented by those copies only
        self.bodies = {k: Body(k, v) for k, v in self.j["bodies"].items() if k not in getattr(self, "inlined", {})}
        self.const_bodies = {k: Body(k, v) for k, v in self.j.get("const_bodies", {}).items()}
        self.instances = self.j["instances"]
        self.by_name = {}
        for i in self.instances:
            self.by_name.setdefault(i["name"], i["id"])
        self.consts = self.j["consts"]
        self.statics = self.j["statics"]
        self.adts = self.j["adts"]
        self._callmap = {}
        self.renamed = {}
        if which == "lib" and os.environ.get("PFA_NO_VARNAMES") != "1":
            self._canonical_variable_names()

    # ---- neither are the names of private functions ----------------------------------------------------
    def _canonical_function_names(self, path):
        """Rules find their anchors by definition path.  A free function or inherent method that was merely renamed (same
        parent path, same signature, and the reference name no longer exists) or merely moved (same name, signature and arity
        under another parent path) is given its reference path back: the
        definition path is substituted textually in the fact file before it is interpreted, so callees, instances and
        closures follow.  Only unambiguous cases are touched; everything else stays an honest ANCHOR-MISSING."""
        rp = os.path.join(os.path.dirname(os.path.dirname(os.path.abspath(__file__))), "reference", "fnnames.json")
        if not os.path.exists(rp):
            return
        ref = json.load(open(rp))
        cur = {k: v for k, v in self.j["bodies"].items() if v.get("kind") in ("fn", "assocfn") and "{" not in k}
        gone = [k for k in ref if k not in cur]
        new = [k for k in cur if k not in ref]
        if not gone or not new:
            return
        pairs = {}
        for g in gone:
            parent = g.rsplit("::", 1)[0]
            if g.startswith("<") or parent.startswith("<"):
                continue
            cands = [n for n in new if n.rsplit("::", 1)[0] == parent and cur[n].get("sig") == ref[g]["sig"] and cur[n].get("argc") == ref[g]["argc"]]
            back = [g2 for g2 in gone if g2.rsplit("::", 1)[0] == parent and ref[g2]["sig"] == ref[g]["sig"] and ref[g2]["argc"] == ref[g]["argc"]]
            if len(cands) == 1 and len(back) == 1:
                pairs[cands[0]] = g
                continue
            if cands:
                continue
            # moved, not renamed: same last path segment, signature and arity somewhere else in the crate, and nothing else
            # that went missing could claim it
            base = g.rsplit("::", 1)[-1]
            cands = [n for n in new if n.rsplit("::", 1)[-1] == base and not n.startswith("<") and cur[n].get("sig") == ref[g]["sig"] and cur[n].get("argc") == ref[g]["argc"]]
            back = [g2 for g2 in gone if g2.rsplit("::", 1)[-1] == base and ref[g2]["sig"] == ref[g]["sig"] and ref[g2]["argc"] == ref[g]["argc"]]
            if len(cands) == 1 and len(back) == 1 and cands[0] not in pairs:
                pairs[cands[0]] = g
                continue
            if cands:
                continue
            # the same body under another name in another place (associated function <-> free function <-> method of
            # another type): identical fingerprint and arity, one candidate, one claimant
            fp = ref[g].get("fp")
            if fp:
                cands = [n for n in new if not n.startswith("<") and cur[n].get("argc") == ref[g]["argc"] and body_fingerprint(cur[n]) == fp]
                back = [g2 for g2 in gone if ref[g2].get("fp") == fp and ref[g2]["argc"] == ref[g]["argc"]]
                if len(cands) == 1 and len(back) == 1 and cands[0] not in pairs:
                    pairs[cands[0]] = g
        if not pairs:
            return
        raw = open(path).read()
        for c, g in pairs.items():
            raw = re.sub(re.escape(c) + r"(?![A-Za-z0-9_])", g.replace("\\", "\\\\"), raw)
            cs, gs = c.replace("preflate_rs::", "", 1), g.replace("preflate_rs::", "", 1)
            self.fn_renamed[c] = g
        self.j = json.loads(raw)

    # ---- nor the module a type lives in ---------------------------------------------------------------------
    def _canonical_adt_paths(self, path):
        """A struct / enum moved to another module (same name, same fields or variants) gets its reference path back — and with
        it the paths of its methods, and every signature that mentions it.  Returns the path of the (possibly rewritten) fact
        file to continue with."""
        rp = os.path.join(os.path.dirname(os.path.dirname(os.path.abspath(__file__))), "reference", "adtshapes.json")
        if not os.path.exists(rp):
            return path
        ref = json.load(open(rp))
        adts = self.j.get("adts", {})

        def shape(v):
            return [[var.get("name"), [[f["name"], f["ty"]] for f in var.get("fields", [])]] for var in v.get("variants", [])]
        gone = [a for a in ref if a not in adts]
        new = [a for a in adts if a not in ref and a.startswith("preflate_rs::")]
        pairs = {}
        for g in gone:
            base = g.rsplit("::", 1)[-1]
            cands = [n for n in new if n.rsplit("::", 1)[-1] == base and json.dumps(shape(adts[n])).replace(n.rsplit("::", 1)[0], g.rsplit("::", 1)[0]) == json.dumps(ref[g])]
            if len(cands) == 1:
                pairs[cands[0]] = g
        if not pairs:
            return path
        raw = open(path).read()
        for c, g in pairs.items():
            raw = re.sub(re.escape(c) + r"(?![A-Za-z0-9_])", g.replace("\\", "\\\\"), raw)
            self.fn_renamed["type:" + c] = g
        self.j = json.loads(raw)
        import tempfile
        fd, tmp = tempfile.mkstemp(prefix="pfa-facts-", suffix=".json")
        with os.fdopen(fd, "w") as fh:
            fh.write(raw)
        self._tmp_facts = tmp
        return tmp

    # ---- nor the names of struct fields -----------------------------------------------------------------
    def _canonical_field_names(self):
        """A struct whose fields kept their number, order and types but changed names gets the reference names back (UB
        summaries, descriptors and tables address fields by name).  Only when the new name is not a field name of any other
        type of the crate, so that the textual substitution over the projections cannot hit anything else."""
        rp = os.path.join(os.path.dirname(os.path.dirname(os.path.abspath(__file__))), "reference", "adtfields.json")
        if not os.path.exists(rp):
            return
        ref = json.load(open(rp))
        adts = self.j.get("adts", {})
        all_names = {}
        for a, v in adts.items():
            for var in v.get("variants", []):
                for f in var.get("fields", []):
                    all_names.setdefault(f["name"], set()).add(a)
        ren = {}
        for a, rfields in ref.items():
            cur = adts.get(a)
            if not cur or cur.get("kind") != "struct" or len(cur.get("variants", [])) != 1:
                continue
            cf = cur["variants"][0]["fields"]
            if len(cf) != len(rfields) or [f["ty"] for f in cf] != [t for _, t in rfields]:
                continue
            for f, (rn, _) in zip(cf, rfields):
                if f["name"] != rn and all_names.get(f["name"]) == {a} and rn not in all_names and not f["name"].isdigit():
                    ren[f["name"]] = rn
        if not ren:
            return
        raw = json.dumps(self.j)
        for new, old in ren.items():
            raw = raw.replace('"n": "%s"' % new, '"n": "%s"' % old)
            self.fn_renamed["field:" + new] = old
        self.j = json.loads(raw)
        for a, v in self.j.get("adts", {}).items():
            for var in v.get("variants", []):
                for f in var.get("fields", []):
                    if f["name"] in ren and all_names.get(f["name"]) == {a}:
                        f["name"] = ren[f["name"]]

    # ---- nor the names and homes of constants -------------------------------------------------------------
    def _canonical_const_names(self):
        """Some rules read a named constant by its path (the RFC tables, the zip signature ...).  A constant that was renamed
        or moved — its reference path is gone, and exactly one new constant has the same type and the same value, with either
        the same parent path or the same name — gets its reference path back (textual substitution over the facts)."""
        rp = os.path.join(os.path.dirname(os.path.dirname(os.path.abspath(__file__))), "reference", "constnames.json")
        if not os.path.exists(rp):
            return
        ref = json.load(open(rp))
        cur = self.j.get("consts", {})
        gone = [k for k in ref if k not in cur]
        new = [k for k in cur if k not in ref]
        if not gone or not new:
            return

        def same(a, r):
            return cur[a].get("ty") == r["ty"] and json.dumps(cur[a].get("v"), sort_keys=True) == r["v"]
        pairs = {}
        for g in gone:
            parent, base = g.rsplit("::", 1)
            exact = [n for n in new if same(n, ref[g]) and n.rsplit("::", 1)[-1] == base]
            if len(exact) == 1 and exact[0] not in pairs:
                pairs[exact[0]] = g             # same name, type and value somewhere else: moved
                continue
            cands = [n for n in new if same(n, ref[g]) and (n.rsplit("::", 1)[0] == parent or n.rsplit("::", 1)[-1] == base)]
            back = [g2 for g2 in gone if ref[g2] == ref[g] and (g2.rsplit("::", 1)[0] == parent or g2.rsplit("::", 1)[-1] == base)]
            if len(cands) == 1 and len(back) == 1 and cands[0] not in pairs:
                pairs[cands[0]] = g
        if not pairs:
            return
        raw = json.dumps(self.j)
        for c, g in pairs.items():
            raw = re.sub(re.escape(c) + r"(?![A-Za-z0-9_])", g.replace("\\", "\\\\"), raw)
            self.fn_renamed[c] = g
        self.j = json.loads(raw)

    # ---- user variable names are not semantics ----------------------------------------------------
    def _canonical_variable_names(self):
        """Several rules address a value by the name of the user variable that holds it (`lcode`, `chunk_len`, ...), because
        that is the stable handle MIR debug info offers.  Renaming a variable must not change a verdict, so names are made
        canonical first: reference/varnames.json records, per function, the named locals of the reference tree with their
        type and a name-free signature of their definitions; a local whose name is not in that list is matched to the
        unmatched reference variable with the same type and definition signature (then: same type, declaration order) and
        is given the reference name.  Nothing else about the body changes."""
        p = os.path.join(os.path.dirname(os.path.dirname(os.path.abspath(__file__))), "reference", "varnames.json")
        if not os.path.exists(p):
            return
        ref = json.load(open(p))
        for fn, rvars in ref.items():
            b = self.bodies.get(fn)
            if b is None:
                continue
            cur = [(i, l.get("name"), l.get("ty")) for i, l in enumerate(b.locals) if l.get("name")]
            # the names rules may rely on; a user variable that is not one of them (a value cached in a new local) is looked
            # through by the named descriptors, like a compiler temporary
            b.ref_names = {r[0] for r in rvars}
            if sorted(n for _, n, _ in cur) == sorted(r[0] for r in rvars):
                continue
            # occurrence-aware identity matching first
            r_un = list(rvars)
            c_un = []
            for i, n, ty in cur:
                hit = next((r for r in r_un if r[0] == n), None)
                if hit is not None:
                    r_un.remove(hit)
                else:
                    c_un.append((i, n, ty))
            if not c_un or not r_un:
                continue
            sigs = {i: variable_signature(b, i) for i, _, _ in c_un}
            for stage in ("sig", "type"):
                for i, n, ty in list(c_un):
                    cands = [r for r in r_un if r[1] == ty and (stage == "type" or r[2] == sigs[i])]
                    if stage == "sig" and len(cands) != 1:
                        continue
                    if not cands:
                        continue
                    r = cands[0]
                    r_un.remove(r)
                    c_un.remove((i, n, ty))
                    b.locals[i]["name"] = r[0]
                    self.renamed.setdefault(fn, []).append((n, r[0]))

    # ---- lookups --------------------------------------------------------------------------
    def body(self, name):
        b = self.bodies.get(name)
        if b is None:
            raise AnchorMissing("function not found in facts: " + name)
        return b

    def find_bodies(self, suffix):
        return [b for k, b in self.bodies.items() if k.endswith(suffix)]

    def const_value(self, name):
        c = self.consts.get(name)
        if c is None:
            raise AnchorMissing("const not found: " + name)
        return c

    def const_int(self, name):
        c = self.const_value(name)
        v = c.get("v", {})
        if "int" not in v:
            raise AnchorMissing("const %s is not an integer" % name)
        return int(v["int"])

    def const_array(self, name, elem_size=None, signed=False):
        """Decode a const/static array of integers by its type string '[uN; len]'."""
        c = self.consts.get(name) or self.statics.get(name)
        if c is None:
            raise AnchorMissing("const/static not found: " + name)
        ty = c["ty"]
        m = re.match(r"^\[([iu])(8|16|32|64|size); ([^\]]+)\]$", ty)
        if not m:
            raise AnchorMissing("const %s has unsupported type %s" % (name, ty))
        sz = {"8": 1, "16": 2, "32": 4, "64": 8, "size": 8}[m.group(2)]
        n = int(m.group(3)) if m.group(3).isdigit() else None
        if "bytes" in c:
            b = bytes.fromhex(c["bytes"])
        else:
            v = c.get("v", {})
            src = v.get("indirect") or v.get("ptr") or v.get("slice")
            if not src or "bytes" not in src:
                raise AnchorMissing("const %s has no byte image" % name)
            b = bytes.fromhex(src["bytes"])[v.get("off", 0):]
        if n is None:
            n = (c.get("len") or v_len(c) or len(b)) // sz
        if len(b) < n * sz:
            raise AnchorMissing("const %s byte image too short" % name)
        return [int.from_bytes(b[i * sz:(i + 1) * sz], "little", signed=(m.group(1) == "i")) for i in range(n)]

    # ---- mono graph -----------------------------------------------------------------------
    def inst(self, i):
        return self.instances[i]

    def instances_of(self, defpath):
        return [i for i in self.instances if i["def"] == defpath]

    def inst_by_name(self, name):
        if name not in self.by_name:
            raise AnchorMissing("instance not found: " + name)
        return self.instances[self.by_name[name]]

    def callmap(self, iid):
        """bb -> callee instance id (or str for indirect/unresolved) for one instance."""
        m = self._callmap.get(iid)
        if m is None:
            m = {}
            for bb, c in self.instances[iid].get("calls", []):
                m[bb] = c
            self._callmap[iid] = m
        return m

    def out_edges(self, iid):
        i = self.instances[iid]
        out = []
        for bb, c in i.get("calls", []):
            if isinstance(c, int):
                out.append(c)
        out.extend(i.get("edges", []))
        return out

    def reach(self, roots, cut=()):
        """Instances reachable from root instance ids; returns dict id -> parent id (witness tree).
        Instances in `cut` are reached but not expanded."""
        parent = {}
        cut = set(cut)
        dq = deque()
        for r in roots:
            if r not in parent:
                parent[r] = None
                dq.append(r)
        while dq:
            x = dq.popleft()
            if x in cut:
                continue
            for y in self.out_edges(x):
                if y not in parent:
                    parent[y] = x
                    dq.append(y)
        return parent

    def witness(self, parent, iid, maxlen=12):
        path = []
        x = iid
        while x is not None and len(path) < 64:
            path.append(self.instances[x]["name"])
            x = parent.get(x)
        path.reverse()
        if len(path) > maxlen:
            path = path[:3] + ["..."] + path[-(maxlen - 4):]
        return " -> ".join(path)

    def roots_for(self, defpaths):
        """Instance ids whose generic definition is one of defpaths."""
        out = []
        for d in defpaths:
            got = [i["id"] for i in self.instances if i["def"] == d]
            if not got:
                raise AnchorMissing("entry point has no instance in the mono graph: " + d)
            out.extend(got)
        return out
