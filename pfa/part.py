"""PART — interval-partition abstract interpretation of small integer functions.

Domain: integer intervals [lo, hi]; a cell of the input partition is refined (bisected) until every
comparison on the path is decided and the result is a single value, so the outcome is an exact piecewise
map `cell -> value` of the *extracted summary*.  Supported shapes: loop-free integer functions and the body
of a `for i in a..b` loop (entered at the block that binds the loop variable, left at the next loop-head).
Unsupported constructs raise Unsupported (the rule then reports UNRECOGNISED-IDIOM, fail closed).
"""
import re
from .facts import op_place, op_const, const_int, callee_def
from .common import strip_generics


class Unsupported(Exception):
    pass


class Undecided(Exception):
    pass


TOP = ("top",)


def iv(lo, hi=None):
    return ("iv", lo, lo if hi is None else hi)


def is_iv(v):
    return isinstance(v, tuple) and v and v[0] == "iv"


def single(v):
    return is_iv(v) and v[1] == v[2]


class Part:
    def __init__(self, F, body, max_steps=4000):
        self.F = F
        self.b = body
        self.max_steps = max_steps

    # ---- operands ---------------------------------------------------------------------------------
    def const(self, k):
        v = const_int(k)
        if v is not None:
            return iv(v)
        if k.get("pidx") is not None:
            proms = self.b.j.get("promoted") or []
            if k["pidx"] < len(proms):
                from .facts import Body
                pb = Body(self.b.name + "::promoted[%d]" % k["pidx"], proms[k["pidx"]])
                try:
                    sub = Part(self.F, pb)
                    res, _, penv = sub.run(0, {})
                    if isinstance(res, tuple) and res and res[0] == "ref":
                        val = sub.place(penv, res[1])
                        if val is not TOP and val != TOP:
                            return val
                except (Unsupported, Undecided):
                    pass
        frm = k.get("from")
        if frm:
            try:
                return ("tab", tuple(self.F.const_array(frm)))
            except Exception:
                pass
        vv = k.get("v") or {}
        if "zst" in vv:
            return ("unit",)
        # inline byte-string constant ([u8; N] literal tables are emitted as indirect constants)
        from .facts import const_bytes
        cb = const_bytes(k)
        if cb is not None and re.match(r"^\[u8; ", k.get("ty", "")):
            return ("tab", tuple(cb))
        m = re.match(r"^\[(u16|u32|usize); ", k.get("ty", ""))
        if m and cb is not None:
            sz = {"u16": 2, "u32": 4, "usize": 8}[m.group(1)]
            return ("tab", tuple(int.from_bytes(cb[i:i + sz], "little") for i in range(0, len(cb) - sz + 1, sz)))
        return TOP

    def place(self, env, p):
        v = env.get(p["l"], TOP)
        for e in p["p"]:
            if e == "*":
                if isinstance(v, tuple) and v and v[0] == "ref":
                    v = self.place(env, v[1])
                # references to constants are modelled by the value itself
            elif isinstance(e, dict) and "f" in e:
                if isinstance(v, tuple) and v and v[0] == "pair":
                    v = v[1 + e["f"]] if e["f"] in (0, 1) else TOP
                elif isinstance(v, tuple) and v and v[0] == "tuple":
                    v = v[1][e["f"]] if e["f"] < len(v[1]) else TOP
                elif isinstance(v, tuple) and v and v[0] == "some" and e["f"] == 0:
                    v = v[1]
                else:
                    return TOP
            elif isinstance(e, dict) and "dc" in e:
                continue
            elif isinstance(e, dict) and "i" in e:
                idx = env.get(e["i"], TOP)
                if isinstance(v, tuple) and v and v[0] == "tab" and is_iv(idx):
                    lo, hi = idx[1], idx[2]
                    if lo < 0 or hi >= len(v[1]):
                        raise Unsupported("table index [%s,%s] out of range %d" % (lo, hi, len(v[1])))
                    vals = set(v[1][lo:hi + 1]) if hi - lo < 70000 else None
                    if vals is None:
                        return TOP
                    v = iv(min(vals), max(vals))
                else:
                    return TOP
            else:
                return TOP
        return v

    def operand(self, env, op):
        k = op_const(op)
        if k is not None and isinstance(k, dict) and "ty" in k:
            return self.const(k)
        p = op_place(op)
        if p is None:
            return TOP
        return self.place(env, p)

    # ---- rvalues ------------------------------------------------------------------------------------
    def binop(self, op, a, b):
        chk = "WithOverflow" in op
        o = op.replace("WithOverflow", "").replace("Unchecked", "")
        if not (is_iv(a) and is_iv(b)):
            return TOP
        al, ah, bl, bh = a[1], a[2], b[1], b[2]
        r = TOP
        if o == "Add":
            r = iv(al + bl, ah + bh)
        elif o == "Sub":
            r = iv(al - bh, ah - bl)
        elif o == "Mul" and al >= 0 and bl >= 0:
            r = iv(al * bl, ah * bh)
        elif o == "Shr" and bl == bh and al >= 0:
            r = iv(al >> bl, ah >> bl)
        elif o == "Shl" and bl == bh and al >= 0:
            r = iv(al << bl, ah << bl)
        elif o == "BitAnd" and bl == bh and al >= 0:
            r = iv(al & bl) if al == ah else iv(0, min(ah, bl))
        elif o == "BitAnd" and al == ah and bl >= 0:
            r = iv(0, min(bh, al))
        elif o in ("BitOr", "BitXor") and al == ah and bl == bh:
            r = iv(al | bl if o == "BitOr" else al ^ bl)
        elif o == "Div" and bl == bh and bl > 0 and al >= 0:
            r = iv(al // bl, ah // bl)
        elif o == "Rem" and bl == bh and bl > 0 and al >= 0:
            r = iv(al % bl) if al == ah else iv(0, bl - 1)
        elif o in ("Lt", "Le", "Gt", "Ge", "Eq", "Ne"):
            def dec(t, f):
                return iv(1) if t else (iv(0) if f else iv(0, 1))
            if o == "Lt":
                r = dec(ah < bl, al >= bh)
            elif o == "Le":
                r = dec(ah <= bl, al > bh)
            elif o == "Gt":
                r = dec(al > bh, ah <= bl)
            elif o == "Ge":
                r = dec(al >= bh, ah < bl)
            elif o == "Eq":
                r = dec(al == ah == bl == bh, ah < bl or al > bh)
            else:
                r = dec(ah < bl or al > bh, al == ah == bl == bh)
        if chk:
            return ("pair", r, iv(0))
        return r

    def rvalue(self, env, r):
        k = r["k"]
        if k == "use":
            return self.operand(env, r["op"])
        if k == "cast":
            v = self.operand(env, r["op"])
            if r["ck"] == "IntToInt" and is_iv(v):
                m = re.match(r"^[iu](8|16|32|64|size)$", r["ty"])
                if m and r["ty"][0] == "u":
                    bits = 64 if m.group(1) == "size" else int(m.group(1))
                    if v[1] < 0 or v[2] >= (1 << bits):
                        if v[1] == v[2]:
                            return iv(v[1] & ((1 << bits) - 1))
                        return iv(0, (1 << bits) - 1)
                return v
            if r["ck"].startswith("PointerCoercion"):
                return v
            return TOP
        if k == "binop":
            return self.binop(r["op"], self.operand(env, r["l"]), self.operand(env, r["r"]))
        if k == "unop":
            v = self.operand(env, r["a"])
            if r["op"] == "Not" and is_iv(v) and v[2] <= 1 and v[1] >= 0:
                return iv(1 - v[2], 1 - v[1])
            return TOP
        if k in ("ref", "rawptr"):
            return ("ref", r["place"])
        if k == "agg":
            ops = [self.operand(env, o) for o in r["ops"]]
            if r.get("ak") == "tuple":
                return ("tuple", tuple(ops))
            if r.get("ak") == "adt" and r.get("adt") in ("std::ops::Range", "std::ops::RangeInclusive"):
                return ("range", r["adt"].endswith("Inclusive"), ops[0], ops[1])
            if r.get("ak") == "adt" and r.get("adt") == "std::option::Option":
                return ("some", ops[0]) if r.get("vname") == "Some" else ("none",)
            if r.get("ak") == "adt" and not ops and "discr" in r:
                return ("variant", r["adt"], r["vname"], r["discr"])
            return ("tuple", tuple(ops))
        if k == "discr":
            v = self.place(env, r["place"])
            if isinstance(v, tuple) and v and v[0] == "variant":
                return iv(v[3])
            if isinstance(v, tuple) and v and v[0] == "some":
                return iv(1)
            if isinstance(v, tuple) and v and v[0] == "none":
                return iv(0)
            return TOP
        return TOP

    def deref(self, env, v):
        n = 0
        while isinstance(v, tuple) and v and v[0] == "ref" and n < 6:
            v = self.place(env, v[1])
            n += 1
        return v

    def call(self, env, t):
        n = strip_generics(callee_def(t))
        a = [self.operand(env, x) for x in t["args"]]
        if re.search(r"(From::from|Into::into|TryFrom::try_from|Clone::clone)$", n) and a:
            return self.deref(env, a[0])
        if n.endswith("RangeInclusive::new"):
            return ("range", True, a[0], a[1])
        if re.search(r"(RangeInclusive|Range)::contains$", n) or n.endswith("RangeBounds::contains"):
            rg, x = self.deref(env, a[0]), self.deref(env, a[1])
            if isinstance(rg, tuple) and rg and rg[0] == "range" and is_iv(x) and is_iv(rg[2]) and is_iv(rg[3]) and single(rg[2]) and single(rg[3]):
                lo, hi = rg[2][1], rg[3][1] if rg[1] else rg[3][1] - 1
                if x[1] >= lo and x[2] <= hi:
                    return iv(1)
                if x[2] < lo or x[1] > hi:
                    return iv(0)
                return iv(0, 1)
            return TOP
        if n in ("std::cmp::min", "core::cmp::min") and is_iv(a[0]) and is_iv(a[1]):
            return iv(min(a[0][1], a[1][1]), min(a[0][2], a[1][2]))
        if n in ("std::cmp::max", "core::cmp::max") and is_iv(a[0]) and is_iv(a[1]):
            return iv(max(a[0][1], a[1][1]), max(a[0][2], a[1][2]))
        if re.search(r"::(wrapping_mul|wrapping_add|wrapping_sub)$", n) and is_iv(a[0]) and is_iv(a[1]) and single(a[0]) and single(a[1]):
            bits = 32 if "u32" in t["callee"].get("inst", "") else (16 if "u16" in t["callee"].get("inst", "") else 64)
            x, y = a[0][1], a[1][1]
            r = {"wrapping_mul": x * y, "wrapping_add": x + y, "wrapping_sub": x - y}[n.split("::")[-1]]
            return iv(r & ((1 << bits) - 1))
        return ("call", n, tuple(a))

    # ---- run ---------------------------------------------------------------------------------------
    def run(self, start_bb, env, stop_blocks=(), pinned=()):
        """Returns (result value or None, list of pushed values, env at stop)."""
        b = self.b
        env = dict(env)
        bb = start_bb
        pushes = []
        steps = 0
        first = True
        while True:
            steps += 1
            if steps > self.max_steps:
                raise Unsupported("too many steps (loop?)")
            if bb in stop_blocks and not first:
                return None, pushes, env
            first = False
            for s in b.stmts(bb):
                if s["k"] != "assign":
                    continue
                v = self.rvalue(env, s["r"])
                p = s["p"]
                if not p["p"] and p["l"] in pinned and bb == start_bb:
                    continue     # the loop variable is bound by the caller of the summary
                if not p["p"]:
                    env[p["l"]] = v
                elif p["p"] == ["*"] and isinstance(env.get(p["l"]), tuple) and env[p["l"]][0] == "ref" and not env[p["l"]][1]["p"]:
                    env[env[p["l"]][1]["l"]] = v
                else:
                    env.pop(p["l"], None)
            t = b.term(bb)
            k = t["k"]
            if k == "goto":
                bb = t["t"]
            elif k in ("drop", "assert"):
                bb = t["t"]
            elif k == "switch":
                d = self.operand(env, t["d"])
                if not is_iv(d):
                    raise Unsupported("branch on a value the summary cannot follow at bb%d: %r" % (bb, d))
                if d[1] != d[2]:
                    raise Undecided()
                nxt = t["otherwise"]
                for v, tg in t["targets"]:
                    if v == d[1]:
                        nxt = tg
                bb = nxt
            elif k == "return":
                return env.get(0, TOP), pushes, env
            elif k == "call":
                n = strip_generics(callee_def(t))
                if re.search(r"Vec::push$", n):
                    pushes.append(self.deref(env, self.operand(env, t["args"][1])))
                    v = ("unit",)
                else:
                    v = self.call(env, t)
                if not t["dest"]["p"]:
                    env[t["dest"]["l"]] = v
                if t["t"] is None:
                    raise Unsupported("diverging call " + n)
                bb = t["t"]
            else:
                raise Unsupported("terminator " + k)

    def piecewise(self, start_bb, var_local, lo, hi, extract, base_env=None, stop_blocks=(), max_cells=200000):
        """Exact piecewise map over [lo, hi] of extract(result, pushes): list of (a, b, value)."""
        cuts = {lo, hi + 1}
        for bb in range(self.b.n):
            for s in self.b.stmts(bb):
                _consts(s, cuts)
            _consts(self.b.term(bb), cuts)
        pts = sorted(c for c in cuts if lo <= c <= hi + 1)
        work = [(pts[i], pts[i + 1] - 1) for i in range(len(pts) - 1) if pts[i] <= pts[i + 1] - 1]
        out = []
        n = 0
        while work:
            a, c = work.pop()
            n += 1
            if n > max_cells:
                raise Unsupported("partition too fine")
            env = dict(base_env or {})
            env[var_local] = iv(a, c)
            try:
                res, pushes, _ = self.run(start_bb, env, stop_blocks, pinned=(var_local,))
                val = extract(res, pushes)
                if val is None:
                    raise Undecided()
                out.append((a, c, val))
            except Undecided:
                if a == c:
                    raise Unsupported("undecided at the single point %d" % a)
                m = (a + c) // 2
                work.append((a, m))
                work.append((m + 1, c))
        out.sort()
        # merge adjacent equal cells
        merged = []
        for a, c, v in out:
            if merged and merged[-1][2] == v and merged[-1][1] + 1 == a:
                merged[-1] = (merged[-1][0], c, v)
            else:
                merged.append((a, c, v))
        return merged


def _consts(j, cuts):
    if isinstance(j, dict):
        if "k" in j and isinstance(j["k"], dict) and "ty" in j["k"]:
            v = const_int(j["k"])
            if v is not None and abs(v) < (1 << 40):
                cuts.update((v - 1, v, v + 1))
            return
        for x in j.values():
            _consts(x, cuts)
    elif isinstance(j, list):
        for x in j:
            _consts(x, cuts)
