"""UB — upper-bound inference over unsigned integers.

Field-based and flow-insensitive across fields and calls, guard-refined on locals:
  ub(const) = value;  ub(local) = max over its definitions;  ub(x.f) = max over every construction site of
  field f of that ADT (all aggregates in non-test code and in const initialisers) and every direct store;
  ub(param) = max over the arguments at every call site;  ub(call) by summary (min/max/from/into/try_from,
  decode_value(n) <= 2^n-1, local functions = bound of their return value);  a use dominated by the true edge
  of `x < c` / `x <= c` (or the false edge of `x >= c` / `x > c`) takes that bound.
Everything unknown is the maximum of its type (sound for an upper bound).  No code is executed.
"""
import re
from .facts import op_place, op_const, const_int, callee_def
from .common import strip_generics
from . import flow

INF = float("inf")
TYMAX = {"bool": 1, "u8": 255, "u16": 65535, "u32": 2 ** 32 - 1, "u64": 2 ** 64 - 1, "usize": 2 ** 64 - 1, "u128": 2 ** 128 - 1,
         "i8": 127, "i16": 32767, "i32": 2 ** 31 - 1, "i64": 2 ** 63 - 1, "isize": 2 ** 63 - 1}


def tymax(ty):
    return TYMAX.get(ty, INF)


class UB:
    def __init__(self, F):
        self.F = F
        self.all_bodies = dict(F.bodies)
        self.all_bodies.update(F.const_bodies)
        self._field = {}
        self._ret = {}
        self._param = {}
        self._local = {}
        self._stack = set()
        self._grow = 0            # > 0 while the operands of a growing operation (+, *, <<) are evaluated
        self._selfgrow = set()    # fields stored from a growing operation on their own value: accumulators, unbounded
        self._callers = None
        self._field_sites = None
        self.trace = {}
        self.elem_bounds = {}     # reviewed summaries: field name of a Vec/array -> bound of its elements

    # ---- indexes ----------------------------------------------------------------------------------
    def field_sites(self):
        """(adt, variant name, field name) -> list of (body, operand) for aggregates; plus stores."""
        if self._field_sites is None:
            fs = {}
            for name, b in self.all_bodies.items():
                for bb in range(b.n):
                    for s in b.stmts(bb):
                        if s["k"] != "assign":
                            continue
                        r = s["r"]
                        if r["k"] == "agg" and r.get("ak") == "adt":
                            for fname, o in zip(r.get("fields", []), r["ops"]):
                                fs.setdefault((r["adt"], fname), []).append((b, bb, o))
                        # direct store into a named field:  x.f = v   (or (*x).f = v)
                        pr = s["p"]["p"]
                        named = [e for e in pr if isinstance(e, dict) and "f" in e and "n" in e]
                        if named and isinstance(pr[-1], dict) and "f" in pr[-1]:
                            fs.setdefault(("?", named[-1]["n"]), []).append((b, bb, ("rvalue", s)))
            self._field_sites = fs
        return self._field_sites

    def callers(self):
        if self._callers is None:
            c = {}
            for name, b in self.F.bodies.items():
                for bb, t in b.calls():
                    cal = t["callee"]
                    for key in {cal.get("def"), cal.get("resolved")}:
                        if key:
                            c.setdefault(key, []).append((b, bb, t))
            self._callers = c
        return self._callers

    # ---- bounds -------------------------------------------------------------------------------------
    def operand(self, b, op, at=None):
        k = op_const(op)
        if k is not None and isinstance(k, dict) and "ty" in k:
            v = const_int(k)
            return v if v is not None and v >= 0 else tymax(k["ty"])
        p = op_place(op)
        if p is None:
            return INF
        return self.place(b, p, at)

    def place(self, b, p, at=None):
        l = p["l"]
        pr = p["p"]
        if not pr:
            v = self.local(b, l)
            if at is not None:
                v = min(v, self.guard_bound(b, l, at))
            return v
        # checked arithmetic tuple: (x).0
        if len(pr) == 1 and isinstance(pr[0], dict) and "f" in pr[0] and b.local_ty(l).startswith("("):
            ds = b.defs(l)
            if ds and all(d[2] == "assign" and d[3].get("k") == "agg" and d[3].get("ak") == "tuple" and len(d[3].get("ops", [])) > pr[0]["f"] for d in ds):
                # a user tuple built component by component: each component has its own bound
                return max(self.operand(b, d[3]["ops"][pr[0]["f"]], d[0]) for d in ds)
            if pr[0]["f"] == 0:
                return self.local(b, l)
            return 1
        ie = self.iter_elem(b, p)
        if ie is not None:
            return ie
        if pr == ["*"]:
            return self.local(b, l)       # the value behind a reference produced by a call (e.g. Index::index)
        # element of a constant table: the table's maximum
        if any(isinstance(e, dict) and ("i" in e or "ci" in e) for e in pr) and not any(isinstance(e, dict) and "f" in e for e in pr):
            d = b.single_def(l)
            if d and d[2] == "assign" and d[3]["k"] == "use":
                k = op_const(d[3]["op"])
                if k is not None and k.get("from"):
                    try:
                        return max(self.F.const_array(k["from"]))
                    except Exception:
                        pass
        # field of an ADT (possibly through derefs / downcasts)
        named = [e for e in pr if isinstance(e, dict) and "f" in e and "n" in e]
        if named and named[-1]["n"] in self.elem_bounds and isinstance(pr[-1], dict) and ("i" in pr[-1] or "ci" in pr[-1]):
            return self.elem_bounds[named[-1]["n"]]
        if named:
            fname = named[-1]["n"]
            adt = self.place_adt(b, p)
            return min(self.field(adt, fname), self.place_tymax(b, p))
        return self.place_tymax(b, p)

    def place_tymax(self, b, p):
        t = self.place_type(b, p)
        return tymax(t) if t else INF

    def place_type(self, b, p):
        """Type string of a projected place (best effort from ADT facts), or None."""
        ty = b.local_ty(p["l"])
        variant = None
        for e in p["p"]:
            ty0 = re.sub(r"^&(mut )?", "", ty).strip()
            if e == "*":
                ty = ty0
                continue
            if isinstance(e, dict) and "dc" in e:
                variant = e.get("n")
                continue
            if isinstance(e, dict) and "f" in e:
                if ty0.startswith("("):
                    parts = _split_tuple(ty0)
                    if e["f"] < len(parts):
                        ty = parts[e["f"]]
                        continue
                    return None
                a = self.F.adts.get(re.sub(r"<.*$", "", ty0))
                if a is None:
                    return None
                fty = None
                for v in a["variants"]:
                    if variant is not None and v["name"] != variant:
                        continue
                    for f in v["fields"]:
                        if f["name"] == e.get("n"):
                            fty = f["ty"]
                variant = None
                if fty is None:
                    return None
                ty = fty
                continue
            if isinstance(e, dict) and ("i" in e or "ci" in e):
                m = re.match(r"^\[(.*); [^;]+\]$", ty0) or re.match(r"^\[(.*)\]$", ty0)
                if not m:
                    return None
                ty = m.group(1)
                continue
            return None
        return ty

    def enum_max(self, ty):
        a = self.F.adts.get(re.sub(r"<.*$", "", re.sub(r"^&(mut )?", "", ty or "")))
        if a and a["kind"] == "enum":
            return max(v["discr"] for v in a["variants"])
        return None

    def iter_elem(self, b, p):
        """`(opt as Some).0[.k]` where opt = next(&mut it), it = into_iter([literal array]): max over the elements."""
        pr = p["p"]
        if len(pr) < 2 or not (isinstance(pr[0], dict) and pr[0].get("n") == "Some" and isinstance(pr[1], dict) and pr[1].get("f") == 0):
            return None
        d = b.single_def(p["l"])
        if not d or d[2] != "call" or not strip_generics(callee_def(d[3])).endswith("Iterator::next"):
            return None
        o = flow.origin(b, d[3]["args"][0])
        tb = self._iter_table(b, d[3]["args"][0])
        if tb is not None and all(isinstance(e, str) and e == "*" for e in pr[2:]):
            return max(tb) if tb else 0
        arrs = []
        for bb, t in o.calls:
            if strip_generics(callee_def(t)).endswith("IntoIterator::into_iter"):
                oa = flow.origin(b, t["args"][0], through=("use",))
                for _, _, r in oa.exprs:
                    if r["k"] == "agg" and r.get("ak") == "array":
                        arrs.append(r)
        if len(arrs) != 1 or o.args or o.consts:
            return None
        rest = pr[2:]
        best = 0
        for el in arrs[0]["ops"]:
            if not rest:
                best = max(best, self.operand(b, el))
                continue
            if len(rest) == 1 and isinstance(rest[0], dict) and "f" in rest[0]:
                oe = flow.origin(b, el, through=("use",))
                ok = False
                for _, _, r in oe.exprs:
                    if r["k"] == "agg" and r.get("ak") == "tuple" and rest[0]["f"] < len(r["ops"]):
                        best = max(best, self.operand(b, r["ops"][rest[0]["f"]]))
                        ok = True
                if not ok:
                    return None
            else:
                return None
        return best

    _ADAPT = re.compile(r"(IntoIterator::into_iter|Iterator::(take|skip|rev|copied|cloned|step_by|by_ref)|slice::.*::iter|<\[.*\]>::iter|core::slice::iter|Deref::deref|as_slice|array::.*::iter|array::iter)$")

    def _iter_table(self, b, op, depth=0):
        """Values of the constant table an iterator (through take/skip/rev/copied ...) walks over, or None."""
        if depth > 10:
            return None
        k = op_const(op)
        if k is not None and isinstance(k, dict):
            if k.get("from") and k["from"] in self.F.consts:
                try:
                    return list(self.F.const_array(k["from"]))
                except Exception:
                    return None
            mt = re.match(r"^&\[([iu])(8|16|32|64|size); (\d+)\]$", k.get("ty", ""))
            raw = ((k.get("v") or {}).get("ptr") or {}).get("bytes") if isinstance(k.get("v"), dict) else None
            if mt and raw:
                # a promoted reference to a literal / named array: the byte image is in the operand
                sz = {"8": 1, "16": 2, "32": 4, "64": 8, "size": 8}[mt.group(2)]
                bs = bytes.fromhex(raw)
                n = int(mt.group(3))
                if len(bs) >= n * sz:
                    return [int.from_bytes(bs[i * sz:(i + 1) * sz], "little", signed=(mt.group(1) == "i")) for i in range(n)]
            m = re.search(r"promoted\[(\d+)\]$", k.get("s", "") or "")
            if m:
                proms = b.j.get("promoted") or []
                i = int(m.group(1))
                if i < len(proms):
                    for bl in proms[i]["blocks"]:
                        for s in bl["s"]:
                            if s["k"] == "assign" and s["r"]["k"] == "use":
                                kk = op_const(s["r"]["op"])
                                if kk and kk.get("from") and kk["from"] in self.F.consts:
                                    try:
                                        return list(self.F.const_array(kk["from"]))
                                    except Exception:
                                        return None
            return None
        p = op_place(op)
        if p is None:
            return None
        d = b.single_def(p["l"])
        if not d:
            return None
        if d[2] == "assign" and d[3]["k"] in ("use", "cast"):
            return self._iter_table(b, d[3]["op"], depth + 1)
        if d[2] == "assign" and d[3]["k"] in ("ref", "rawptr"):
            return self._iter_table(b, {"c": d[3]["place"]}, depth + 1) if not d[3]["place"]["p"] or d[3]["place"]["p"] == ["*"] else None
        if d[2] == "call" and d[3]["args"] and self._ADAPT.search(strip_generics(callee_def(d[3]))):
            return self._iter_table(b, d[3]["args"][0], depth + 1)
        if d[2] == "call" and len(d[3]["args"]) == 2 and re.search(r"ops::Index(Mut)?>?::index(_mut)?$|ops::index::Index(Mut)?::index(_mut)?$", strip_generics(callee_def(d[3]))):
            ap = op_place(d[3]["args"][1])
            if ap is not None and "Range" in b.local_ty(ap["l"]):
                return self._iter_table(b, d[3]["args"][0], depth + 1)        # a sub-slice of the table holds a subset of its values
        return None

    def place_adt(self, b, p):
        """ADT path owning the last named field of a place (best effort, from type strings)."""
        ty = b.local_ty(p["l"])
        adt = None
        for e in p["p"]:
            ty0 = re.sub(r"^&(mut )?", "", ty).strip()
            base = re.sub(r"<.*$", "", ty0)
            if e == "*":
                ty = ty0
                continue
            if isinstance(e, dict) and "dc" in e:
                continue
            if isinstance(e, dict) and "f" in e:
                a = self.F.adts.get(base)
                adt = base
                if a is None:
                    return adt
                # which variant? search all variants for the field name
                nm = e.get("n")
                fty = None
                for v in a["variants"]:
                    for f in v["fields"]:
                        if f["name"] == nm:
                            fty = f["ty"]
                ty = fty or "?"
            else:
                break
        return adt

    def field(self, adt, fname):
        key = (adt, fname)
        if key in self._field:
            return self._field[key]
        if ("F",) + key in self._stack:
            # self-reference inside a max() or a copy: least fixed point.  Inside `f = f + x` (a counter stepped per call, per
            # token ...) there is no fixed point below the type's maximum: the field is an accumulator (seed10-c10a)
            if self._grow > 0:
                self._selfgrow.add(key)
            return 0
        self._stack.add(("F",) + key)
        grow0, self._grow = self._grow, 0     # growth is counted between this field's stores and a read of itself only
        best = 0
        sites = list(self.field_sites().get(key, [])) + list(self.field_sites().get(("?", fname), []))
        why = []
        if not sites:
            best = INF
        for b, bb, o in sites:
            if isinstance(o, tuple) and o[0] == "rvalue":
                s = o[1]
                # only stores whose base type matches this ADT
                pa = self.place_adt(b, s["p"])
                if adt is not None and pa is not None and pa != adt:
                    continue
                v = self.rvalue(b, s["r"], s["p"]["l"], bb)
            else:
                v = self.operand(b, o, bb)
            if v > best:
                best = v
            why.append((v, b.name.replace("preflate_rs::", ""), b.where(bb)))
        self._stack.discard(("F",) + key)
        self._grow = grow0
        if key in self._selfgrow:
            best = INF
            why.append((INF, "accumulator: stored from +, * or << on its own value", ""))
        # cap by declared type
        a = self.F.adts.get(adt or "")
        if a:
            for vv in a["variants"]:
                for f in vv["fields"]:
                    if f["name"] == fname:
                        best = min(best, tymax(f["ty"]))
        self._field[key] = best
        self.trace[key] = sorted(why, key=lambda x: -x[0] if x[0] != INF else -1e30)[:4]
        return best

    def local(self, b, l):
        key = (b.name, l)
        if key in self._local:
            return self._local[key]
        if ("L",) + key in self._stack:
            return 0
        self._stack.add(("L",) + key)
        cap = tymax(b.local_ty(l))
        best = 0
        ds = b.defs(l)
        if not ds:
            best = cap
        for bb, idx, kind, payload in ds:
            if kind == "arg":
                v = self.param(b, l)
            elif kind == "call":
                v = self.call(b, bb, payload)
            elif kind == "partial":
                v = cap
            else:
                v = self.rvalue(b, payload, l, bb)
            best = max(best, v)
        best = min(best, cap)
        self._stack.discard(("L",) + key)
        self._local[key] = best
        return best

    def rvalue(self, b, r, dest, bb):
        k = r["k"]
        cap = tymax(b.local_ty(dest)) if isinstance(dest, int) else INF
        if k == "use":
            return self.operand(b, r["op"], bb)
        if k == "cast":
            if r["ck"] == "IntToInt":
                return min(self.operand(b, r["op"], bb), tymax(r["ty"]))
            return tymax(r["ty"])
        if k == "binop":
            op = r["op"].replace("WithOverflow", "").replace("Unchecked", "")
            grows = op in ("Add", "Mul", "Shl")
            self._grow += grows
            try:
                a = self.operand(b, r["l"], bb)
                c = self.operand(b, r["r"], bb)
            finally:
                self._grow -= grows
            if op == "Add":
                return a + c
            if op == "Sub":
                return a
            if op == "Mul":
                return a * c
            if op == "BitAnd":
                return min(a, c)
            if op in ("BitOr", "BitXor"):
                m = max(a, c)
                return INF if m == INF else (1 << int(m).bit_length()) - 1
            if op == "Shr":
                cv = flow.const_eval(b, r["r"])
                return a if cv is None or a == INF else int(a) >> cv
            if op == "Shl":
                cv = flow.const_eval(b, r["r"])
                return INF if cv is None or a == INF else int(a) << cv
            if op == "Div":
                cv = flow.const_eval(b, r["r"])
                return a if not cv or a == INF else int(a) // cv
            if op == "Rem":
                return c - 1 if c not in (INF, 0) else a
            if op in ("Eq", "Ne", "Lt", "Le", "Gt", "Ge"):
                return 1
            return INF
        if k == "unop":
            return cap
        if k == "discr":
            m = self.enum_max(self.place_type(b, r["place"]))
            return m if m is not None else cap
        return cap

    def closure_param(self, b, l):
        """Bound of parameter l (>= 2) of a closure: follow the closure value to the generic function it is passed to
        and take the arguments of the Fn*/call there."""
        cap = tymax(b.local_ty(l))
        best = 0
        found = False
        for cname, cb in self.F.bodies.items():
            for bb in range(cb.n):
                for s in cb.stmts(bb):
                    if s["k"] == "assign" and s["r"]["k"] == "agg" and s["r"].get("ak") == "closure" and s["r"].get("def") == b.name and not s["p"]["p"]:
                        al, sinks = flow.track(cb, {s["p"]["l"]})
                        for sk in sinks:
                            if sk[0] != "call":
                                if sk[0] in ("drop", "wrap"):
                                    continue
                                return cap
                            _, cbb, ai, t = sk
                            g = t["callee"].get("resolved") if t["callee"].get("rlocal") else (t["callee"].get("def") if t["callee"].get("local") else None)
                            gb = self.F.bodies.get(g) if g else None
                            if gb is None:
                                return cap
                            gal, gs = flow.track(gb, {ai + 1})
                            for gk in gs:
                                if gk[0] == "drop":
                                    continue
                                if gk[0] != "call" or gk[2] != 0:
                                    return cap
                                gt = gk[3]
                                if not re.search(r"ops::(FnMut::call_mut|FnOnce::call_once|Fn::call)$", strip_generics(callee_def(gt))):
                                    return cap
                                o = flow.origin(gb, gt["args"][1], through=("use",))
                                tup = [r for _, _, r in o.exprs if r["k"] == "agg" and r.get("ak") == "tuple"]
                                if len(tup) != 1 or l - 2 >= len(tup[0]["ops"]):
                                    return cap
                                found = True
                                best = max(best, self.operand(gb, tup[0]["ops"][l - 2], gk[1]))
        return min(best, cap) if found else cap

    def param(self, b, l):
        key = (b.name, l)
        if key in self._param:
            return self._param[key]
        if ("P",) + key in self._stack:
            return 0
        if b.j.get("kind") == "closure" and l >= 2:
            self._stack.add(("P",) + key)
            v = self.closure_param(b, l)
            self._stack.discard(("P",) + key)
            self._param[key] = v
            return v
        self._stack.add(("P",) + key)
        cap = tymax(b.local_ty(l))
        names = {b.name}
        tr = b.j.get("impl_trait")
        if tr:
            names.add(tr + "::" + b.name.split("::")[-1])
        sites = []
        for n in names:
            sites.extend(self.callers().get(n, []))
        best = 0
        if not sites or b.j.get("vis") == "Public" and b.name.count("::") <= 2:
            best = cap
        for cb, bb, t in sites:
            if l - 1 < len(t["args"]):
                best = max(best, self.operand(cb, t["args"][l - 1], bb))
            else:
                best = cap
        best = min(best, cap)
        self._stack.discard(("P",) + key)
        self._param[key] = best
        return best

    def ret(self, fn):
        if fn in self._ret:
            return self._ret[fn]
        if ("R", fn) in self._stack:
            return 0
        b = self.F.bodies.get(fn)
        if b is None:
            return INF
        self._stack.add(("R", fn))
        v = self.local(b, 0)
        self._stack.discard(("R", fn))
        self._ret[fn] = v
        return v

    def call(self, b, bb, t):
        n = strip_generics(callee_def(t))
        a = t["args"]
        cap = tymax(b.local_ty(t["dest"]["l"])) if not t["dest"]["p"] else INF
        last = n.split("::")[-1]
        if n in ("std::cmp::min", "core::cmp::min") or n.endswith("Ord::min"):
            return min(self.operand(b, a[0], bb), self.operand(b, a[1], bb))
        if n in ("std::cmp::max", "core::cmp::max") or n.endswith("Ord::max"):
            return max(self.operand(b, a[0], bb), self.operand(b, a[1], bb))
        if n.endswith("Ord::clamp") and len(a) == 3:
            return min(max(self.operand(b, a[0], bb), self.operand(b, a[1], bb)), self.operand(b, a[2], bb))
        if re.search(r"(From::from|Into::into|TryFrom::try_from|TryInto::try_into|Result::unwrap|Result::expect|Option::unwrap|Clone::clone)$", n) and a:
            return min(self.operand(b, a[0], bb), cap) if cap != INF else self.operand(b, a[0], bb)
        if n.endswith("Default::default") and cap != INF:
            return 0
        if n.endswith("::saturating_sub") or n.endswith("::wrapping_sub") and False:
            return self.operand(b, a[0], bb)
        if t["callee"].get("trait") == "preflate_rs::statistical_codec::PredictionDecoder" and last == "decode_value":
            w = flow.const_eval(b, a[1])
            return (1 << w) - 1 if w is not None else cap
        if last == "get" and "BitReader" in n or t["callee"].get("trait", "").endswith("ReadBits"):
            w = flow.const_eval(b, a[-1])
            return (1 << w) - 1 if w is not None else cap
        if re.search(r"(Index::index|IndexMut::index_mut)$", n) and a:
            # element of a container field with a reviewed element bound
            o = flow.origin(b, a[0])
            for f in o.via_fields:
                if f in self.elem_bounds:
                    return min(self.elem_bounds[f], cap)
        lc = t["callee"].get("resolved") if t["callee"].get("rlocal") else (t["callee"].get("def") if t["callee"].get("local") else None)
        if lc and lc in self.F.bodies:
            return min(self.ret(lc), cap)
        return cap

    # ---- guard refinement -------------------------------------------------------------------------
    def guard_bound(self, b, l, at_bb):
        """Smallest bound on local l implied by comparisons that dominate block at_bb."""
        best = INF
        # `l` may be a temp copy of a user variable; compare on the root
        root = self._copy_root(b, l)
        for sb in b.normal_blocks():
            t = b.term(sb)
            if t["k"] != "switch":
                continue
            dp = op_place(t["d"])
            if dp is None or dp["p"]:
                continue
            d = b.single_def(dp["l"])
            if not d or d[2] != "assign" or d[3]["k"] != "binop":
                continue
            r = d[3]
            op = r["op"]
            lp, rp = op_place(r["l"]), op_place(r["r"])
            cl, cr = flow.const_eval(b, r["l"]), flow.const_eval(b, r["r"])
            tgt0 = [x for v, x in t["targets"] if v == 0]
            false_e = tgt0[0] if tgt0 else None
            true_e = t["otherwise"]
            bound_true = bound_false = None
            if lp is not None and not lp["p"] and self._copy_root(b, lp["l"]) == root and cr is not None:
                if op == "Lt":
                    bound_true = cr - 1
                elif op == "Le":
                    bound_true = cr
                elif op == "Ge":
                    bound_false = cr - 1
                elif op == "Gt":
                    bound_false = cr
                elif op == "Eq":
                    bound_true = cr
            if rp is not None and not rp["p"] and self._copy_root(b, rp["l"]) == root and cl is not None:
                if op == "Gt":
                    bound_true = cl - 1
                elif op == "Ge":
                    bound_true = cl
                elif op == "Le":
                    bound_false = cl - 1
                elif op == "Lt":
                    bound_false = cl
            if bound_true is not None and b.edge_dominates(sb, true_e, at_bb):
                best = min(best, bound_true)
            if bound_false is not None and false_e is not None and b.edge_dominates(sb, false_e, at_bb):
                best = min(best, bound_false)
        return best

    def _copy_root(self, b, l, depth=0):
        if depth > 6:
            return l
        d = b.single_def(l)
        if d and d[2] == "assign" and d[3]["k"] == "use":
            p = op_place(d[3]["op"])
            if p is not None and not p["p"]:
                return self._copy_root(b, p["l"], depth + 1)
        return l


def _split_tuple(ty):
    inner = ty[1:-1]
    parts, depth, cur = [], 0, ""
    for c in inner:
        if c in "<([":
            depth += 1
        elif c in ">)]":
            depth -= 1
        if c == "," and depth == 0:
            parts.append(cur.strip())
            cur = ""
        else:
            cur += c
    if cur.strip():
        parts.append(cur.strip())
    return parts
