"""Obligations, known findings, evidence writing, exit codes."""
import json, os, sys, time

VERIF = os.path.dirname(os.path.dirname(os.path.abspath(__file__)))
KNOWN = os.path.join(VERIF, "known_findings.json")


class Ob:
    """One obligation: rule id, instance (what exactly was checked), verdict."""

    __slots__ = ("rule", "instance", "where", "ok", "detail")

    def __init__(self, rule, instance, ok, where="", detail=""):
        self.rule = rule
        self.instance = instance
        self.ok = bool(ok)
        self.where = where
        self.detail = detail

    def key(self, prop):
        return "%s/%s/%s" % (prop, self.rule, self.instance)

    def to_json(self, prop):
        return {"key": self.key(prop), "status": "discharged" if self.ok else "violated",
                "where": self.where, "detail": self.detail}


class Report:
    def __init__(self, prop, tier, level="other"):
        self.prop = prop
        self.tier = tier
        self.level = level
        self.obs = []
        self.notes = []
        self.stats = {}
        self.trusted = []
        self.assumptions = []
        self.explanation = ""
        self.t0 = time.time()

    def add(self, rule, instance, ok, where="", detail=""):
        self.obs.append(Ob(rule, instance, ok, where, detail))
        return ok

    def floor(self, rule, what, got, need):
        """Non-vacuity: the rule matched at least `need` instances (counted by hand on the pinned tree)."""
        self.add(rule, "FLOOR:" + what, got >= need, "",
                 "matched %d instance(s), floor %d%s" % (got, need, "" if got >= need else " -- anchor lost, rule would pass vacuously"))

    def missing(self, rule, what, detail=""):
        self.add(rule, "ANCHOR-MISSING:" + what, False, "", detail or "anchor not found in the facts")

    def note(self, s):
        self.notes.append(s)

    def finish(self):
        known = {"findings": [], "fixed": []}
        if os.path.exists(KNOWN):
            known = json.load(open(KNOWN))
        known_keys = {f["key"]: f for f in known.get("findings", []) if f.get("property") == self.prop}
        viol = [o for o in self.obs if not o.ok]
        new = [o for o in viol if o.key(self.prop) not in known_keys]
        kn = [o for o in viol if o.key(self.prop) in known_keys]
        outroot = os.environ.get("PFA_OUT") or VERIF
        os.makedirs(os.path.join(outroot, "out"), exist_ok=True)
        os.makedirs(os.path.join(outroot, "evidence"), exist_ok=True)
        replay = os.path.join(outroot, "out", "%s.violations.json" % self.prop)
        json.dump({"property": self.prop, "tier": self.tier,
                   "violations": [o.to_json(self.prop) for o in new],
                   "known": [o.to_json(self.prop) for o in kn]}, open(replay, "w"), indent=1)
        distinct = len({(o.rule, o.instance) for o in self.obs if not o.instance.startswith("FLOOR:")})
        samples = [o.to_json(self.prop) for o in self.obs[:6]]
        # one sample per rule as well
        seen = set()
        for o in self.obs:
            if o.rule not in seen and len(samples) < 40:
                seen.add(o.rule)
                samples.append(o.to_json(self.prop))
        cov = {
            "obligations": len(self.obs),
            "discharged": len(self.obs) - len(viol),
            "known_findings": len(kn),
            "checker_cmd": "bin/pfcheck %s --tier %s" % (self.prop, self.tier),
            "trusted_base": self.trusted,
            "explanation": self.explanation,
            "evaluations": len(self.obs),
            "distinct_nontrivial": distinct,
            "rule": "one evaluation = one static obligation (rule x code site) decided on the MIR/mono-graph facts of /repo's working tree; "
                    "non-trivial = the rule's pattern matched a concrete site (FLOOR bookkeeping rows are not counted)",
            "samples": samples,
            "rules": sorted({o.rule for o in self.obs}),
            "per_rule": {r: sum(1 for o in self.obs if o.rule == r) for r in sorted({o.rule for o in self.obs})},
            "notes": self.notes,
        }
        cov.update(self.stats)
        ev = {
            "property_id": self.prop,
            "tier": self.tier,
            "seed": int(os.environ.get("VERIF_SEED", "0") or 0),
            "level": self.level,
            "coverage": cov,
            "assumptions": self.assumptions,
            "wall_s": round(time.time() - self.t0, 3),
            "violations": len(new),
        }
        json.dump(ev, open(os.path.join(outroot, "evidence", "%s.json" % self.prop), "w"), indent=1)
        for o in kn:
            print("KNOWN-FINDING: property=%s key=%s %s" % (self.prop, o.key(self.prop), known_keys[o.key(self.prop)].get("what", "")))
        for o in new:
            print("  violated %s  at %s  -- %s" % (o.key(self.prop), o.where, o.detail))
        print("%s [%s]: %d obligations, %d discharged, %d known finding(s), %d violation(s); %.1fs" % (
            self.prop, self.tier, len(self.obs), len(self.obs) - len(viol), len(kn), len(new), time.time() - self.t0))
        if new:
            print("VIOLATION property=%s replay=%s" % (self.prop, replay))
            return 1
        return 0
