"""SITE engine: enumerate explicit failure constructs in crate-local code reachable from an entry."""
import re
from .facts import callee_def
from .common import strip_generics, macro_names

UNWRAPS = re.compile(r"^std::(result::Result|option::Option)::(unwrap|expect|unwrap_err|expect_err|unwrap_unchecked)$")
PANICS = re.compile(r"^(core|std)::(panicking::(panic|panic_fmt|panic_display|panic_explicit|assert_failed|assert_matches_failed|unreachable_display|panic_str_2015|panic_nounwind)|"
                    r"rt::(begin_panic|panic_fmt)|process::(exit|abort)|intrinsics::abort)\b")
PANIC_MACROS = ("assert", "assert_eq", "assert_ne", "debug_assert", "debug_assert_eq", "debug_assert_ne", "panic", "unreachable", "unimplemented", "todo")


def sites_in_body(body):
    """List of dicts {kind, detail, bb, where, exp} for explicit failure constructs in one body (normal flow)."""
    out = []
    counts = {}
    for bb, t in sorted(body.calls()):
        n = strip_generics(callee_def(t))
        kind = None
        if UNWRAPS.match(n):
            recv = "Result" if "result::Result" in n else "Option"
            ms = [m for m in macro_names(t.get("exp")) if m in PANIC_MACROS]
            kind = "%s::%s" % (recv, n.split("::")[-1])
            if ms:
                kind = ms[-1] + "!/" + kind
        elif PANICS.match(n):
            ms = [m for m in macro_names(t.get("exp")) if m in PANIC_MACROS]
            kind = (ms[-1] + "!") if ms else n.split("::")[-1]
        if kind is None:
            continue
        k = counts.get(kind, 0)
        counts[kind] = k + 1
        out.append({"kind": kind, "ord": k, "bb": bb, "where": body.where(bb), "callee": n, "exp": macro_names(t.get("exp"))})
    return out


def reachable_sites(F, roots):
    """{(def, kind, ord): info} over crate-local instances reachable from the root instance ids."""
    parent = F.reach(roots)
    defs = {}
    for i in parent:
        I = F.inst(i)
        if I["local"] and I["kind"] == "item" and I["def"] in F.bodies:
            defs.setdefault(I["def"], i)
    out = {}
    for d, i in sorted(defs.items()):
        for s in sites_in_body(F.bodies[d]):
            s = dict(s)
            s["fn"] = d
            s["witness_inst"] = i
            out[(d, s["kind"], s["ord"])] = s
    return out, parent, defs
