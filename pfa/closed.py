"""Closed forms of loop-free functions: a canonical, path-sensitive expression summary.

For every path entry -> return of a loop-free body the summary lists the branch conditions taken and the
returned expression, each as a canonical expression tree over the parameters (copies, temporaries and
`?`-free plumbing removed; commutative operators sorted; a > b written as b < a).  Two bodies with the same
closed form compute the same function; a changed multiplier, shift, mask, table or tie-break operator changes it.
Renaming, reordering of independent statements and introducing temporaries do not.
"""
import re
from .facts import op_place, op_const, const_int, callee_def
from .common import strip_generics

COMM = {"Add", "Mul", "BitAnd", "BitOr", "BitXor", "Eq", "Ne"}
SWAP = {"Gt": "Lt", "Ge": "Le"}


class NotClosed(Exception):
    pass


def has_loop(b):
    for bb in b.normal_blocks():
        for s in b.succ(bb):
            if b.dominates(s, bb):
                return True
    return False


def paths(b, limit=64):
    out = []
    stack = [(0, [0])]
    while stack:
        bb, p = stack.pop()
        t = b.term(bb)
        if t["k"] == "return":
            out.append(p)
            if len(out) > limit:
                raise NotClosed("too many paths")
            continue
        succ = b.succ(bb)
        if t["k"] == "switch":
            succ = [x for x in succ if b.term(x)["k"] != "unreachable"]
        for s in succ:
            if s in p:
                raise NotClosed("loop")
            stack.append((s, p + [s]))
    return out


class PathExpr:
    def __init__(self, F, b, path):
        self.F = F
        self.b = b
        self.path = path
        self.pos = {bb: i for i, bb in enumerate(path)}

    def last_def(self, l, before_bb=None, before_idx=None):
        """The definition of local l that is live at (before_bb, before_idx) along the path."""
        best = None
        for bb, idx, kind, payload in self.b.defs(l):
            if kind == "arg":
                if best is None:
                    best = (-1, -1, kind, payload)
                continue
            if bb not in self.pos:
                continue
            key = (self.pos[bb], idx)
            if before_bb is not None and key >= (self.pos[before_bb], before_idx):
                continue
            if best is None or key > (self.pos.get(best[0], -1) if best[0] != -1 else -1, best[1]):
                best = (bb, idx, kind, payload)
        return best

    def operand(self, op, at, depth=0):
        k = op_const(op) if isinstance(op, dict) and isinstance(op.get("k"), dict) and "ty" in op.get("k", {}) else None
        if k is not None:
            v = const_int(k)
            if v is not None:
                return ("K", v)
            vv = k.get("v") or {}
            if isinstance(vv.get("ptr"), dict) and "static" in vv["ptr"]:
                return ("static", vv["ptr"]["static"].replace("preflate_rs::", ""))
            if k.get("from") and not k.get("promoted"):
                return ("const", k["from"].replace("preflate_rs::", ""))
            if "fn" in k:
                return ("fn", strip_generics(k["fn"]))
            return ("constty", k["ty"])
        p = op_place(op) if ("c" in op or "m" in op) else (op if "l" in op else None)
        if p is None:
            return ("?",)
        return self.place(p, at, depth)

    def place(self, p, at, depth):
        if depth > 40:
            raise NotClosed("expression too deep")
        base = self.local(p["l"], at, depth)
        for e in p["p"]:
            if e == "*":
                continue
            if isinstance(e, dict) and "f" in e:
                nm = str(e.get("n", e["f"]))
                # .0 of a checked arithmetic tuple is the value itself
                if base and base[0] == "chk" and e["f"] == 0:
                    base = base[1]
                elif base and base[0] == "chk":
                    base = ("K", 0)
                elif base and base[0] == "agg" and nm in base[2]:
                    base = base[3][base[2].index(nm)]
                else:
                    base = ("field", base, nm)
            elif isinstance(e, dict) and "i" in e:
                base = ("index", base, self.local(e["i"], at, depth + 1))
            elif isinstance(e, dict) and "ci" in e:
                base = ("index", base, ("K", e["ci"]))
            elif isinstance(e, dict) and "dc" in e:
                continue
        return base

    def local(self, l, at, depth):
        b = self.b
        d = self.last_def(l, at[0], at[1]) if at else self.last_def(l)
        if d is None:
            return ("undef", l)
        bb, idx, kind, payload = d
        if kind == "arg":
            # a small Copy value handed over by reference or by value is the same argument
            norm = lambda i: re.sub(r"^&(?!mut )", "", re.sub(r"'[a-z_]+ ?", "", b.local_ty(i)))
            ty = norm(l)
            same = [i for i in range(1, b.argc + 1) if norm(i) == ty]
            return ("arg", ty, same.index(l))
        here = (bb, idx)
        if kind == "call":
            t = payload
            n = strip_generics(callee_def(t))
            args = tuple(self.operand(a, here, depth + 1) for a in t["args"])
            short = n.replace("preflate_rs::", "")
            if re.search(r"(From::from|Into::into)$", n) and len(args) == 1 and re.match(r"^[ui](8|16|32|64|128|size)$", b.local_ty(l)):
                return ("as", b.local_ty(l), args[0])          # a lossless integer conversion is the cast it stands for
            if re.search(r"(From::from|Into::into|Clone::clone|Result::unwrap|TryFrom::try_from|TryInto::try_into|Deref::deref)$", n) and len(args) == 1:
                return args[0]
            return ("call", short) + args
        if kind == "partial":
            return ("partial", l)
        r = payload
        k = r["k"]
        if k in ("use",):
            return self.operand(r["op"], here, depth + 1)
        if k == "cast":
            inner = self.operand(r["op"], here, depth + 1)
            if r["ck"] == "IntToInt":
                return ("as", r["ty"], inner)
            return inner
        if k in ("ref", "rawptr"):
            return self.place(r["place"], here, depth + 1)
        if k == "binop":
            op = r["op"]
            a, c = self.operand(r["l"], here, depth + 1), self.operand(r["r"], here, depth + 1)
            base = op.replace("WithOverflow", "").replace("Unchecked", "")
            if base in SWAP:
                base, a, c = SWAP[base], c, a
            if base in COMM and repr(a) > repr(c):
                a, c = c, a
            e = (base, a, c)
            if a[0] == "K" and c[0] == "K":
                try:
                    x, y = a[1], c[1]
                    v = {"Add": x + y, "Sub": x - y, "Mul": x * y, "Shl": x << y, "Shr": x >> y, "BitAnd": x & y, "BitOr": x | y, "BitXor": x ^ y}.get(base)
                    if v is not None:
                        e = ("K", v)
                except Exception:
                    pass
            return ("chk", e) if "WithOverflow" in op else e
        if k == "unop":
            return (r["op"], self.operand(r["a"], here, depth + 1))
        if k == "discr":
            return ("discr", self.place(r["place"], here, depth + 1))
        if k == "agg":
            ops = tuple(self.operand(o, here, depth + 1) for o in r["ops"])
            return ("agg", r.get("vname") or r.get("ak"), tuple(r.get("fields") or ()), ops)
        if k == "repeat":
            return ("repeat", self.operand(r["op"], here, depth + 1), r.get("n"))
        return (k,)


def closed_form(F, b):
    """List of (conditions, value) strings, sorted; raises NotClosed for loops / too many paths."""
    if has_loop(b):
        raise NotClosed("loop")
    out = []
    for path in paths(b):
        pe = PathExpr(F, b, path)
        conds = []
        for i, bb in enumerate(path[:-1]):
            t = b.term(bb)
            if t["k"] == "switch":
                nxt = path[i + 1]
                vals = [v for v, x in t["targets"] if x == nxt]
                d = pe.operand(t["d"], (bb, len(b.stmts(bb)) + 1))
                if vals:
                    conds.append((d, "in", tuple(vals)))
                else:
                    conds.append((d, "notin", tuple(v for v, _ in t["targets"])))
            elif t["k"] == "assert":
                continue
        last = path[-1]
        val = pe.local(0, (last, len(b.stmts(last)) + 1), 0)
        out.append((render(tuple(conds)), render(val)))
    return sorted(set(out))


def render(e):
    if isinstance(e, tuple):
        if not e:
            return "()"
        if e[0] == "K":
            return str(e[1])
        if e[0] == "arg":
            return "arg<%s>#%d" % (e[1], e[2])
        if e[0] == "chk":
            return render(e[1])
        return "%s(%s)" % (e[0] if isinstance(e[0], str) else render(e[0]), ", ".join(render(x) for x in e[1:]))
    return str(e)
