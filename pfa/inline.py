"""Inlining of *new* private helper functions into their callers, on the fact file, before any rule looks at it.

Rules anchor on the functions of the reference tree.  The most common everyday refactor — extracting a few statements into a
private helper — moves the statements a rule looks for out of the anchored function.  A function that does not exist on the
reference tree (reference/fnnames.json) and was not recognised as a rename or move of one that does, is therefore spliced back
into every caller: its locals and blocks are appended (renumbered), arguments become assignments, `return` becomes a jump to
the call's continuation with the result assigned to the call's destination.  The helper's own body stays in the facts (rules
that enumerate all functions — unsafe code, statics, failure constructs — still see it).

Not inlined: closures, trait methods, recursive helpers, helpers larger than MAX_BLOCKS blocks, calls through function
pointers.  Everything is conservative: when in doubt the call is left alone and the rules report what they cannot see."""
import copy
import re

MAX_BLOCKS = 80
ALWAYS_ERR = set()


def _map_place(p, lo, top=True):
    q = {"l": p["l"] + lo, "p": []}
    for e in p["p"]:
        if isinstance(e, dict) and "i" in e:
            e = dict(e, i=e["i"] + lo)
        q["p"].append(e)
    return q


def _map_any(o, lo, bo, po, tail, dest, cont):
    """Deep copy of a statement / terminator / operand with locals, blocks and promoted indices shifted."""
    if isinstance(o, list):
        return [_map_any(x, lo, bo, po, tail, dest, cont) for x in o]
    if not isinstance(o, dict):
        return o
    if "l" in o and "p" in o and isinstance(o["p"], list) and isinstance(o["l"], int):
        return _map_place(o, lo)
    out = {}
    for k, v in o.items():
        if k == "promoted" and v is True:
            out[k] = v
        elif k == "pidx" and isinstance(v, int):
            out[k] = v + po
        else:
            out[k] = _map_any(v, lo, bo, po, tail, dest, cont)
    return out


def _map_term(t, lo, bo, po, dest, cont, cleanup_cont):
    k = t["k"]
    if k == "return":
        if cont is None:
            return {"k": "unreachable", "line": t.get("line")}, []
        return {"k": "goto", "t": cont, "line": t.get("line")}, [{"k": "assign", "p": copy.deepcopy(dest), "r": {"k": "use", "op": {"m": {"l": lo, "p": []}}}, "line": t.get("line")}]
    n = _map_any({x: y for x, y in t.items() if x not in ("t", "targets", "otherwise", "unwind")}, lo, bo, po, None, None, None)
    if "t" in t:
        n["t"] = t["t"] + bo if isinstance(t["t"], int) else t["t"]
    if "targets" in t:
        n["targets"] = [[v, b + bo] for v, b in t["targets"]]
    if "otherwise" in t:
        n["otherwise"] = t["otherwise"] + bo if isinstance(t["otherwise"], int) else t["otherwise"]
    if "unwind" in t:
        n["unwind"] = t["unwind"] + bo if isinstance(t["unwind"], int) else t["unwind"]
    if k in ("resume", "unwind_resume") and cleanup_cont is not None:
        return {"k": "goto", "t": cleanup_cont, "line": t.get("line")}, []
    return n, []


def _calls_self(name, bj):
    for bl in bj["blocks"]:
        t = bl["t"]
        if t["k"] == "call":
            c = t["callee"]
            if c.get("def") == name or c.get("resolved") == name:
                return True
    return False


def _try_pattern(caller, cont, dest):
    """cont: `_t = Try::branch(move dest) -> c2`; c2: `_d = discriminant(_t); switch [0: ok, 1: brk]`.  Returns (c2, ok, brk)."""
    if cont is None or dest is None or dest["p"]:
        return None
    b1 = caller["blocks"][cont]
    t1 = b1["t"]
    if b1["s"] or t1["k"] != "call" or not re.search(r"Try>?::branch$|::branch$", t1["callee"].get("def", "")) or len(t1["args"]) != 1:
        return None
    a = t1["args"][0].get("m") or t1["args"][0].get("c")
    if not a or a["p"] or a["l"] != dest["l"] or not isinstance(t1.get("t"), int):
        return None
    b2 = caller["blocks"][t1["t"]]
    t2 = b2["t"]
    if t2["k"] != "switch" or len(b2["s"]) != 1 or b2["s"][0]["r"].get("k") != "discr":
        return None
    tg = dict((v, x) for v, x in t2["targets"])
    if 0 not in tg or 1 not in tg:
        return None
    return t1["t"], tg[0], tg[1]


def _match_pattern(caller, cont, dest, retty):
    """cont: `_d = discriminant(dest); switch _d [..]` (an `if let` / `match` directly on the helper's result).  Returns the
    targets taken for the success variant (Some / Ok) and for the failure variant (None / Err)."""
    if cont is None or dest is None or dest["p"]:
        return None
    b1 = caller["blocks"][cont]
    t1 = b1["t"]
    if t1["k"] != "switch" or not b1["s"]:
        return None
    st = b1["s"][-1]
    if st["k"] != "assign" or st["r"].get("k") != "discr" or st["r"]["place"]["l"] != dest["l"] or st["r"]["place"]["p"]:
        return None
    dp = t1["d"].get("m") or t1["d"].get("c")
    if not dp or dp["l"] != st["p"]["l"]:
        return None
    if any(x["k"] == "assign" and x["p"]["p"] for x in b1["s"]):
        return None
    tg = dict((v, x) for v, x in t1["targets"])
    if retty.startswith("std::option::Option<"):
        okv, errv = 1, 0
    elif retty.startswith("std::result::Result<"):
        okv, errv = 0, 1
    else:
        return None
    return tg.get(okv, t1["otherwise"]), tg.get(errv, t1["otherwise"])


def _succs(t):
    if t["k"] == "goto":
        return [t["t"]]
    if t["k"] in ("call", "drop", "assert") and isinstance(t.get("t"), int):
        return [t["t"]]
    if t["k"] == "switch":
        return [x for _, x in t["targets"]] + [t["otherwise"]]
    return []


def _retarget(t, old, new):
    if t["k"] in ("goto", "call", "drop", "assert") and t.get("t") == old:
        t["t"] = new
    if t["k"] == "switch":
        t["targets"] = [[v, new if x == old else x] for v, x in t["targets"]]
        if t["otherwise"] == old:
            t["otherwise"] = new


def _def_kind(blk):
    """'ok' / 'err' / '?' if this block sets the return place, else None."""
    t = blk["t"]
    if t["k"] == "call" and t.get("dest") and t["dest"]["l"] == 0 and not t["dest"]["p"]:
        c = t["callee"]
        tgt = c.get("resolved") if c.get("rlocal") else c.get("def")
        return "err" if re.search(r"from_residual$", c.get("def", "")) or tgt in ALWAYS_ERR else "?"
    for st in reversed(blk["s"]):
        if st["k"] == "assign" and st["p"]["l"] == 0 and not st["p"]["p"]:
            r = st["r"]
            if r.get("k") == "agg" and r.get("vname") in ("Ok", "Some"):
                return "ok"
            if r.get("k") == "agg" and r.get("vname") in ("Err", "None"):
                return "err"
            return "?"
    return None


def _kinds_at_exit(cj):
    """For every block of the helper: what the return place holds when the block is left ('ok', 'err', '?', or None = not set
    yet), by forward propagation over the CFG."""
    n = len(cj["blocks"])
    preds = {i: [] for i in range(n)}
    for i, bl in enumerate(cj["blocks"]):
        for x in _succs(bl["t"]):
            if isinstance(x, int) and x < n:
                preds[x].append(i)
    out = {i: _def_kind(bl) for i, bl in enumerate(cj["blocks"])}
    own = dict(out)
    for _ in range(n + 2):
        changed = False
        for i in range(n):
            if own[i] is not None:
                continue
            vals = {out[p] for p in preds[i]}
            vals.discard(None)
            v = None if not vals else (vals.pop() if len(vals) == 1 else "?")
            if v != out[i]:
                out[i] = v
                changed = True
        if not changed:
            break
    return out


def _split_by_kind(cj):
    """Copy of the helper in which every block is duplicated per "what the return place holds on arrival" (nothing yet / Ok-ish /
    Err-ish / unknown), so that each `return` of the copy is reached with one definite answer where the code determines it.
    Returns (new body json, {return block index: kind})."""
    blocks = cj["blocks"]
    index, order = {}, []

    def node(b, k):
        key = (b, k)
        if key not in index:
            index[key] = len(order)
            order.append(key)
        return index[key]
    node(0, None)
    i = 0
    edges = {}
    while i < len(order):
        b, k = order[i]
        bl = blocks[b]
        dk = _def_kind(bl)
        # the terminator itself may set the return place (a call into _0): successors see the new kind
        k_out = dk if dk is not None else k
        # statements set _0 before the terminator; a call terminator sets it after: both are "on leaving the block"
        t = bl["t"]
        succ = {}
        for x in _succs(t):
            succ[x] = node(x, k_out)
        if isinstance(t.get("unwind"), int):
            succ[("u", t["unwind"])] = node(t["unwind"], k_out)
        edges[i] = succ
        i += 1
        if len(order) > 6 * len(blocks) + 8:
            return cj, {}
    newb, ret_kind = [], {}
    for ni, (b, k) in enumerate(order):
        bl = copy.deepcopy(blocks[b])
        t = bl["t"]
        succ = edges[ni]
        if "t" in t and isinstance(t["t"], int):
            t["t"] = succ[t["t"]]
        if "targets" in t:
            t["targets"] = [[v, succ[x]] for v, x in t["targets"]]
        if "otherwise" in t and isinstance(t["otherwise"], int):
            t["otherwise"] = succ[t["otherwise"]]
        if isinstance(t.get("unwind"), int):
            t["unwind"] = succ[("u", t["unwind"])]
        newb.append(bl)
        if t["k"] == "return":
            dk = _def_kind(blocks[b])
            ret_kind[ni] = dk if dk is not None else k
    nj = dict(cj)
    nj["blocks"] = newb
    return nj, ret_kind


def inline_one(caller, bi, callee_name, cj):
    """Splice `cj` into `caller` at the call terminating block `bi`."""
    t = caller["blocks"][bi]["t"]
    cj, ret_kind = _split_by_kind(cj)
    lo = len(caller["locals"])
    bo = len(caller["blocks"])
    po = len(caller.get("promoted") or [])
    for i, l in enumerate(cj["locals"]):
        nl = dict(l)
        if nl.get("name") and 1 <= i <= cj["argc"]:
            nl.pop("name")              # parameters of the helper are not user variables of the caller
        caller["locals"].append(nl)
    if cj.get("promoted"):
        caller.setdefault("promoted", [])
        caller["promoted"].extend(copy.deepcopy(cj["promoted"]))
    dest, cont = t.get("dest"), t.get("t")
    unwind = t.get("unwind") if isinstance(t.get("unwind"), int) else None
    tp = _try_pattern(caller, cont, dest)
    ret_idx = []
    for ci, bl in enumerate(cj["blocks"]):
        nb = {k: v for k, v in bl.items() if k not in ("s", "t")}
        nb["s"] = [_map_any(s, lo, bo, po, None, None, None) for s in bl["s"]]
        nt, extra = _map_term(bl["t"], lo, bo, po, dest, cont, unwind)
        nb["s"].extend(extra)
        nb["t"] = nt
        if bl["t"]["k"] == "return":
            ret_idx.append(ci)
        caller["blocks"].append(nb)
    # `helper(..)?`: an edge into the helper's return on which the result is statically Ok / Err continues on that side of
    # the caller's `?` only (tail duplication of the return block and the two blocks of the `?`), so that dominance arguments
    # survive the splice
    mp = _match_pattern(caller, cont, dest, re.sub(r"'[a-z_]+ ?", "", cj["locals"][0].get("ty", ""))) if tp is None else None
    if mp is not None:
        ok_t, err_t = mp
        for r in ret_idx:
            kind = ret_kind.get(r)
            if kind not in ("ok", "err"):
                continue
            n1 = copy.deepcopy(caller["blocks"][cont])
            i0 = len(caller["blocks"])
            n1["t"] = {"k": "goto", "t": ok_t if kind == "ok" else err_t, "line": n1["t"].get("line")}
            caller["blocks"].append(n1)
            caller["blocks"][bo + r]["t"]["t"] = i0
    if tp is not None:
        c2, ok_t, brk_t = tp
        for r in ret_idx:
            kind = ret_kind.get(r)
            if kind not in ("ok", "err"):
                continue
            n1 = copy.deepcopy(caller["blocks"][cont])
            n2 = copy.deepcopy(caller["blocks"][c2])
            i0 = len(caller["blocks"])
            n1["t"]["t"] = i0 + 1
            if kind == "err":
                n1["t"]["always_break"] = True
            else:
                # the payload is known when the Ok(..) aggregate is built on the way into this return: `_t = Continue(x)`
                okdef = None
                for pb in caller["blocks"][bo:]:
                    if (bo + r) in _succs(pb["t"]):
                        for st in reversed(pb["s"]):
                            if st["k"] == "assign" and st["p"]["l"] == lo and not st["p"]["p"] and st["r"].get("k") == "agg" and len(st["r"].get("ops", [])) == 1:
                                okdef = st["r"]["ops"][0]
                                break
                if okdef is not None and n1["t"].get("dest") and not n1["t"]["dest"]["p"]:
                    n1["s"].append({"k": "assign", "p": copy.deepcopy(n1["t"]["dest"]), "r": {"k": "agg", "ak": "adt", "adt": "std::ops::ControlFlow", "vname": "Continue", "ops": [copy.deepcopy(okdef)]}, "line": n1["t"].get("line")})
                    n1["t"] = {"k": "goto", "t": i0 + 1, "line": n1["t"].get("line")}
            n2["t"] = {"k": "goto", "t": ok_t if kind == "ok" else brk_t, "line": n2["t"].get("line"), "exp": n2["t"].get("exp")}
            caller["blocks"].extend([n1, n2])
            caller["blocks"][bo + r]["t"]["t"] = i0
    blk = caller["blocks"][bi]
    for i, a in enumerate(t["args"]):
        blk["s"].append({"k": "assign", "p": {"l": lo + 1 + i, "p": []}, "r": {"k": "use", "op": copy.deepcopy(a)}, "line": t.get("line"), "inl": callee_name})
    blk["t"] = {"k": "goto", "t": bo, "line": t.get("line"), "inlined": callee_name}


def inline_new_helpers(j, ref_names, log=None):
    bodies = j["bodies"]
    new = [k for k, v in bodies.items() if v.get("kind") in ("fn", "assocfn") and "{" not in k and not k.startswith("<") and k not in ref_names]
    new = [k for k in new if len(bodies[k]["blocks"]) <= MAX_BLOCKS and not _calls_self(k, bodies[k]) and not bodies[k].get("no_mangle")]
    if not new:
        return {}
    # local functions every result of which is an Err (err_exit_code and friends)
    ALWAYS_ERR.clear()
    for _ in range(3):
        for k, v in bodies.items():
            if k in ALWAYS_ERR or "blocks" not in v or not (v.get("sig") or "").count("Result<"):
                continue
            kinds = [x for x in (_def_kind(bl) for bl in v["blocks"]) if x is not None]
            if kinds and all(x == "err" for x in kinds):
                ALWAYS_ERR.add(k)
    done = {}
    # helpers calling helpers: inline leaves first, a few rounds
    for _round in range(4):
        changed = False
        for callee in new:
            cj = bodies[callee]
            if any(bl["t"]["k"] == "call" and (bl["t"]["callee"].get("resolved") or bl["t"]["callee"].get("def")) in new and
                   (bl["t"]["callee"].get("resolved") or bl["t"]["callee"].get("def")) != callee for bl in cj["blocks"]) and _round < 3:
                continue
            for cname, bj in bodies.items():
                if cname == callee or "blocks" not in bj:
                    continue
                guard = 0
                while guard < 50:
                    guard += 1
                    hit = None
                    for bi, bl in enumerate(bj["blocks"]):
                        t = bl["t"]
                        if t["k"] == "call":
                            c = t["callee"]
                            tgt = c.get("resolved") if c.get("rlocal") and c.get("rkind") == "item" else (c.get("def") if c.get("local") else None)
                            if tgt == callee and len(t["args"]) == cj["argc"]:
                                hit = bi
                                break
                    if hit is None:
                        break
                    inline_one(bj, hit, callee, cj)
                    done.setdefault(callee, []).append(cname)
                    changed = True
        if not changed:
            break
    for cname in {c for cs in done.values() for c in cs}:
        bj = bodies[cname]
        seen, work = set(), [0]
        while work:
            x = work.pop()
            if x in seen or not isinstance(x, int) or x >= len(bj["blocks"]):
                continue
            seen.add(x)
            t = bj["blocks"][x]["t"]
            work.extend(_succs(t))
            if isinstance(t.get("unwind"), int):
                work.append(t["unwind"])
        for i, bl in enumerate(bj["blocks"]):
            if i not in seen:
                bl["s"] = []
                bl["t"] = {"k": "unreachable", "line": 0}
    return done
