"""PROTO — protocol inclusion between a writer and a reader, decided on the MIR.

Both sides are turned into labelled transition systems by a small path-sensitive abstract
interpreter over the CFGs (local callees that carry events are inlined; Ok/Err status of inlined
callees and of `?` is tracked so that only Ok-paths of the writer are considered; on the reader side
the constant a writer label carries is bound to the decoded value, so that `if decoded == K` /
`match decoded` follow the branch the writer's constant selects — "value refinement").

check(): every event sequence on a writer path ending in Ok is accepted by the reader
(subset construction on the reader side), and the reader can terminate where the writer does.
Nothing is executed: the interpreter only propagates constants, Ok/Err tags and decoded constants.
"""
import re
from collections import deque
from .facts import op_place, op_const, const_int, callee_def, AnchorMissing
from . import flow
from .common import strip_generics

TOP = None

TAG_PRESERVING = ("AddContext::context", "AddContext::with_context", "Result::map_err", "Result::inspect_err")
ALWAYS_ERR_FNS = ("preflate_rs::preflate_error::err_exit_code",)


class Alphabet:
    """Maps call terminators to event labels.  Subclasses define `event` and `carrier_traits`."""

    def event(self, M, body, bb, t):
        """Return (label, value_slot) or None.  label is a hashable tuple; for reader events
        value_slot=True means the call's destination receives the writer's constant."""
        raise NotImplementedError

    def is_event_callee(self, t):
        raise NotImplementedError


class Machine:
    def __init__(self, F, alphabet, side, max_depth=8):
        self.F = F
        self.A = alphabet
        self.side = side
        self.max_depth = max_depth
        self._bearing = None
        self._always_err = {}
        self.unrecognised = []   # (where, why)
        self.sites = {}          # label -> set of where strings
        self.event_sites = set()  # (fn, bb)
        self.site_info = {}      # where -> (fn, bb)
        self._block_cache = {}
        self.stops = set()       # (fn, bb): arriving there ends the exploration (region summaries)

    # ---- which local functions carry events (transitively) ------------------------------------
    def local_callee(self, t):
        c = t.get("callee", {})
        if c.get("rlocal") and c.get("resolved") in self.F.bodies:
            return c["resolved"]
        if c.get("local") and c.get("def") in self.F.bodies:
            return c["def"]
        return None

    def bearing(self):
        if self._bearing is None:
            direct = set()
            callers = {}
            scope = getattr(self.A, "scope", None)
            for name, b in self.F.bodies.items():
                if scope is not None and name not in scope:
                    continue
                for bb, t in b.calls():
                    if self.A.is_event_callee(t):
                        direct.add(name)
                    lc = self.local_callee(t)
                    if lc:
                        callers.setdefault(lc, set()).add(name)
            bearing = set(direct)
            dq = deque(direct)
            while dq:
                x = dq.popleft()
                for c in callers.get(x, ()):
                    if scope is not None and c not in scope:
                        continue
                    if c not in bearing:
                        bearing.add(c)
                        dq.append(c)
            self._bearing = bearing
        return self._bearing

    def static_sites(self, entry):
        """Event call sites in `entry` and the event-bearing local functions it reaches (static enumeration)."""
        seen, sites = set(), set()
        work = [entry]
        while work:
            fn = work.pop()
            if fn in seen or fn not in self.F.bodies:
                continue
            seen.add(fn)
            for bb, t in self.F.bodies[fn].calls():
                if self.A.is_event_callee(t):
                    sites.add((fn, bb))
                lc = self.local_callee(t)
                if lc and lc in self.bearing():
                    work.append(lc)
        return sites

    def always_err(self, fn, depth=0):
        """Does every normal return of `fn` carry Err?  (syntactic: all defs of _0 are Err / always-Err calls)"""
        if fn in ALWAYS_ERR_FNS:
            return True
        if fn in self._always_err:
            return self._always_err[fn]
        self._always_err[fn] = False
        b = self.F.bodies.get(fn)
        res = False
        if b is not None and depth < 4:
            ds = b.defs(0)
            if ds:
                res = True
                for bb, idx, kind, payload in ds:
                    if kind == "assign" and payload["k"] == "agg" and payload.get("vname") == "Err":
                        continue
                    if kind == "call":
                        n = strip_generics(callee_def(payload))
                        lc = self.local_callee(payload)
                        if n.endswith("from_residual") or (lc and self.always_err(lc, depth + 1)):
                            continue
                    res = False
                    break
        self._always_err[fn] = res
        return res

    # ---- abstract values ---------------------------------------------------------------------
    def val(self, body, env, op):
        k = op_const(op)
        if k is not None and isinstance(k, dict) and "ty" in k:
            v = const_int(k)
            return ("i", v) if v is not None else TOP
        p = op_place(op)
        if p is None:
            return TOP
        if p["p"]:
            base = env.get(p["l"])
            if base is None:
                return TOP
            pr = p["p"]
            # payload of a tagged value: (x as Variant).0
            if base[0] == "t" and len(pr) == 2 and isinstance(pr[0], dict) and "dc" in pr[0] and isinstance(pr[1], dict) and pr[1].get("f") == 0:
                if _VARIANT_INDEX.get(base[1]) == pr[0]["dc"] and base[2] is not None:
                    return base[2]
                return TOP
            # element of a small buffer whose (single) element value is known
            if base[0] == "i" and len(pr) == 1 and isinstance(pr[0], dict) and ("i" in pr[0] or "ci" in pr[0]):
                return base
            if base[0] == "tup" and len(pr) == 1 and isinstance(pr[0], dict) and "f" in pr[0] and pr[0]["f"] < len(base[1]) and base[1][pr[0]["f"]] is not None:
                return base[1][pr[0]["f"]]
            return TOP
        v = env.get(p["l"])
        if v is not None:
            return v
        c = flow.const_eval(body, op)
        if c is not None:
            return ("i", c)
        return TOP

    def rvalue(self, body, env, r, dest_ty):
        k = r["k"]
        if k == "use":
            v0 = self.val(body, env, r["op"]) if _derived(env, r["op"]) else TOP
            if (v0 is TOP or not v0) and re.search(r"statistical_codec::Codec(Correction|Misprediction)$", dest_ty or ""):
                # a correction context chosen into a variable (`let ctx = if .. { A } else { B }`)
                from . import flow as _flow
                rv = _flow.resolve_variant(body, r["op"])
                if rv is not None and rv[2] is not None:
                    return ("i", rv[2])
            return v0
        if k == "cast" and r["ck"] == "IntToInt":
            return self.val(body, env, r["op"]) if _derived(env, r["op"]) else TOP
        if k == "unop" and r["op"] == "Not":
            if not _derived(env, r["a"]):
                return TOP
            v = self.val(body, env, r["a"])
            if v and v[0] == "i" and dest_ty == "bool":
                return ("i", 1 - v[1])
            return TOP
        if k == "binop" and r["op"] in ("Eq", "Ne", "Lt", "Le", "Gt", "Ge"):
            if not (_derived(env, r["l"]) or _derived(env, r["r"])):
                return TOP
            a = self.val(body, env, r["l"])
            b = self.val(body, env, r["r"])
            if a and b and a[0] == "i" and b[0] == "i":
                x, y = a[1], b[1]
                return ("i", int({"Eq": x == y, "Ne": x != y, "Lt": x < y, "Le": x <= y, "Gt": x > y, "Ge": x >= y}[r["op"]]))
            return TOP
        if k == "discr":
            p = r["place"]
            if p["p"]:
                return TOP
            v = env.get(p["l"])
            if v and v[0] == "t":
                return ("i", _VARIANT_INDEX[v[1]])
            return TOP
        if k == "agg" and r.get("ak") == "tuple" and 1 <= len(r["ops"]) <= 4:
            # a small tuple of known values (`let (ctx, n) = if .. { (A, 1) } else { (B, k) }`)
            def _v(o):
                x = self.val(body, env, o) if _derived(env, o) else TOP
                if x is TOP or not x:
                    from . import flow as _flow
                    rv = _flow.resolve_variant(body, o)          # a unit enum variant written as a constant
                    if rv is not None and rv[2] is not None:
                        return ("i", rv[2])
                return x
            vals = tuple(_v(o) for o in r["ops"])
            if any(v is not TOP and v and v[0] == "i" for v in vals):
                return ("tup", tuple(v if (v is not TOP and v and v[0] == "i") else None for v in vals))
            return TOP
        if k == "agg" and r.get("ak") == "adt" and not r.get("ops") and re.search(r"statistical_codec::Codec(Correction|Misprediction)$", r.get("adt", "")) and r.get("discr") is not None:
            return ("i", r["discr"])                 # a correction context written as a unit variant
        if k == "agg" and r.get("ak") == "adt":
            if r["adt"] in ("std::result::Result", "std::ops::ControlFlow", "std::option::Option"):
                pay = None
                if len(r["ops"]) == 1 and _derived(env, r["ops"][0]):
                    pv = self.val(body, env, r["ops"][0])
                    if pv and pv[0] == "i":
                        pay = pv
                return ("t", r["vname"], pay)
        return TOP

    # ---- one block ---------------------------------------------------------------------------
    def run_block(self, frames):
        """frames: tuple of (fn, bb, envtuple).  Returns list of items:
        ('eps', frames') | ('event', label, where, slot_local, frames_after) | ('exit', tag)"""
        fn, bb, envt = frames[-1]
        body = self.F.bodies[fn]
        env = dict(envt)
        if (fn, bb) in self.stops and len(frames) == 1:
            t0 = env.get(0)
            return [("exit", "Err" if (t0 and t0[0] == "t" and t0[1] == "Err") else "Ok")]
        for s in body.stmts(bb):
            if s["k"] == "assign":
                p = s["p"]
                if p["p"]:
                    # partial write: forget the base unless it is a deref of a reference
                    if "*" not in p["p"]:
                        env.pop(p["l"], None)
                    continue
                r = s["r"]
                if r["k"] in ("ref", "rawptr") and r.get("mut") and not r["place"]["p"]:
                    env.pop(r["place"]["l"], None)
                v = self.rvalue(body, env, r, body.local_ty(p["l"]))
                if v is TOP:
                    env.pop(p["l"], None)
                else:
                    env[p["l"]] = v
            elif s["k"] == "setdiscr":
                env.pop(s["p"]["l"], None)
        t = body.term(bb)
        k = t["k"]
        base = frames[:-1]

        def nxt(nb, e=None):
            e = env if e is None else e
            return base + ((fn, nb, tuple(sorted(e.items()))),)

        if k == "goto":
            return [("eps", nxt(t["t"]))]
        if k in ("drop", "assert"):
            return [("eps", nxt(t["t"]))]
        if k == "switch":
            dv = self.val(body, env, t["d"]) if _derived(env, t["d"]) else TOP
            targets = t["targets"]
            if dv and dv[0] == "i":
                for v, b2 in targets:
                    if v == dv[1]:
                        return [("eps", nxt(b2))]
                return [("eps", nxt(t["otherwise"]))]
            out = []
            seen = set()
            for v, b2 in targets:
                if b2 not in seen:
                    seen.add(b2)
                    out.append(("eps", nxt(b2)))
            if t["otherwise"] not in seen and body.term(t["otherwise"])["k"] != "unreachable":
                out.append(("eps", nxt(t["otherwise"])))
            return out
        if k == "return":
            tag = env.get(0)
            tagv = tag[1] if tag and tag[0] == "t" else None
            if not base:
                return [("exit", tagv)]
            # pop: bind the caller's destination
            cfn, cbb, cenvt = base[-1]
            cbody = self.F.bodies[cfn]
            ct = cbody.term(cbb)
            cenv = dict(cenvt)
            d = ct["dest"]
            if not d["p"]:
                if tagv is not None:
                    cenv[d["l"]] = tag
                elif tag and tag[0] == "i":
                    cenv[d["l"]] = tag
                else:
                    cenv.pop(d["l"], None)
            if ct.get("t") is None:
                return []
            return [("eps", base[:-1] + ((cfn, ct["t"], tuple(sorted(cenv.items()))),))]
        if k in ("unreachable", "resume", "terminate"):
            return []
        if k == "call":
            tgt = t.get("t")
            d = t["dest"]
            self.cur_env = env
            ev = self.A.event(self, body, bb, t)
            if ev is not None:
                if isinstance(ev, tuple):
                    label, slot = ev
                    dl = d["l"] if not d["p"] else None
                    binder = (lambda v, dl=dl: ({dl: ("i", v)} if (v is not None and dl is not None) else {})) if slot else None
                    ev = [(label, binder)]
                where = "%s (%s:%s)" % (fn.replace("preflate_rs::", ""), body.file, t.get("line"))
                # two sites on one source line (a tuple of two reads) are two sites
                if not hasattr(self, "_site_label"):
                    self._site_label = {}
                if (fn, bb) in self._site_label:
                    where = self._site_label[(fn, bb)]
                else:
                    n_lbl = 1
                    base_lbl = where
                    while where in self.site_info and self.site_info[where] != (fn, bb):
                        n_lbl += 1
                        where = "%s#%d" % (base_lbl, n_lbl)
                    self._site_label[(fn, bb)] = where
                if tgt is None:
                    return []
                out = []
                for item in ev:
                    label, binder = item[0], item[1]
                    e2 = dict(env)
                    if not d["p"]:
                        e2.pop(d["l"], None)
                    if len(item) > 2:
                        e2.update(item[2])          # what this alternative says about a value (a flag written as true / as false)
                    if label is None:
                        for l, v in (binder(None) if binder else {}).items():
                            e2[l] = v
                        out.append(("eps", nxt(tgt, e2)))
                        continue
                    self.sites.setdefault(label, set()).add(where)
                    self.event_sites.add((fn, bb))
                    self.site_info[where] = (fn, bb)
                    out.append(("event", label, where, binder, nxt(tgt, e2)))
                return out
            name = strip_generics(callee_def(t))
            lc = self.local_callee(t)
            if lc and lc in self.bearing():
                if len(frames) >= self.max_depth or any(f[0] == lc for f in frames):
                    self.unrecognised.append((fn, "recursive or too deep inlining of " + lc))
                    return []
                cb = self.F.bodies[lc]
                cenv = {}
                for i, a in enumerate(t["args"]):
                    v = self.val(body, env, a)
                    if v is not TOP:
                        cenv[i + 1] = v
                # the caller frame stays at this block (its terminator is the pending call)
                return [("eps", base + ((fn, bb, tuple(sorted(env.items()))), (lc, 0, tuple(sorted(cenv.items())))))]
            # ---- opaque call: transfer functions for the `?` machinery --------------------------
            e2 = dict(env)
            newv = TOP
            if name.endswith("Try::branch"):
                a = self.val(body, env, t["args"][0]) if _derived(env, t["args"][0]) else TOP
                if a and a[0] == "t":
                    newv = ("t", "Continue" if a[1] == "Ok" else "Break", a[2])
            elif name.endswith("from_residual"):
                newv = ("t", "Err", None)
            elif any(name.endswith(x) for x in TAG_PRESERVING):
                a = self.val(body, env, t["args"][0]) if _derived(env, t["args"][0]) else TOP
                if a and a[0] == "t":
                    newv = a
            elif lc and self.always_err(lc):
                newv = ("t", "Err", None)
            if not d["p"]:
                if newv is TOP:
                    e2.pop(d["l"], None)
                else:
                    e2[d["l"]] = newv
            if tgt is None:
                return []
            return [("eps", nxt(tgt, e2))]
        return []

    def initial(self, fn):
        if fn not in self.F.bodies:
            raise AnchorMissing("protocol entry not found: " + fn)
        return ((fn, 0, ()),)

    def frontier(self, frames, cache):
        """All first observable items reachable from `frames` through eps steps."""
        if frames in cache:
            return cache[frames]
        out = []
        seen = {frames}
        dq = deque([frames])
        steps = 0
        while dq:
            f = dq.popleft()
            steps += 1
            if steps > 200000:
                self.unrecognised.append((f[-1][0], "state explosion in eps-closure"))
                break
            for it in self._rb(f):
                if it[0] == "eps":
                    if it[1] not in seen:
                        seen.add(it[1])
                        dq.append(it[1])
                else:
                    out.append(it)
        cache[frames] = out
        return out

    def _rb(self, frames):
        r = self._block_cache.get(frames)
        if r is None:
            r = self.run_block(frames)
            self._block_cache[frames] = r
        return r


_VARIANT_INDEX = {"Ok": 0, "Err": 1, "Continue": 0, "Break": 1, "None": 0, "Some": 1}


def _derived(env, op):
    """Is the operand a local the interpreter has knowledge about, or a literal constant?"""
    k = op_const(op)
    if k is not None and isinstance(k, dict) and "ty" in k:
        return True
    p = op_place(op)
    return p is not None and p["l"] in env


def bind(frames, binder, value):
    if binder is None:
        return frames
    upd = binder(value)
    if not upd:
        return frames
    fn, bb, envt = frames[-1]
    env = dict(envt)
    env.update(upd)
    return frames[:-1] + ((fn, bb, tuple(sorted(env.items()))),)


def check(W, wentry, R, rentry, match, max_pairs=400000):
    """Inclusion L(W ok-paths) ⊆ L(R).  `match(wl, rl)` -> (ok: bool, value-for-reader or None).
    Returns dict(violations=[...], pairs=int, wevents=set, revents=set, matched=set)."""
    wc, rc = {}, {}
    w0 = W.initial(wentry)
    r0 = frozenset([R.initial(rentry)])
    seen = set()
    dq = deque([(w0, r0, ())])
    viol = {}
    matched = set()
    pairs = 0
    wlabels, rlabels = set(), set()
    ok_exits = 0
    while dq:
        ws, rs, trail = dq.popleft()
        if (ws, rs) in seen:
            continue
        seen.add((ws, rs))
        pairs += 1
        if pairs > max_pairs:
            viol[("explosion",)] = {"kind": "UNRECOGNISED-IDIOM", "detail": "product state space exceeded %d" % max_pairs}
            break
        wf = W.frontier(ws, wc)
        ritems = []
        for r in rs:
            ritems.extend(R.frontier(r, rc))
        for it in wf:
            if it[0] == "exit":
                if it[1] == "Err":
                    continue
                ok_exits += 1
                if not any(ri[0] == "exit" and ri[1] != "Err" for ri in ritems):
                    exp = sorted({str(ri[1]) for ri in ritems if ri[0] == "event"})
                    key = ("end", tuple(exp))
                    viol.setdefault(key, {"kind": "reader-expects-more", "writer": "end of stream (writer returns Ok)",
                                          "reader_expects": exp, "reader_sites": sorted({ri[2] for ri in ritems if ri[0] == "event"})[:4],
                                          "trail": list(trail[-6:])})
                continue
            _, wl, wwhere, wslot, wnext = it
            wlabels.add(wl)
            nxt = set()
            for ri in ritems:
                if ri[0] != "event":
                    continue
                _, rl, rwhere, rslot, rnext = ri
                rlabels.add(rl)
                ok, val = match(wl, rl)
                if ok:
                    matched.add((wl, rl, wwhere, rwhere))
                    nxt.add(bind(rnext, rslot, val))
            if not nxt:
                exp = sorted({str(ri[1]) for ri in ritems if ri[0] == "event"})
                ends = any(ri[0] == "exit" for ri in ritems)
                key = (wl, wwhere)
                viol.setdefault(key, {"kind": "reader-rejects", "writer": "%s at %s" % (wl, wwhere),
                                      "reader_expects": exp + (["<end>"] if ends else []),
                                      "reader_sites": sorted({ri[2] for ri in ritems if ri[0] == "event"})[:4],
                                      "trail": list(trail[-6:])})
                continue
            dq.append((wnext, frozenset(nxt), (trail + (str(wl),))[-8:]))
    return {"violations": list(viol.values()), "pairs": pairs, "wlabels": wlabels, "rlabels": rlabels,
            "matched": matched, "ok_exits": ok_exits}
