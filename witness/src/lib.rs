//! Type-level witnesses for C12 / C14: each obligation is a compile-pass twin + a compile_fail witness that
//! differs only in the offending line (run with `cargo +nightly test --doc --offline`; stable ignores error codes).

/// C12/F7 — both wrappers have exactly the C signature the callers link against.
///
/// ```
/// let _c: unsafe extern "C" fn(*const u8, u64, *mut u8, u64, *mut u64) -> i32 = preflate_rs::WrapperCompressZip;
/// let _d: unsafe extern "C" fn(*const u8, u64, *mut u8, u64, *mut u64) -> i32 = preflate_rs::WrapperDecompressZip;
/// ```
///
/// The same coercion with 32-bit sizes must not type-check:
///
/// ```compile_fail,E0308
/// let _c: unsafe extern "C" fn(*const u8, u32, *mut u8, u32, *mut u64) -> i32 = preflate_rs::WrapperCompressZip;
/// ```
///
/// ```compile_fail,E0308
/// let _d: unsafe extern "C" fn(*const u8, u64, *mut u8, u64, *mut u32) -> i32 = preflate_rs::WrapperDecompressZip;
/// ```
pub struct FfiSignature;

/// C14/S6 — the public results and the error type can cross threads.
///
/// ```
/// fn assert_send_sync<T: Send + Sync + 'static>() {}
/// assert_send_sync::<preflate_rs::PreflateError>();
/// fn result_is_send_sync() {
///     fn check<T: Send + Sync>(_: &T) {}
///     let r = preflate_rs::decompress_deflate_stream(&[3, 0], true, 0);
///     check(&r);
/// }
/// ```
///
/// The witness is able to fail: the identical snippet with a non-Send type is rejected.
///
/// ```compile_fail,E0277
/// fn assert_send_sync<T: Send + Sync + 'static>() {}
/// assert_send_sync::<std::rc::Rc<Vec<u8>>>();
/// ```
pub struct SendSync;

/// C14/S6 — the slice-taking public functions are plain `fn` items over immutable borrows: they can be called
/// from several scoped threads on one shared buffer without any locking.
///
/// ```
/// use std::sync::Arc;
/// let expand: fn(&[u8], u32) -> Result<Vec<u8>, preflate_rs::PreflateError> = preflate_rs::expand_zlib_chunks;
/// let compress: fn(&[u8], u32) -> Result<Vec<u8>, preflate_rs::PreflateError> = preflate_rs::compress_zstd;
/// let decompress: fn(&[u8], usize) -> Result<Vec<u8>, preflate_rs::PreflateError> = preflate_rs::decompress_zstd;
/// let recompress: fn(&[u8], &[u8]) -> Result<Vec<u8>, preflate_rs::PreflateError> = preflate_rs::recompress_deflate_stream;
/// let shared: Arc<[u8]> = Arc::from(vec![1u8, 2, 3]);
/// std::thread::scope(|s| {
///     let a = s.spawn(|| expand(&shared, 0).map(|v| v.len()).ok());
///     let b = s.spawn(|| expand(&shared, 0).map(|v| v.len()).ok());
///     assert_eq!(a.join().unwrap(), b.join().unwrap());
/// });
/// let _ = (compress, decompress, recompress);
/// ```
///
/// A function that needed exclusive access would not accept the shared borrow:
///
/// ```compile_fail,E0308
/// let expand: fn(&mut [u8], u32) -> Result<Vec<u8>, preflate_rs::PreflateError> = preflate_rs::expand_zlib_chunks;
/// ```
pub struct SharedBorrows;
