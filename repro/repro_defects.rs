// Reproductions of pinned-tree defects through the public API (integration test; copy to tests/ of a worktree).
use std::panic::catch_unwind;

use preflate_rs::{decompress_deflate_stream, recompress_deflate_stream};

/// D3: zlib Z_HUFFMAN_ONLY output with an (empty) stored block between two Huffman-only blocks:
/// no reference token exists, min_len keeps its u32::MAX sentinel and u16::try_from(..).unwrap() panics.
#[test]
fn d3_huffman_only_with_stored_block() {
    let d: Vec<u8> = vec![4, 193, 177, 9, 0, 64, 12, 3, 177, 85, 156, 254, 199, 114, 32, 197, 129, 33, 77, 214, 127, 105, 26, 162, 203, 226, 167, 105, 136, 46, 139, 75, 211, 16, 93, 22, 63, 77, 67, 116, 89, 92, 154, 134, 232, 178, 248, 105, 26, 162, 203, 226, 210, 52, 68, 151, 197, 79, 211, 16, 93, 22, 151, 166, 33, 186, 44, 126, 154, 134, 232, 178, 184, 52, 13, 209, 101, 241, 211, 52, 68, 151, 197, 165, 105, 136, 46, 139, 159, 166, 33, 186, 44, 46, 77, 67, 116, 89, 252, 52, 13, 209, 101, 113, 105, 26, 162, 203, 226, 167, 105, 136, 46, 139, 75, 211, 16, 93, 22, 63, 77, 67, 116, 89, 92, 250, 0, 0, 0, 255, 255, 5, 193, 193, 9, 0, 64, 8, 4, 177, 86, 166, 181, 129, 245, 233, 9, 98, 255, 92, 210, 179, 69, 60, 241, 133, 158, 45, 226, 73, 207, 22, 241, 196, 23, 122, 182, 136, 39, 61, 91, 196, 19, 95, 232, 217, 34, 158, 244, 108, 17, 79, 124, 161, 103, 139, 120, 210, 179, 69, 60, 241, 133, 158, 45, 226, 73, 207, 22, 241, 196, 23, 122, 182, 136, 39, 61, 91, 196, 19, 95, 232, 217, 34, 158, 244, 108, 17, 79, 124, 161, 103, 139, 120, 210, 179, 69, 60, 241, 133, 158, 45, 226, 73, 207, 22, 241, 196, 23, 122, 182, 136, 39, 31];
    for verify in [true, false] {
        let dd = d.clone();
        let r = catch_unwind(move || decompress_deflate_stream(&dd, verify, 0));
        assert!(r.is_ok(), "decompress_deflate_stream panicked (verify={})", verify);
        if let Ok(Ok(res)) = r {
            let back = recompress_deflate_stream(&res.plain_text, &res.prediction_corrections).unwrap();
            assert_eq!(&back[..], &d[..res.compressed_size]);
        }
    }
}

fn zlib_tuned(data: &[u8], level: i32, good: i32, lazy: i32, nice: i32, chain: i32) -> Vec<u8> {
    use libz_sys::*;
    unsafe {
        let mut strm = z_stream {
            next_in: std::ptr::null_mut(), avail_in: 0, next_out: std::ptr::null_mut(), avail_out: 0, total_in: 0, total_out: 0,
            msg: std::ptr::null_mut(), state: std::ptr::null_mut(),
            zalloc: std::mem::transmute(std::ptr::null::<u8>()), zfree: std::mem::transmute(std::ptr::null::<u8>()),
            opaque: std::ptr::null_mut(), data_type: 0, adler: 0, reserved: 0,
        };
        let rc = deflateInit2_(&mut strm, level, Z_DEFLATED, -15, 8, Z_DEFAULT_STRATEGY, zlibVersion(), std::mem::size_of::<z_stream>() as i32);
        assert_eq!(rc, Z_OK);
        let rc = deflateTune(&mut strm, good, lazy, nice, chain);
        assert_eq!(rc, Z_OK);
        let mut out = vec![0u8; data.len() * 2 + 1024];
        strm.next_in = data.as_ptr() as *mut u8;
        strm.avail_in = data.len() as u32;
        strm.next_out = out.as_mut_ptr();
        strm.avail_out = out.len() as u32;
        let rc = deflate(&mut strm, Z_FINISH);
        assert_eq!(rc, Z_STREAM_END);
        let n = strm.total_out as usize;
        deflateEnd(&mut strm);
        out.truncate(n);
        out
    }
}

fn lcg(seed: &mut u64) -> u32 {
    *seed = seed.wrapping_mul(6364136223846793005).wrapping_add(1442695040888963407);
    (*seed >> 33) as u32
}

/// D2: zlib's fast strategy (levels 1-3) inserts every byte of a match into the dictionary only when the match is
/// not longer than max_insert_length (= max_lazy).  With max_lazy tuned to 256/257 the estimator derives
/// AddFirst(256|257), which the 8-bit header field truncates.
#[test]
fn d2_add_policy_limit_256_257() {
    for lazy in [256, 257] {
        let mut seed = 12345u64 + lazy as u64;
        // R: 400 distinct-ish random bytes; then a copy of R[0..L] (one match of length L = 256 or 257, fully
        // inserted because L <= max_insert_length); then R[10..100], whose nearest source lies *inside* that match.
        let l = lazy as usize;
        let r: Vec<u8> = (0..400).map(|_| (lcg(&mut seed) % 251) as u8).collect();
        let mut data = r.clone();
        data.extend_from_slice(b"#1#");
        data.extend_from_slice(&r[0..l]);
        data.extend_from_slice(b"#2#");
        data.extend_from_slice(&r[10..100]);
        data.extend_from_slice(b"#3#");
        for _ in 0..20 {
            data.extend((0..50).map(|_| (lcg(&mut seed) % 251) as u8));
            data.extend_from_slice(&r[20..60]);
        }
        let d = zlib_tuned(&data, 1, 4, lazy, 258, 4);
        for verify in [true, false] {
            let dd = d.clone();
            let r = catch_unwind(move || decompress_deflate_stream(&dd, verify, 0));
            assert!(r.is_ok(), "panicked (lazy={}, verify={})", lazy, verify);
            match r.unwrap() {
                Ok(res) => {
                    println!("lazy={} verify={} params={:?}", lazy, verify, res.parameters);
                    let back = recompress_deflate_stream(&res.plain_text, &res.prediction_corrections);
                    assert!(back.is_ok(), "accepted (verify={}) but reconstruction failed: {:?}", verify, back.err());
                    assert_eq!(&back.unwrap()[..], &d[..res.compressed_size], "accepted but reconstructed differently (lazy={}, verify={})", lazy, verify);
                }
                Err(e) => println!("lazy={} verify={} rejected: {:?}", lazy, verify, e),
            }
        }
    }
}

fn libdeflate(data: &[u8], level: i32) -> Vec<u8> {
    use libdeflate_sys::*;
    unsafe {
        let c = libdeflate_alloc_compressor(level);
        let mut out = vec![0u8; data.len() * 2 + 100];
        let n = libdeflate_deflate_compress(c, data.as_ptr() as *const _, data.len(), out.as_mut_ptr() as *mut _, out.len());
        libdeflate_free_compressor(c);
        out.truncate(n);
        out
    }
}

/// D4: a 3-byte match candidate that fills the remaining input (max_len == 3) but is too far away to be taken
/// leaves best_len == max_len, and the next prefix_compare call asserts best_len < max_len.
#[test]
fn d4_three_byte_candidate_at_end_of_input() {
    let mut panics = Vec::new();
    let mut seed = 7u64;
    for round in 0..3000 {
        let n = 60 + (lcg(&mut seed) % 60) as usize;
        let alpha = 2 + (lcg(&mut seed) % 4);
        let data: Vec<u8> = (0..n).map(|_| b'a' + (lcg(&mut seed) % alpha) as u8).collect();
        for level in [1, 2, 3, 6, 9, 12] {
            let d = libdeflate(&data, level);
            if d.is_empty() {
                continue;
            }
            let dd = d.clone();
            let r = catch_unwind(move || decompress_deflate_stream(&dd, true, 0));
            if r.is_err() {
                panics.push((round, level, data.clone()));
            }
        }
        if panics.len() > 3 {
            break;
        }
    }
    for (round, level, data) in &panics {
        println!("PANIC round={} level={} len={} data={:?}", round, level, data.len(), String::from_utf8_lossy(data));
    }
    assert!(panics.is_empty(), "{} inputs made decompress_deflate_stream panic", panics.len());
}

/// D1: a valid stream that codes length 258 as symbol 284 + five extra one-bits (zlib's inflate accepts it).
/// On the pinned tree the block writer emitted 31 bits of value 5 and dropped the distance, so the stream was
/// accepted with verify=false and reconstructed differently.
#[test]
fn d1_non_canonical_258() {
    let d: Vec<u8> = vec![75, 28, 249, 0, 0];
    for verify in [false, true] {
        match decompress_deflate_stream(&d, verify, 0) {
            Ok(res) => {
                assert_eq!(res.plain_text.len(), 259);
                let back = recompress_deflate_stream(&res.plain_text, &res.prediction_corrections).unwrap();
                assert_eq!(&back[..], &d[..res.compressed_size], "accepted (verify={}) but reconstructed differently", verify);
            }
            Err(e) => {
                // rejecting is allowed by C02, but this stream is representable: the parser captured irregular258
                panic!("rejected with verify={}: {:?}", verify, e);
            }
        }
    }
}

fn png_chunk(kind: &[u8; 4], data: &[u8]) -> Vec<u8> {
    let mut v = Vec::new();
    v.extend_from_slice(&(data.len() as u32).to_be_bytes());
    v.extend_from_slice(kind);
    v.extend_from_slice(data);
    // CRC-32 (IEEE) over type + data, bitwise
    let mut crc = 0xFFFF_FFFFu32;
    for &b in kind.iter().chain(data.iter()) {
        crc ^= b as u32;
        for _ in 0..8 {
            crc = if crc & 1 != 0 { (crc >> 1) ^ 0xEDB8_8320 } else { crc >> 1 };
        }
    }
    v.extend_from_slice(&(!crc).to_be_bytes());
    v
}

fn roundtrip_container(f: &[u8]) {
    let ff = f.to_vec();
    let r = catch_unwind(move || preflate_rs::expand_zlib_chunks(&ff, 0));
    assert!(r.is_ok(), "expand_zlib_chunks panicked");
    let expanded = r.unwrap().expect("expand_zlib_chunks must return Ok for every file");
    let mut out = Vec::new();
    preflate_rs::recreated_zlib_chunks(&mut std::io::Cursor::new(expanded), &mut out).expect("recreate");
    assert_eq!(&out[..], f);
}

/// D5a: fewer than 8 bytes after the last IDAT chunk (chunk header read with only `pos < len` checked).
#[test]
fn d5_idat_followed_by_short_tail() {
    let mut f = vec![0x89, b'P', b'N', b'G'];
    f.extend(png_chunk(b"IDAT", &[0x78, 0x9c, 1, 2, 3, 4, 5, 6, 7, 8]));
    f.extend_from_slice(&[1, 2, 3, 4, 5]);
    roundtrip_container(&f);
}

/// D5b: an IDAT payload of 3..5 bytes (`deflate_stream.len() - 4` with only `len >= 3` checked).
#[test]
fn d5_idat_payload_of_3_to_5_bytes() {
    for n in 3..6usize {
        let mut f = vec![0u8; 7];
        f.extend(png_chunk(b"IDAT", &vec![0x78; n]));
        f.extend_from_slice(&[0u8; 16]);
        roundtrip_container(&f);
    }
}

/// D6: a ZIP local file header whose extra field runs past the end of the file (unchecked seek, then slicing).
#[test]
fn d6_zip_extra_field_past_eof() {
    let mut f = vec![9u8, 9, 9];
    f.extend_from_slice(&0x04034b50u32.to_le_bytes());
    f.extend_from_slice(&20u16.to_le_bytes()); // version
    f.extend_from_slice(&0u16.to_le_bytes()); // flags
    f.extend_from_slice(&8u16.to_le_bytes()); // method = deflate
    f.extend_from_slice(&[0u8; 4]); // time, date
    f.extend_from_slice(&[0u8; 12]); // crc, sizes
    f.extend_from_slice(&0u16.to_le_bytes()); // name length
    f.extend_from_slice(&0xFFFFu16.to_le_bytes()); // extra length: far past EOF
    f.extend_from_slice(&[1, 2, 3]);
    roundtrip_container(&f);
}

fn stored_deflate(data: &[u8]) -> Vec<u8> {
    assert!(data.len() < 65536);
    let mut v = vec![0x01u8];
    v.extend_from_slice(&(data.len() as u16).to_le_bytes());
    v.extend_from_slice(&(!(data.len() as u16)).to_le_bytes());
    v.extend_from_slice(data);
    v
}

/// D9 (found by C01/A5, LIN): an IDAT chunk that starts fewer than 4 bytes after the end of an accepted stream.
/// The scanner looks back 4 bytes for the chunk length (real_start = index - 4) without checking that this does
/// not reach back into the stream it has just emitted, and `real_start - prev_index` underflows.
#[test]
fn d9_idat_length_overlapping_previous_stream() {
    // zlib stream: one stored block whose last four data bytes are the big-endian length of the IDAT chunk that follows
    let mut data: Vec<u8> = (0..1100u32).map(|i| (i * 7 + 3) as u8).collect();
    let idat_payload_len: u32 = 1280;
    let n = data.len();
    data[n - 4..].copy_from_slice(&idat_payload_len.to_be_bytes());
    let mut f = vec![0x78u8, 0x01];
    f.extend(stored_deflate(&data));
    // IDAT payload: zlib header + stored block + 4 bytes standing in for the adler32
    let inner: Vec<u8> = (0..(idat_payload_len as usize - 2 - 5 - 4) as u32).map(|i| (i * 13 + 1) as u8).collect();
    let mut payload = vec![0x78u8, 0x01];
    payload.extend(stored_deflate(&inner));
    payload.extend_from_slice(&[1, 2, 3, 4]);
    assert_eq!(payload.len(), idat_payload_len as usize);
    let chunk = png_chunk(b"IDAT", &payload);
    f.extend_from_slice(&chunk[4..]); // the length field is supplied by the tail of the first stream
    f.extend_from_slice(&[0u8; 16]);
    roundtrip_container(&f);
}

/// D10 (found by C01/A1t, terminator discipline): an empty IDAT chunk between two non-empty ones.  The chunk-size list is
/// serialised as varints terminated by 0, so a 0 element ends the list early when it is read back: expand returns Ok,
/// recreate reads the rest of the list as zlib header / lengths and fails or writes different bytes.
#[test]
fn d10_empty_idat_chunk_in_the_middle() {
    let data: Vec<u8> = (0..1500u32).map(|i| (i * 31 + 7) as u8).collect();
    let mut z = vec![0x78u8, 0x01];
    z.extend(stored_deflate(&data));
    // adler32
    let (mut a, mut b) = (1u32, 0u32);
    for &x in &data {
        a = (a + x as u32) % 65521;
        b = (b + a) % 65521;
    }
    z.extend_from_slice(&((b << 16) | a).to_be_bytes());
    for empties in [vec![600usize, 0], vec![0usize, 700], vec![500, 0, 0, 300]] {
        let mut f = vec![0x89, b'P', b'N', b'G', 0x0d, 0x0a, 0x1a, 0x0a];
        f.extend(png_chunk(b"IHDR", &[0, 0, 0, 32, 0, 0, 0, 32, 8, 2, 0, 0, 0]));
        let mut rest = &z[..];
        for &n in &empties {
            let (x, y) = rest.split_at(n);
            f.extend(png_chunk(b"IDAT", x));
            rest = y;
        }
        f.extend(png_chunk(b"IDAT", rest));
        f.extend(png_chunk(b"IEND", &[]));
        roundtrip_container(&f);
    }
}

/// D11 (found by C01/A9, consumed-length discipline): bytes between the last DEFLATE block and the Adler-32 of the zlib
/// stream inside an IDAT run.  The decoder stops after the final block and ignores them, the IDAT arm of the scanner takes the
/// extent of the chunk from the IDAT chunk lengths and never looks at compressed_size: expand Ok, recreate Err.
#[test]
fn d11_bytes_between_last_block_and_adler32() {
    let data: Vec<u8> = (0..1500u32).map(|i| (i * 29 + 11) as u8).collect();
    for junk in [1usize, 3, 40] {
        let mut z = vec![0x78u8, 0x01];
        z.extend(stored_deflate(&data));
        z.extend(std::iter::repeat(0xA5u8).take(junk));
        z.extend_from_slice(&[1, 2, 3, 4]); // stands in for the adler32 (never verified)
        let mut f = vec![0x89, b'P', b'N', b'G', 0x0d, 0x0a, 0x1a, 0x0a];
        f.extend(png_chunk(b"IHDR", &[0, 0, 0, 32, 0, 0, 0, 32, 8, 2, 0, 0, 0]));
        f.extend(png_chunk(b"IDAT", &z));
        f.extend(png_chunk(b"IEND", &[]));
        roundtrip_container(&f);
    }
}

/// LSB-first bit writer for hand-made deflate streams (Huffman codes are written MSB-first through `code`).
struct Bits {
    out: Vec<u8>,
    acc: u32,
    n: u32,
}

impl Bits {
    fn new() -> Self {
        Bits { out: Vec::new(), acc: 0, n: 0 }
    }
    fn put(&mut self, v: u32, w: u32) {
        for i in 0..w {
            self.acc |= ((v >> i) & 1) << self.n;
            self.n += 1;
            if self.n == 8 {
                self.out.push(self.acc as u8);
                self.acc = 0;
                self.n = 0;
            }
        }
    }
    fn code(&mut self, c: u32, w: u32) {
        for i in (0..w).rev() {
            self.put((c >> i) & 1, 1);
        }
    }
    fn finish(mut self) -> Vec<u8> {
        if self.n > 0 {
            self.out.push(self.acc as u8);
        }
        self.out
    }
}

/// D8: a dynamic header whose code-length alphabet uses only small symbols (here 0, 1 and 8; none of the repeat codes
/// 16-18). The predicted code-length tree is then shorter than the positions TREE_CODE_ORDER_TABLE visits, and
/// calc_tc_lengths_without_trailing_zeros indexed it out of range. Listed in the property text of C05.
#[test]
fn d8_code_length_alphabet_without_repeat_codes() {
    let mut b = Bits::new();
    b.put(1, 1); // BFINAL
    b.put(2, 2); // dynamic
    b.put(0, 5); // HLIT: 257 codes
    b.put(1, 5); // HDIST: 2 codes
    b.put(18 - 4, 4); // HCLEN: 18 entries (up to symbol 1 in the order table)
    // code-length alphabet: symbol 0 -> 1 bit, symbols 1 and 8 -> 2 bits; order 16 17 18 0 8 7 9 6 10 5 11 4 12 3 13 2 14 1
    let order = [16, 17, 18, 0, 8, 7, 9, 6, 10, 5, 11, 4, 12, 3, 13, 2, 14, 1];
    for s in order {
        b.put(match s { 0 => 1, 1 | 8 => 2, _ => 0 }, 3);
    }
    // canonical codes of the code-length alphabet: 0 -> "0", 1 -> "10", 8 -> "11"
    let mut cl = |b: &mut Bits, sym: u32| match sym {
        0 => b.code(0, 1),
        1 => b.code(2, 2),
        _ => b.code(3, 2),
    };
    // literal/length codes: 0..=254 and 256 have 8 bits (complete), 255 unused
    for s in 0..257u32 {
        cl(&mut b, if s == 255 { 0 } else { 8 });
    }
    // two distance codes of one bit each
    cl(&mut b, 1);
    cl(&mut b, 1);
    // data: a few literals (symbol s < 255 has code s), then end of block (code 255)
    for &c in b"hello, hello, hello" {
        b.code(c as u32, 8);
    }
    b.code(255, 8);
    let d = b.finish();
    for verify in [true, false] {
        let dd = d.clone();
        let r = catch_unwind(move || decompress_deflate_stream(&dd, verify, 0));
        assert!(r.is_ok(), "decompress_deflate_stream panicked (verify={})", verify);
        if let Ok(Ok(res)) = r {
            assert_eq!(&res.plain_text[..], b"hello, hello, hello");
            let back = recompress_deflate_stream(&res.plain_text, &res.prediction_corrections).unwrap();
            assert_eq!(&back[..], &d[..res.compressed_size]);
        }
    }
}

/// D12: more than 65535 occurrences of one symbol in a dynamic block: the per-block frequency counters are u16 and the
/// overflow-checked `+= 1` panics in builds with overflow checks (the default test / debug profile); release builds wrap.
#[test]
fn d12_more_than_65535_equal_literals_in_one_block() {
    let mut b = Bits::new();
    b.put(1, 1); // BFINAL
    b.put(2, 2); // dynamic
    b.put(0, 5); // HLIT: 257 codes
    b.put(1, 5); // HDIST: 2 codes
    b.put(18 - 4, 4); // HCLEN: 18 entries: 16 17 18 0 8 7 9 6 10 5 11 4 12 3 13 2 14 1
    // code-length alphabet: 18 -> 1 bit, 0 and 1 -> 2 bits
    let order = [16, 17, 18, 0, 8, 7, 9, 6, 10, 5, 11, 4, 12, 3, 13, 2, 14, 1];
    for s in order {
        b.put(match s { 18 => 1, 0 | 1 => 2, _ => 0 }, 3);
    }
    // canonical codes: 18 -> "0", 0 -> "10", 1 -> "11"
    fn zeros(b: &mut Bits, mut n: u32) {
        while n >= 11 {
            let k = n.min(138);
            b.code(0, 1);
            b.put(k - 11, 7);
            n -= k;
        }
        for _ in 0..n {
            b.code(2, 2);
        }
    }
    zeros(&mut b, 97); // symbols 0..=96 unused
    b.code(3, 2); // 'a' (97): length 1
    zeros(&mut b, 158); // 98..=255 unused
    b.code(3, 2); // end of block (256): length 1
    b.code(3, 2); // two distance codes of one bit
    b.code(3, 2);
    let n = 70000usize;
    for _ in 0..n {
        b.code(0, 1); // 'a'
    }
    b.code(1, 1); // end of block
    let d = b.finish();
    for verify in [true, false] {
        let dd = d.clone();
        let r = catch_unwind(move || decompress_deflate_stream(&dd, verify, 0));
        assert!(r.is_ok(), "decompress_deflate_stream panicked (verify={})", verify);
        if let Ok(Ok(res)) = r {
            assert_eq!(res.plain_text.len(), n);
            let back = recompress_deflate_stream(&res.plain_text, &res.prediction_corrections).unwrap();
            assert_eq!(&back[..], &d[..res.compressed_size]);
        }
    }
}
