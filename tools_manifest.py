#!/usr/bin/env python3
"""Regenerates MANIFEST.json from the table below (kept in one place so it stays valid)."""
import json, os
HERE = os.path.dirname(os.path.abspath(__file__))

CHECKS = {
    # id: (category, technique, level text, level note, design ref)
}
NA = {}

def load():
    from manifest_table import CHECKS, NA  # noqa
    return CHECKS, NA

if __name__ == "__main__":
    import sys
    sys.path.insert(0, HERE)
    CHECKS, NA = load()
    checks = []
    for pid in sorted(CHECKS):
        c = CHECKS[pid]
        checks.append({
            "property_id": pid,
            "quick_cmd": "bin/pfcheck %s --tier quick" % pid,
            "thorough_cmd": "bin/pfcheck %s --tier thorough" % pid,
            "evidence_file": "/verif/evidence/%s.json" % pid,
            "replay_cmd_template": "bin/pfcheck %s --explain {path}" % pid,
            "engine": "pfa",
            "level_claimed": {"category": c["category"], "text": c["text"], "design_ref": c["design_ref"]},
            "level_note": c["note"],
            "technique": c["technique"],
        })
    m = {
        "version": 1,
        "setup_cmd": "cd /verif/extractor && CARGO_NET_OFFLINE=true cargo +nightly build --release --offline",
        "hooks": {
            "guard": "preflate_rs_verif",
            "enable": "none needed: the checks read MIR/type facts of the unmodified sources (guard name reserved, unused)",
            "baseline_off_cmd": "cd /repo && cargo test --workspace --no-fail-fast --offline",
            "source_commits": [],
            "add_only": True,
        },
        "engines": [
            {"name": "pfx", "path": "extractor/", "serves_properties": sorted(CHECKS),
             "kind_free_text": "rustc_private driver: dumps MIR (opt-level 0), evaluated constants, ADTs, unsafe sites and the instantiation-aware call graph of /repo's working tree as JSON"},
            {"name": "pfa", "path": "pfa/", "serves_properties": sorted(CHECKS),
             "kind_free_text": "python rule engine over the facts: dominators, def-use/origin tracing, protocol-automaton inclusion, upper-bound inference, linear guards, reviewed tables with attached obligations"},
        ],
        "checks": checks,
        "not_applicable": [{"property_id": k, "reason": v} for k, v in sorted(NA.items())],
        "notes": "Technique family: static analysis only. Every check re-extracts facts from /repo's current working tree (cached by tree hash). See DESIGN.md.",
    }
    json.dump(m, open(os.path.join(HERE, "MANIFEST.json"), "w"), indent=1)
    print("MANIFEST.json written: %d checks, %d not_applicable" % (len(checks), len(m["not_applicable"])))
