CHECKS = {
 "C14": dict(category="proof", technique="static analysis: monomorphic call-graph reachability against a deny list, static/unsafe/uninit-primitive inventory, type-level compile-fail witnesses",
   text="Sound-for-the-clause static argument: no mutable/interior-mutable static, no nondeterminism source, no uninitialised-memory primitive outside reviewed rows, no pointer-to-integer cast and no thread/lock primitive is reachable from the public API in the instantiation-aware call graph; unsafe is confined to the FFI shims and derive expansions. A safe-Rust function with these premises is a pure function of its arguments, for every schedule and process.",
   note="Trusted: rustc's type system and MIR, std/core/alloc, the C part of zstd, names of MIR-less std leaves. Facts come from nightly rustc 1.97 at opt-level 0.",
   design_ref="DESIGN.md §4 C14"),
 "C12": dict(category="proof", technique="static analysis: dominator and value-flow (provenance) rules on the MIR of the extern \"C\" shims and their catch_unwind closures",
   text="Sound for the stated clauses under Rust slice semantics: the whole body is under catch_unwind (no assertion or call outside it), status 0 only on Ok(Ok) and other statuses negative, caller pointers reach only slice::from_raw_parts(_mut) paired with their own length plus the single *result_size store, the mutable slice over the caller's buffer flows only into bounds-checked writers, the store dominates every Ok and its value is the writer's own count, no Result is discarded, the intermediate capacity constant is >= 128 MiB, exact C signature. The round-trip clause is not decided here (reduces to C01).",
   note="Trusted: Rust slice semantics, zstd-safe honouring dst.len(), Cursor<&mut [u8]> never advancing past its slice, catch_unwind catching unwinding panics, drop of the panic payload not panicking.",
   design_ref="DESIGN.md §4 C12"),
 "C11": dict(category="other", technique="static analysis: value-flow (argument origin) and error-propagation classification on the MIR of compress_zstd/decompress_zstd",
   text="Decides the wrapper's own obligations: `capacity` and the caller's bytes reach zstd's bounded decompress unchanged, every Result is consumed by `?`, Ok is returned only behind the success edge of the full reconstruction and carries the vector reconstruction wrote to; symmetric flow facts for compress_zstd. A necessary condition of the property for every input and capacity; zstd's own behaviour is trusted and the round trip is C01's.",
   note="Trusted: zstd::bulk::decompress errs when the output exceeds capacity or the input is not a frame.",
   design_ref="DESIGN.md §4 C11"),
 "C13": dict(category="other", technique="static analysis: who-may-call table over the generic I/O functions, error-propagation classification, must-pass-through (dominator) ordering rule",
   text="For every fragmentation and every error point at once: the only count-returning I/O call on the caller's objects is the one-byte EOF probe compared with 0, all other transfers are read_exact/read_u8/write_all, no Result on the path is unwrapped, dropped or defaulted and no explicit panic construct exists there, and within a chunk the destination is touched only behind the success edge of that chunk's reconstruction. Necessary conditions; that the bytes themselves are right is C01/C02.",
   note="Trusted: std's read_exact/write_all contracts. Scope = generic functions reachable from recreated_zlib_chunks that take the Read/Write parameters (cross-checked against the mono graph).",
   design_ref="DESIGN.md §4 C13"),
 "C02": dict(category="other", technique="static analysis: value-refined protocol-automaton inclusion (writer Ok-paths vs reader) computed by abstract interpretation of the MIR, plus information-flow rules",
   text="Decides for all streams at once that every correction-stream operation sequence the analyser can emit on an Ok path is accepted by the reconstructor (contexts, widths, order, constant flags bound to the reader's branches, EOF signalling), that the result is not written under `verify`, and that the input reaches the result only through parse_deflate (suffix independence). Necessary conditions of bit-exactness; the value-level evolution of the shared predictor is not decided.",
   note="Trusted: the abstract interpreter over-approximates writer paths (Ok/Err and constant propagation only); codec trait methods are the only access to the stream.",
   design_ref="DESIGN.md §4 C02"),
 "C08": dict(category="other", technique="static analysis: protocol inclusion on the parameter header with value refinement, code-point exhaustiveness, field-correspondence and single-source flow rules, upper-bound inference for width fit",
   text="For every parameter vector: the header writer's field sequence is accepted by the reader with conditional fields tied to their code points, every enum code point is mapped, each written field lands in the same field when read, and analysis/reconstruction use exactly the serialised/deserialised value. Necessary for `parameters read back equal the ones written`; that prediction under arbitrary parameters stays decodable is not decided.",
   note="Trusted: decode_value(n) inverts encode_value(v,n) for v < 2^n (C10).",
   design_ref="DESIGN.md §4 C08"),
 "C10": dict(category="other", technique="static analysis: sibling-agreement rules on canonical origin descriptors of call arguments, dominator (must-pass-through) rules for the default-run flush",
   text="Encoder and decoder halves of the correction codec use the same context arrays, indexed by the same enum argument, with paired CABAC primitives in the same order and with the same count operands; every encode flushes a pending default run first, finish flushes before closing, decoders refill before reading. Thin but necessary conditions of losslessness for every operation sequence; the exponent/mantissa arithmetic and the arithmetic coder's adaptive state are not decided.",
   note="Trusted: the cabac crate's primitive pairs are inverse given equal contexts and counts.",
   design_ref="DESIGN.md §4 C10"),
}
_PENDING = "static rule set designed in DESIGN.md §4 but not implemented yet in this round; not claimed until its check runs"
NA = {
 "C09": "aggregate modelling quality relative to another build over an input distribution; no clause of it is visible in the shape of the code (every candidate structural rule would also fire on edits that improve modelling) — declined for static analysis, see DESIGN.md §4 C09",
}
for _p in ["C01","C03","C04","C05","C06","C07"]:
    NA[_p] = _PENDING
