CHECKS = {
 "C14": dict(category="proof", technique="static analysis: monomorphic call-graph reachability against a deny list, static/unsafe/uninit-primitive inventory, type-level compile-fail witnesses",
   text="Sound-for-the-clause static argument: no mutable/interior-mutable static, no nondeterminism source, no uninitialised-memory primitive outside reviewed rows, no pointer-to-integer cast and no thread/lock primitive is reachable from the public API in the instantiation-aware call graph; unsafe is confined to the FFI shims and derive expansions. A safe-Rust function with these premises is a pure function of its arguments, for every schedule and process.",
   note="Trusted: rustc's type system and MIR, std/core/alloc, the C part of zstd, names of MIR-less std leaves. Facts come from nightly rustc 1.97 at opt-level 0.",
   design_ref="DESIGN.md §4 C14"),
}
_PENDING = "static rule set designed in DESIGN.md §4 but not implemented yet in this round; not claimed until its check runs"
NA = {
 "C09": "aggregate modelling quality relative to another build over an input distribution; no clause of it is visible in the shape of the code (every candidate structural rule would also fire on edits that improve modelling) — declined for static analysis, see DESIGN.md §4 C09",
}
for _p in ["C01","C02","C03","C04","C05","C06","C07","C08","C10","C11","C12","C13"]:
    NA[_p] = _PENDING
