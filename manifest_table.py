CHECKS = {
 "C14": dict(category="proof", technique="static analysis: monomorphic call-graph reachability against a deny list, static/unsafe/uninit-primitive inventory, type-level compile-fail witnesses",
   text="Sound-for-the-clause static argument: no mutable/interior-mutable static, no nondeterminism source, no uninitialised-memory primitive outside reviewed rows, no pointer-to-integer cast and no thread/lock primitive is reachable from the public API in the instantiation-aware call graph; unsafe is confined to the FFI shims and derive expansions. A safe-Rust function with these premises is a pure function of its arguments, for every schedule and process.",
   note="Trusted: rustc's type system and MIR, std/core/alloc, the C part of zstd, names of MIR-less std leaves. Facts come from nightly rustc 1.97 at opt-level 0.",
   design_ref="DESIGN.md §4 C14"),
 "C12": dict(category="proof", technique="static analysis: dominator and value-flow (provenance) rules on the MIR of the extern \"C\" shims and their catch_unwind closures",
   text="Sound for the stated clauses under Rust slice semantics: the whole body is under catch_unwind (no assertion or call outside it), status 0 only on Ok(Ok) and other statuses negative, caller pointers reach only slice::from_raw_parts(_mut) paired with their own length plus the single *result_size store, the mutable slice over the caller's buffer flows only into bounds-checked writers, the store dominates every Ok and its value is the writer's own count, no Result is discarded, the intermediate capacity constant is >= 128 MiB, exact C signature. The round-trip clause is not decided here (reduces to C01).",
   note="Trusted: Rust slice semantics, zstd-safe honouring dst.len(), Cursor<&mut [u8]> never advancing past its slice, catch_unwind catching unwinding panics, drop of the panic payload not panicking.",
   design_ref="DESIGN.md §4 C12"),
 "C11": dict(category="other", technique="static analysis: value-flow (argument origin) and error-propagation classification on the MIR of compress_zstd/decompress_zstd",
   text="Decides the wrapper's own obligations: `capacity` and the caller's bytes reach zstd's bounded decompress unchanged, every Result is consumed by `?`, Ok is returned only behind the success edge of the full reconstruction and carries the vector reconstruction wrote to; symmetric flow facts for compress_zstd. A necessary condition of the property for every input and capacity; zstd's own behaviour is trusted and the round trip is C01's.",
   note="Trusted: zstd::bulk::decompress errs when the output exceeds capacity or the input is not a frame.",
   design_ref="DESIGN.md §4 C11"),
 "C13": dict(category="other", technique="static analysis: who-may-call table over the generic I/O functions, error-propagation classification, must-pass-through (dominator) ordering rule",
   text="For every fragmentation and every error point at once: the only count-returning I/O call on the caller's objects is the one-byte EOF probe compared with 0, all other transfers are read_exact/read_u8/write_all, no Result on the path is unwrapped, dropped or defaulted and no explicit panic construct exists there, and within a chunk the destination is touched only behind the success edge of that chunk's reconstruction. Necessary conditions; that the bytes themselves are right is C01/C02.",
   note="Trusted: std's read_exact/write_all contracts. Scope = generic functions reachable from recreated_zlib_chunks that take the Read/Write parameters (cross-checked against the mono graph).",
   design_ref="DESIGN.md §4 C13"),
 "C02": dict(category="other", technique="static analysis: value-refined protocol-automaton inclusion (writer Ok-paths vs reader) computed by abstract interpretation of the MIR, plus information-flow rules",
   text="Decides for all streams at once that every correction-stream operation sequence the analyser can emit on an Ok path is accepted by the reconstructor (contexts, widths, order, constant flags bound to the reader's branches, EOF signalling), that the result is not written under `verify`, and that the input reaches the result only through parse_deflate (suffix independence). Necessary conditions of bit-exactness; the value-level evolution of the shared predictor is not decided.",
   note="Trusted: the abstract interpreter over-approximates writer paths (Ok/Err and constant propagation only); codec trait methods are the only access to the stream.",
   design_ref="DESIGN.md §4 C02"),
 "C08": dict(category="other", technique="static analysis: protocol inclusion on the parameter header with value refinement, code-point exhaustiveness, field-correspondence and single-source flow rules, upper-bound inference for width fit",
   text="For every parameter vector: the header writer's field sequence is accepted by the reader with conditional fields tied to their code points, every enum code point is mapped, each written field lands in the same field when read, and analysis/reconstruction use exactly the serialised/deserialised value. Necessary for `parameters read back equal the ones written`; that prediction under arbitrary parameters stays decodable is not decided.",
   note="Trusted: decode_value(n) inverts encode_value(v,n) for v < 2^n (C10).",
   design_ref="DESIGN.md §4 C08"),
 "C10": dict(category="other", technique="static analysis: sibling-agreement rules on canonical origin descriptors of call arguments, dominator (must-pass-through) rules for the default-run flush",
   text="Encoder and decoder halves of the correction codec use the same context arrays, indexed by the same enum argument, with paired CABAC primitives in the same order and with the same count operands; every encode flushes a pending default run first, finish flushes before closing, decoders refill before reading. Thin but necessary conditions of losslessness for every operation sequence; the exponent/mantissa arithmetic and the arithmetic coder's adaptive state are not decided.",
   note="Trusted: the cabac crate's primitive pairs are inverse given equal contexts and counts.",
   design_ref="DESIGN.md §4 C10"),
 "C01": dict(category="other", technique="static analysis: value-refined protocol inclusion between chunk writer and reader, constant agreement, constant-argument flow rule, affine cursor invariant, linear-guard bounds on the untrusted slice, reviewed failure-site table",
   text="Decides necessary structural conditions of recreate(expand(F)) = F for every F: the container writer's byte/varint/tag sequence is accepted by the reader (tags and version bound to the reader's arms), tags are distinct, varint halves agree, every scanner probe is verified (verify=true), plus the scanner/IDAT rules listed in DESIGN.md as they are implemented. Whether an accepted stream reconstructs is a run-time comparison the scanner performs itself; it is relied on, not re-proved.",
   note="Trusted: std::io contracts; the run-time verify=true comparison. Defects of the property that are value relations between two modules (bytes between last block and Adler-32, zero-length IDAT chunk) are outside this family and documented as such.",
   design_ref="DESIGN.md §4 C01"),
 "C05": dict(category="other", technique="static analysis: enumeration of explicit failure constructs over the monomorphic call graph against a reviewed table with re-verified structural obligations; dominator (guard) rules; upper-bound inference; relational argument proof",
   text="For every input at once, but only for explicit failure constructs: each unwrap/expect/assert!/panic!/unreachable!/unimplemented! in crate code reachable from decompress_deflate_stream must be justified by a reviewed row whose structural obligation is re-checked on every run (in-memory I/O instantiation, constant-dead branch, argument never the panicking variant, dominating guard, upper bound, X < Y argument proof); the validations named by the property must fail into Err and dominate what they protect; narrowing conversions are bounded. Implicit panics (index, slice, overflow) and termination are declared undecided.",
   note="Trusted: rows of class `invariant` (value-level invariants, listed in evidence); dependency crates are not searched.",
   design_ref="DESIGN.md §4 C05, Appendix A"),
 "C03": dict(category="other", technique="static analysis: evaluated-constant comparison with an RFC 1951 specification file, canonical def-use descriptors of the decoder's composition, interval-partition summary of the fixed-Huffman map, who-may-touch rule on the bit reader",
   text="Checks the decoder against the specification rather than against its own writer: length/distance base and extra-bit tables, code-length order, alphabet sizes, fixed-Huffman length map, block-type map, header field widths/offsets and repeat-code adjustments equal RFC 1951; decode_block composes them as specified with one and the same code index; compressed_size is the byte cursor after the final padding and the bit reader never reads ahead. Catches errors made symmetrically in reader and writer that no round-trip test can see. Canonical-code construction, tree walk and window copy are value-level and not decided.",
   note="Trusted: spec/rfc1951.json typed in from the RFC; calculate_huffman_code_tree/decode_symbol.",
   design_ref="DESIGN.md §4 C03"),
 "C07": dict(category="other", technique="static analysis: exact interval-partition summaries of the quantize functions against the RFC tables, must-pass-through (dominator/reachability) rules on the block writer, constant-pair width rule, bit-level protocol inclusion for the dynamic header, capture-implies-replay field rule",
   text="Covers the whole token alphabet and every path of the serialiser at once: for all 256 lengths and 32768 distances the chosen code's [base, base+2^extra) interval contains the value (258 -> code 28); every path through a reference writes a length symbol then a distance symbol with extra bits from the same code; the non-canonical 258 arm encodes exactly 258; constant writes fit their width; block-type codes and the final flag invert the reader; the dynamic-header writer's bit sequence is accepted by the reader; every field the parser captures is replayed. Agreement of calc_huffman_codes with the decoder's tree construction is value-level and not decided.",
   note="Trusted: LSB-first packing symmetry of BitWriter/BitReader; canonical code assignment.",
   design_ref="DESIGN.md §4 C07"),
 "C06": dict(category="other", technique="static analysis: evaluated-constant and def-use-descriptor comparison of the recogniser with wrapper specification files, handler exhaustiveness, dominator rule for the acceptance threshold, affine dataflow for the cursor step",
   text="Decides recogniser conformance for all files at once: the two-byte signature table covers the four zlib headers, PK, 1F 8B and IDAT and maps them to handlers that can accept; the accept predicate in every arm is implied by `more than 1024 bytes` with no additional condition; zlib payload at +2, gzip CM/flag masks/field kinds in RFC 1952 order, zip local-header field widths/order/method/name+extra skipping, PNG length/type/data/CRC offsets and stride follow the specifications; a failed probe advances exactly one byte. Each is a necessary condition of finding the embedded stream. Overlapping look-alikes and acceptance of the stream itself are not decided.",
   note="Trusted: spec/wrappers.json typed in from RFC 1950/1952, APPNOTE 4.3.7, PNG.",
   design_ref="DESIGN.md §4 C06"),
 "C04": dict(category="other", technique="static analysis: format-surface extraction (canonical minimal DFAs of the stored grammars, evaluated constants, enum discriminants, canonical closed forms of pure leaf functions) compared with a frozen reference, gated by the version constants; dominator rules for the version gates",
   text="A cross-build property reduced to what one tree can be held to: both version gates are live, and everything that determines how stored bytes are interpreted and that is visible without loop invariants — the three stored grammars as canonical minimal DFAs over discriminant/width/constant labels, enum discriminants, CABAC geometry, every named constant/table referenced by reconstruction-reachable code, canonical closed forms of its 37 pure loop-free leaf functions (hash functions, tie-breaks, difference coding, position arithmetic) — equals the frozen surface of the pinned release + recorded fixes unless a version constant changed. Detects symmetric changes that every same-build test passes. Literals inside looping prediction code (run-length thresholds, lazy-match rule, chain walk, default block size) are outside the surface and NOT detected.",
   note="Trusted: reference/format_surface.json frozen from the pinned tree + the four recorded fix: commits; never rewritten by a check (tools/freeze_surface.py is run by hand with a version bump).",
   design_ref="DESIGN.md §4 C04"),
}
_PENDING = "static rule set designed in DESIGN.md §4 but not implemented yet in this round; not claimed until its check runs"
NA = {
 "C09": "aggregate modelling quality relative to another build over an input distribution; no clause of it is visible in the shape of the code (every candidate structural rule would also fire on edits that improve modelling) — declined for static analysis, see DESIGN.md §4 C09",
}
for _p in []:
    NA[_p] = _PENDING

# ---- additions made during the build (seed waves 1-3); appended to the level text / technique of the property ---------
EXTRA_TEXT = {
 "C01": " Added during the build: terminator discipline (items of a 0-terminated list are proved non-zero through guards on every push into the field they come from — this rule found the empty-IDAT-chunk defect, since repaired), joint advance of the IDAT accumulators on every non-error loop exit, and linear-guard bounds also for recreate_idat.",
 "C02": " Added during the build: the same inclusion with every mutation of the shared predictor state as an event (analysis and reconstruction drive the predictor identically), hop-count sibling agreement (calculate_hops vs hop_match), and the writer-side rules of C07 (bit-write width bound, padding replay, code tables from the block's own header).",
 "C03": " Added during the build: literal/distance code lengths decoded as one run-length sequence split at HLIT; both padding reads request exactly the buffered bit count (exact finite evaluation over bit_count 0..7).",
 "C04": " Added during the build: looping and other non-leaf functions are represented by value-keyed signatures (multiset of decision thresholds; multiset of value-op-constant computations, canonicalised, with counter updates, assertion-only and logging-only values excluded); named constants are compared by value, so renames are silent; functions decided exactly by another rule are excluded.",
 "C05": " Added during the build: the u16 position narrowing is tied to a relational obligation on the re-base limit and batch bound of both hash-chain implementations; every tree handed to decode_symbol / stored in a HuffmanReader is the Ok payload of the validating constructor.",
 "C06": " Added during the build: the container carries the plaintext on every result-producing path of the DeflateStream/IDAT arms; gzip optional fields via per-flag region automata; zip payload handed to the decoder to the end of input; IDAT payload is the concatenation of whole chunks with header/Adler split off the concatenation.",
 "C07": " Added during the build: width <= 25 for every bit write by upper-bound inference; exact decision of BitWriter::pad for its loop and masked-write shapes; tokens are written with codes derived in the same call from the block's own header through the shared header expansion.",
 "C08": " Added during the build: predictor-state protocol (P6) and hop-count sibling agreement (P7).",
 "C10": " Added during the build: every compiler-inserted bounds check in the codec modules is discharged by upper-bound inference; value arithmetic of the exp and fixed-width primitive pairs on name-free descriptors; values pass the context layer unmodified.",
 "C11": " Added during the build: every explicit failure construct mono-reachable from the two wrappers, error conversions included, must be a row of the reviewed table.",
 "C12": " Added during the build: nothing between the wrapper and the cursor on the caller's buffer may defer writes behind an adaptor whose Drop discards the flush error, and every write to it is a write_all (C13's rules over the functions that receive the cursor).",
 "C13": " Added during the build: a count-returning read must bound every later use of its buffer by the count; a BufWriter/LineWriter holding the destination must be flushed with `?` dominating every non-error result.",
 "C14": " Added during the build: LazyLock<T> statics with plain-data payload and capture-free initialiser are accepted as lazily initialised constants (initialiser scanned like any reachable function).",
}
NOTE_FIX = {
 "C01": "Trusted: std::io contracts; the run-time verify=true comparison.",
 "C04": "Trusted: reference/format_surface.json frozen from the pinned tree + the recorded fix: commits (known_findings.json); never rewritten by a check (tools/freeze_surface.py is run by hand). Shape-sensitive signatures are marked as such in DESIGN.md §8: an algebraic rewrite of non-leaf reconstruction code that preserves behaviour can still be reported.",
}
for _k, _v in EXTRA_TEXT.items():
    CHECKS[_k]["text"] += _v
    CHECKS[_k]["design_ref"] += ", §8"
EXTRA_TEXT2 = {
 "C01": " Later waves: the consumed length of an IDAT run is accepted only when the decoder consumed the whole payload (this rule found the bytes-before-Adler defect, since repaired); success of the facade only through decode_mispredictions; a reader function constructs at most one error of its own.",
 "C02": " Later waves: hop counting in both directions agrees on iteration, window stop, the compared positions, what counts as a hop and the enough-input test, with no further data-dependent decision in the counting loop; predictor resets agree between analysis and reconstruction; no constant clamp of a decoded correction unless its inferred upper bound already fits.",
 "C03": " Later waves: trees come from the current block's header and DeflateReader keeps no Huffman state across blocks; back-references copy from position len-dist in push or extend_from_within form; the symbol decoder reads one bit at a time behind `?`; the code-tree builder has a single result site and the validity predicate's decisions are enumerated; compressed_size is the unadjusted reader position.",
 "C04": " Later waves: predictor-core skeleton (comparison kinds by operand type, slice kinds, element accesses, constant resets of own fields split into unconditional and conditional), grammars labelled by discriminant and by variant name (either agreeing is accepted, so an enum reorder is silent).",
 "C05": " Later waves: no growth in the number of undischarged index/slice/unsigned-subtraction sites on the analysis path (totals per kind against a frozen list of the pre-existing ones, with discharges by linear guards, upper-bound inference over constant tables, (1<<x)-1 and K-x forms); the reader-side bound table is exact (27 reviewed rows, no slack).",
 "C06": " Later waves: the decisions of parse_idat are an enumerated closed set (CRC over type and data compared with the stored big-endian word); recorded chunk boundaries are written back unchanged.",
 "C07": " Later waves: the padding count equals the buffered bit count (shared with C03); only the block writer and the final flush pad; the writer's code construction is the same single canonical construction the reader uses.",
 "C08": " Later waves: the reader admits the full range the writer can emit for every serialized parameter (upper bounds by inference against the reader's rejection thresholds); reset agreement of the two predictor drivers.",
 "C10": " Later waves: values pass the statistics/context layers unmodified; failure constructs in the codec are a reviewed set; the probability accumulation advances by the small step only.",
 "C11": " Later waves: the exact format version is read and compared before any Ok; decompress_zstd constructs no error of its own besides the reviewed conversions.",
 "C13": " Later waves: reader/writer adaptors wrapped around the caller's stream are enumerated and must forward counts unchanged.",
}
for _k, _v in EXTRA_TEXT2.items():
    CHECKS[_k]["text"] += _v
EXTRA_TEXT3 = {
 "C02": " Wave 7: the last-block flag handed to predict_block is exactly 'final element of the block list'; every block-histogram index is a function of the token alone; the reconstruction path constructs no more error results than the reference tree.",
 "C03": " Wave 7: the deflate reader takes bytes from its source through all-or-error reads only.",
 "C04": " Wave 7: multiset of integer constants used as plain values (assigned, stored, passed) on the reconstruction path; number of error results the reconstruction path constructs.",
 "C05": " Wave 7: a container indexed by an element of a constant table provably covers the table's range (this rule found the code-length-order-table defect of the property text, since repaired); every natural loop on the analysis path has a recognised progress argument (finite standard iterator, fallible input consumption examined in the loop, monotone counter tested by an exit, or a reviewed row with an exact count) - a shape clause of 'no hang', not a time bound.",
 "C06": " Wave 7: the decisions of parse_zip_stream are an enumerated closed set.",
 "C07": " Wave 7: the token record stores length, distance and flag losslessly and its accessors return the fields unmasked; all-or-error reads in the reader.",
 "C08": " Wave 7: last-block flag and no-new-rejection rules shared with C02.",
 "C12": " Wave 7: the wrapper bodies construct no error of their own.",
}
for _k, _v in EXTRA_TEXT3.items():
    CHECKS[_k]["text"] += _v
EXTRA_TEXT4 = {
 "C02": " Wave 8: parse_deflate looks at its input through the reader only and leaves its block loop only on the final block (shared with C03).",
 "C03": " Wave 8: parse_deflate uses the input slice for nothing but Cursor::new, leaves the block loop (other than by an error) only because the block read was final, and constructs no error of its own.",
 "C04": " Wave 8: decisions taken directly on a boolean field are counted per field. Robustness: new private helpers are spliced into their callers before any rule runs; comparisons are counted as values (closures included); index/loop-bound mechanics, capacity hints and assertion machinery are not part of the signatures.",
 "C05": " Wave 8: every overflow-checked + or * on an 8/16-bit value on the analysis path is bounded by inference or reviewed (this rule found the frequency-counter overflow, since repaired); partial std operations (division, remainder, ilog*) need a non-zero constant or a linear proof. A new assertion whose condition follows from the guards in force needs no review.",
 "C06": " Wave 8: skip_gzip_header (helpers spliced in) constructs one error, the method-byte test.",
}
for _k, _v in EXTRA_TEXT4.items():
    CHECKS[_k]["text"] += _v
EXTRA_TEXT5 = {
 "C01": " Wave 9: partial operations (division, remainder, ilog*, byte-offset text operations) under expand/recreate need a non-zero constant or a linear proof.",
 "C02": " Wave 9: the rebuilt header's HLIT/HDIST are the lengths read after the stored count correction; a tree-code item is built only under the symbol test that names it.",
 "C03": " Wave 9: every TreeCodeType value built by the header reader lies on the edge of the symbol test that names it.",
 "C06": " Wave 9: the scanner is handed the caller's whole input, once, outside any loop.",
 "C07": " Wave 9: BitWriter.bits_in < 8 between calls is proved as a representation invariant (who may store the field over all bodies, the drain routine's only exit, every other writer drains before returning); the header reader records exactly the symbol it read.",
 "C11": " Wave 9: besides the bounded decode and the reconstruction no fallible step of decompress_zstd may be fed from the capacity or the bytes; partial operations under both entries need a proof.",
 "C13": " Wave 9: partial operations (incl. byte-offset text operations in the error path) under the reconstruction entry need a proof.",
}
for _k, _v in EXTRA_TEXT5.items():
    CHECKS[_k]["text"] += _v
EXTRA_TEXT6 = {
 "C02": " Wave 10: the conditional edges that lead only to an error result on the reconstruction path are counted against the reference as well (a guard in front of an existing Err arm).",
 "C03": " Wave 10: each fetch function of the Huffman reader is exactly one decode_symbol call on the block's tree with no decision of its own.",
 "C04": " Wave 10: surface item rejection_edges (refusing decisions on the reconstruction path).",
 "C05": " Wave 10: the upper-bound engine treats a field stored from +, * or << on its own value as an accumulator bounded by its type only, so narrowed counters reach the narrow-arithmetic rule.",
 "C06": " Wave 10: on the accepting path only outcomes of the probes, of the header skipper and of ? and compiler-made drop flags are exempt; any other helper outcome is an extra accept condition.",
 "C07": " Wave 10: refusing decisions of the writer path counted with the error constructions.",
 "C08": " Wave 10: an Option parameter of a shared predictor method that the reconstruction can only fill with None has no use outside log output; refusing decisions on the reconstruction path counted against the reference.",
 "C10": " Wave 10: overflow-checked accumulations in the codec need 2^16 operations before they can fire, counting the accumulator's own width.",
}
for _k, _v in EXTRA_TEXT6.items():
    CHECKS[_k]["text"] += _v
for _k, _v in NOTE_FIX.items():
    CHECKS[_k]["note"] = _v
