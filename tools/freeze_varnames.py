#!/usr/bin/env python3
"""Freeze reference/varnames.json: the user-variable names of the reference tree per function (see Facts._canonical_variable_names).
Run by hand after a recorded fix changes the variables of a function the rules look into."""
import json, os, sys
sys.path.insert(0, os.path.dirname(os.path.dirname(os.path.abspath(__file__))))
os.environ["PFA_NO_VARNAMES"] = "1"
from pfa import extract
from pfa.facts import Facts, variable_signature
d, _ = extract.facts("dev", "/repo")
F = Facts(d)
out = {}
for fn, b in sorted(F.bodies.items()):
    vs = [[l["name"], l.get("ty"), variable_signature(b, i)] for i, l in enumerate(b.locals) if l.get("name")]
    if vs:
        out[fn] = vs
p = os.path.join(os.path.dirname(os.path.dirname(os.path.abspath(__file__))), "reference", "varnames.json")
json.dump(out, open(p, "w"), indent=0)
print("frozen variable names of %d functions" % len(out))
