#!/usr/bin/env python3
"""Builds the sub-agent prompts of a seeding wave (DESIGN 8.5): tools/seed_prompts.py <wave-dir> [Cxx ...]
Creates one scratch worktree of /repo per property under <wave-dir>/Cxx and <wave-dir>/Cxx-out/PROMPT.txt.
The agent sees the property text only; the avoid list names ideas earlier waves already delivered."""
import json, os, subprocess, sys
here = os.path.dirname(os.path.abspath(__file__))
data = json.load(open(os.path.join(here, 'seed_prompt_data.json')))
wave = sys.argv[1].rstrip('/')
only = sys.argv[2:]
os.makedirs(wave, exist_ok=True)
for l in open(os.path.join(here, '..', 'properties.jsonl')):
    d = json.loads(l); p = d['id']
    if p not in data['avoid'] or (only and p not in only):
        continue
    txt = "id: %s\ntitle: %s\nstatement: %s\nquantifier: %s\nwhy tests cannot settle it: %s\nanchors: %s" % (
        d['id'], d['title'], d['statement'], json.dumps(d['quantifier']), d['why_tests_cant'], json.dumps(d['anchors']))
    t = data['template'].replace('/tmp/seed2/', wave + '/').replace('@ID@', p).replace('@PROP@', txt)
    if os.environ.get('SEED_SINGLE', '1') == '1':
        for a, b in data['single_edits']:
            assert a in t
            t = t.replace(a, b)
    avoid = "; ".join(data['avoid'][p])
    t = t.replace("Prefer changes that are subtle:", "Ideas that earlier contributors already used for this property and that are therefore NOT wanted again (find different mechanisms in different places): " + avoid + ".\n\nPrefer changes that are subtle:", 1)
    assert avoid in t
    os.makedirs('%s/%s-out' % (wave, p), exist_ok=True)
    open('%s/%s-out/PROMPT.txt' % (wave, p), 'w').write(t)
    if not os.path.isdir('%s/%s' % (wave, p)):
        subprocess.check_call(['git', '-C', '/repo', 'worktree', 'add', '--detach', '-q', '%s/%s' % (wave, p), 'HEAD'])
    print(p, len(t))
