#!/bin/bash
# Re-freeze every reference file after a fix: commit in /repo.  Order matters: names first (the surface and the bounds are
# computed on canonicalised facts, and a function that is not in fnnames.json yet would be inlined as a "new helper").
cd "$(dirname "$0")/.."
python3 tools/freeze_fnnames.py && python3 tools/freeze_varnames.py && python3 tools/freeze_surface.py && python3 tools/freeze_bounds.py
