#!/usr/bin/env python3
"""Freeze reference/fnnames.json: definition path -> signature of every local function of the reference tree
(see Facts._canonical_function_names).  Run by hand together with freeze_varnames.py."""
import json, os, sys
sys.path.insert(0, os.path.dirname(os.path.dirname(os.path.abspath(__file__))))
os.environ["PFA_NO_VARNAMES"] = "1"
from pfa import extract
from pfa.facts import Facts
d, _ = extract.facts("dev", "/repo")
F = Facts(d)
from pfa.facts import body_fingerprint
out = {k: {"sig": b.j.get("sig"), "argc": b.argc, "fp": body_fingerprint(b.j)} for k, b in sorted(F.bodies.items()) if b.j.get("kind") in ("fn", "assocfn") and "{" not in k}
p = os.path.join(os.path.dirname(os.path.dirname(os.path.abspath(__file__))), "reference", "fnnames.json")
json.dump(out, open(p, "w"), indent=0)
print("frozen %d function signatures" % len(out))
consts = {k: {"ty": v.get("ty"), "v": json.dumps(v.get("v"), sort_keys=True)} for k, v in sorted(F.consts.items())}
p2 = os.path.join(os.path.dirname(p), "constnames.json")
json.dump(consts, open(p2, "w"), indent=0)
print("frozen %d constants" % len(consts))
adtf = {a: [[f["name"], f["ty"]] for f in v["variants"][0]["fields"]] for a, v in sorted(F.adts.items()) if v.get("kind") == "struct" and len(v.get("variants", [])) == 1 and a.startswith("preflate_rs::")}
p3 = os.path.join(os.path.dirname(p), "adtfields.json")
json.dump(adtf, open(p3, "w"), indent=0)
print("frozen fields of %d structs" % len(adtf))
shapes = {a: [[var.get("name"), [[f["name"], f["ty"]] for f in var.get("fields", [])]] for var in v.get("variants", [])] for a, v in sorted(F.adts.items()) if a.startswith("preflate_rs::")}
p4 = os.path.join(os.path.dirname(p), "adtshapes.json")
json.dump(shapes, open(p4, "w"), indent=0)
print("frozen shapes of %d types" % len(shapes))
