#!/usr/bin/env python3
"""Freeze the C04 reference format surface from /repo's current tree (pinned release + recorded fix: commits).
Run by hand when — and only when — a format change is announced by a version bump; never run by a check."""
import json, os, sys
HERE = os.path.dirname(os.path.dirname(os.path.abspath(__file__)))
sys.path.insert(0, HERE)
from pfa import extract, facts
from pfa.rules import c04
d, meta = extract.facts("dev")
F = facts.Facts(d)
S = c04.compute_surface(F)
S["_frozen_from"] = {"tree_hash": meta["tree_hash"], "note": "pinned release 0.6.0 + fix: commits 72af493 2190ea3 91334f1 a2c322b"}
json.dump(S, open(c04.REF, "w"), indent=1, sort_keys=True)
print("frozen %d container + %d stream items" % (len(S["container"]), len(S["stream"])))
