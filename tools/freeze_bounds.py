#!/usr/bin/env python3
"""Freeze reference/analysis_bounds.json: the index / slice / unsigned-subtraction sites on the analysis path (outside the four
reader modules, which have their own reviewed table) that neither the linear-guard analysis nor upper-bound inference can
discharge on the reference tree.  They are pre-existing sites whose safety rests on value-level invariants this family does
not decide; C05/X5 reports any site that is neither discharged nor in this list.  Run by hand after a recorded fix."""
import json, os, sys
sys.path.insert(0, os.path.dirname(os.path.dirname(os.path.abspath(__file__))))
from pfa import extract
from pfa.facts import Facts
from pfa.rules import lin as L
d, _ = extract.facts("dev", "/repo")
F = Facts(d)
rows = sorted(L.open_sites(F, exclude_files=L.READER_FILES))
p = os.path.join(os.path.dirname(os.path.dirname(os.path.abspath(__file__))), "reference", "analysis_bounds.json")
json.dump([list(r) for r in rows], open(p, "w"), indent=0)
print("frozen %d undischarged sites" % len(rows))
